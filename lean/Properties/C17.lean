import PlaybackProofs.RecorderFinish
import PlaybackProofs.RecorderHistory
import PlaybackProofs.RecorderIdle
/-!
# C17 — The sampling policy alone decides which recordings are kept

`atFinally cfg s p` is the recorder state when the operation's `finally` block runs; its `active` field says whether the
recording was discarded meanwhile (explicitly or by a capture failure), its `forced` field whether forcing was requested
and honoured.  Rates and draws are exact rationals (`Q`); `headDraw s` is the next value of the seeded generator.
The long-run fraction statement is proved in its counting form (`C17_kept_count`): over any history of N recorded
operations of one class the number kept equals the number of the next N draws that are within the rate, one draw each.
That this fraction tends to the rate for independent uniform draws is the law of large numbers and is NOT formalised (no
measure theory here): partial, as DESIGN.md says.
-/
namespace Properties.C17
open PlaybackModel.Recorder

/-- Operations of skipped classes start no recording: the cassette is never called. -/
theorem C17_skipped (ao : AliasOracle) (cfg : OpCfg) (s : St) (p : Prog) (hidle : s.Idle)
    (hsk : cfg.params.skipped = true) :
    (runOperation ao cfg s p).1.log = s.log ∧ (runOperation ao cfg s p).1.store = s.store ∧
    (runOperation ao cfg s p).1.drawn = s.drawn := by
  obtain ⟨ha, hf, _, hp, _, _⟩ := hidle
  have hro : runOperation ao cfg s p = exec s p := by
    unfold runOperation
    by_cases he : s.enabled = true <;> simp [inPlaybackMode, hp, he, hsk]
  rw [hro]
  exact ⟨(exec_inactive p s ha hf).2.2, (exec_frame p s).2.1, (exec_frame p s).2.2.2.1⟩

/-- **The policy.**  For a recorded operation: a discard always wins (abort, no draw); otherwise the recording is kept iff
forcing was honoured, or the rate is at least 1, or the next uniform draw is within the rate. -/
theorem C17_policy (ao : AliasOracle) (cfg : OpCfg) (s : St) (p : Prog)
    (hidle : s.Idle) (hen : s.enabled = true) (hsk : cfg.params.skipped = false) :
    (match (atFinally cfg s p).active with
     | none => (runOperation ao cfg s p).1.log = s.log ++ [.create s.nextId, .abort s.nextId]
     | some _ => (runOperation ao cfg s p).1.log = s.log ++ [.create s.nextId,
         if (atFinally cfg s p).forced || cfg.params.rate.geOne || (headDraw s).le cfg.params.rate
         then .save s.nextId else .abort s.nextId]) := by
  have h := runOperation_decision ao cfg s p hidle hen hsk
  cases hact : (atFinally cfg s p).active with
  | none => rw [hact] at h; exact h.1
  | some a => rw [hact] at h; simpa [keepDecision] using h.2.2.1

/-- One draw per decision that needs one, none otherwise: decisions are reproducible from the seed. -/
theorem C17_draws (ao : AliasOracle) (cfg : OpCfg) (s : St) (p : Prog)
    (hidle : s.Idle) (hen : s.enabled = true) (hsk : cfg.params.skipped = false) :
    (runOperation ao cfg s p).1.drawn = s.drawn +
      (match (atFinally cfg s p).active with
       | none => 0
       | some _ => if (atFinally cfg s p).forced || cfg.params.rate.geOne then 0 else 1) := by
  have h := runOperation_decision ao cfg s p hidle hen hsk
  cases hact : (atFinally cfg s p).active with
  | none => rw [hact] at h; simpa using h.2.1
  | some a => rw [hact] at h; simpa [drawsUsed] using h.2.2.2

/-- The decision is independent of the operation's content and outcome: two operations that agree on "discarded?" and
"forcing honoured?" get the same verdict from the same recorder state. -/
theorem C17_content_independent (ao : AliasOracle) (cfg : OpCfg) (s : St) (p p' : Prog)
    (hidle : s.Idle) (hen : s.enabled = true) (hsk : cfg.params.skipped = false)
    (hd : (atFinally cfg s p).active.isSome = (atFinally cfg s p').active.isSome)
    (hf : (atFinally cfg s p).forced = (atFinally cfg s p').forced) :
    (runOperation ao cfg s p).1.log = (runOperation ao cfg s p').1.log ∧
    (runOperation ao cfg s p).1.drawn = (runOperation ao cfg s p').1.drawn := by
  have h := C17_policy ao cfg s p hidle hen hsk
  have h' := C17_policy ao cfg s p' hidle hen hsk
  have d := C17_draws ao cfg s p hidle hen hsk
  have d' := C17_draws ao cfg s p' hidle hen hsk
  cases h1 : (atFinally cfg s p).active <;> cases h2 : (atFinally cfg s p').active <;>
    simp only [h1, h2, Option.isSome_none, Option.isSome_some] at h h' d d' hd
  · exact ⟨by rw [h, h'], by rw [d, d']⟩
  · exact absurd hd (by simp)
  · exact absurd hd (by simp)
  · exact ⟨by rw [h, h', hf], by rw [d, d', hf]⟩

/-- A force request is honoured unless the class ignores forcing (or nothing is being recorded). -/
theorem C17_force_request (s : St) :
    (doForce s).forced = (s.forced || (match s.active with | some a => !a.params.ignoreForce | none => false)) :=
  doForce_forced s

/-- A class that ignores forcing is never forced: its recordings are decided by rate and draw alone. -/
theorem C17_ignore_forcing (cfg : OpCfg) (s : St) (p : Prog) (hidle : s.Idle) (hig : cfg.params.ignoreForce = true) :
    (atFinally cfg s p).forced = false := by
  unfold atFinally
  rw [(execOperationFunc_fields (opened cfg s) p).1]
  apply exec_ignore_force
  · have := (opened_scope cfg s hidle.2.2.2.1 hidle.2.2.2.2.1)
    have ht := tick_fields (startRec cfg s)
    simpa [opened, startRec, addLog, hidle.2.1] using ht.2.1
  · intro a h; rw [(opened_fields cfg s).1] at h; cases h; exact hig

/-- An explicit discard always wins: nothing the rest of the operation does (forcing included) gets it saved. -/
theorem C17_discard_wins (ao : AliasOracle) (cfg : OpCfg) (L : List Ev) (id : Nat) (s : St) (rest : Prog)
    (excFlag : Option Bool) (tStart : Nat) (hs : Scope L id s) :
    (finishRecording ao cfg (execOperationFunc (doDiscard s) rest).1 excFlag tStart).log = L ++ [.create id, .abort id] := by
  have hs' := scope_doDiscard hs
  have hd := doDiscard_active s
  have hf : (doDiscard s).forced = false := by
    rcases hs'.2.2 with ⟨a, ha, _⟩ | ⟨_, hf, _⟩
    · rw [hd] at ha; cases ha
    · exact hf
  have hlog : (doDiscard s).log = L ++ [.create id, .abort id] := by
    rcases hs'.2.2 with ⟨a, ha, _⟩ | ⟨_, _, _, hl⟩
    · rw [hd] at ha; cases ha
    · exact hl
  have hin := exec_inactive rest (doDiscard s) hd hf
  have hef := execOperationFunc_fields (doDiscard s) rest
  have hact := hef.2.2.2.2.2.2.2 hin.1
  unfold finishRecording
  simp only [hact]
  rw [hef.2.1, hin.2.2, hlog]

/-- Switching recording off while the operation runs (after F15 it aborts the recording in flight) wins like an explicit
discard: whatever the rest of the operation does - forcing, switching recording on again - nothing is saved and the sampling
stream is not touched. -/
theorem C17_switch_off_wins (ao : AliasOracle) (cfg : OpCfg) (L : List Ev) (id : Nat) (s : St) (rest : Prog)
    (excFlag : Option Bool) (tStart : Nat) (hs : Scope L id s) :
    (finishRecording ao cfg (execOperationFunc (doSetEnabled s false) rest).1 excFlag tStart).log
      = L ++ [.create id, .abort id] ∧
    (finishRecording ao cfg (execOperationFunc (doSetEnabled s false) rest).1 excFlag tStart).draws = s.draws := by
  have hs' : Scope L id (doSetEnabled s false) := scope_doSetEnabled false hs
  have hd : (doSetEnabled s false).active = none := doSetEnabled_false_active s
  have hf : (doSetEnabled s false).forced = false := by
    rcases hs'.2.2 with ⟨a, ha, _⟩ | ⟨_, hf, _⟩
    · rw [hd] at ha; cases ha
    · exact hf
  have hlog : (doSetEnabled s false).log = L ++ [.create id, .abort id] := by
    rcases hs'.2.2 with ⟨a, ha, _⟩ | ⟨_, _, _, hl⟩
    · rw [hd] at ha; cases ha
    · exact hl
  have hin := exec_inactive rest (doSetEnabled s false) hd hf
  have hef := execOperationFunc_fields (doSetEnabled s false) rest
  have hact := hef.2.2.2.2.2.2.2 hin.1
  have hrng := execOperationFunc_rng (doSetEnabled s false) rest
  have hfd := finishRecording_draws ao cfg (execOperationFunc (doSetEnabled s false) rest).1 excFlag tStart
  refine ⟨?_, ?_⟩
  · unfold finishRecording
    simp only [hact]
    rw [hef.2.1, hin.2.2, hlog]
  · rw [hfd.1, hact, hrng.1]; simp

/-- The kill switch never touches the sampling stream: `enable_recording()` / `disable_recording()` between (or inside)
operations leave the remaining draws and the number of draws consumed as they are, so the decisions of a seeded history
continue the seeded sequence across any number of off / on transitions (a recorder that is switched on per request draws
the 1st, 2nd, 3rd ... value of its seed, not the 1st again and again). -/
theorem C17_switch_keeps_stream (ao : AliasOracle) (s : St) (b : Bool) :
    (doSetEnabled s b).draws = s.draws ∧ (doSetEnabled s b).drawn = s.drawn ∧
    (execRun ao s .enable).1.draws = s.draws ∧ (execRun ao s .disable).1.draws = s.draws ∧
    (execRun ao s .enable).1.drawn = s.drawn ∧ (execRun ao s .disable).1.drawn = s.drawn := by
  have h : ∀ b, (doSetEnabled s b).draws = s.draws ∧ (doSetEnabled s b).drawn = s.drawn := by
    intro b
    unfold doSetEnabled doDiscard
    cases b <;> cases hd : PlaybackModel.Source.disableDiscards <;> cases ha : s.active <;>
      simp [resetActive, addLog]
  exact ⟨(h b).1, (h b).2, (h true).1, (h false).1, (h true).2, (h false).2⟩

/-- Forcing does not leak into the next run: after any run the flag is clear (C09). -/
theorem C17_no_leak (ao : AliasOracle) (s : St) (r : Run) (h : s.Idle) : (execRun ao s r).1.forced = false := by
  cases r with
  | op cfg p =>
    obtain ⟨ha, hf, hc, hp, hpo, hi⟩ := h
    by_cases hrec : s.enabled = true ∧ cfg.params.skipped = false
    · exact (runOperation_recording_spec ao cfg s p hp hpo hrec.1 hrec.2 ha).2.2.2.2.1
    · have hro : runOperation ao cfg s p = exec s p := by
        unfold runOperation
        by_cases he : s.enabled = true
        · have : cfg.params.skipped = true := by
            cases hs : cfg.params.skipped
            · exact absurd ⟨he, hs⟩ hrec
            · rfl
          simp [inPlaybackMode, hp, he, this]
        · simp [inPlaybackMode, hp, he]
      simp only [execRun]
      rw [hro]
      exact (exec_inactive p s ha hf).2.1
  | play cfg id p => exact (runPlay_spec ao cfg s id p h).1.2.1
  | enable => exact (idle_doSetEnabled true h).2.1
  | disable => exact (idle_doSetEnabled false h).2.1

/-- Storage-level sampling by a size-based calculator follows the same rule on the calculator's ratio. -/
theorem C17_s3_same_rule (r d : Q) :
    s3ShouldSample (some r) d = keepDecision false { rate := r } d ∧ s3ShouldSample none d = true := by
  simp [s3ShouldSample_eq, keepDecision]

/-- number of recordings handed to the cassette to be saved -/
def saves (l : List Ev) : Nat := (l.filter (fun e => match e with | .save _ => true | _ => false)).length

/-- an operation that neither discards its recording nor asks for forced sampling, on whatever idle recorder it runs -/
def Quiet (cfg : OpCfg) (p : Prog) : Prop :=
  ∀ s : St, s.Idle → s.enabled = true → (atFinally cfg s p).active.isSome = true ∧ (atFinally cfg s p).forced = false

theorem saves_append_pair (l : List Ev) (i : Nat) (b : Bool) :
    saves (l ++ [.create i, if b then .save i else .abort i]) = saves l + (if b then 1 else 0) := by
  unfold saves
  rw [List.filter_append]
  cases b <;> simp [List.filter]

/-- **The kept fraction, counting form.**  A history of `ps.length` recorded operations of one class with a rate below 1,
none of them discarded or forced (whatever they do otherwise: return, raise, be interrupted), on a recorder whose seeded
generator still has that many draws: exactly one draw is consumed per operation, in order, and the number of recordings
kept equals the number of those draws that are within the rate. -/
theorem C17_kept_count (ao : AliasOracle) (cfg : OpCfg) (hsk : cfg.params.skipped = false)
    (hr : cfg.params.rate.geOne = false) :
    ∀ (ps : List Prog) (s : St), s.Idle → s.enabled = true → (∀ p ∈ ps, Quiet cfg p) → ps.length ≤ s.draws.length →
      saves (execAll ao s (ps.map (Run.op cfg))).log =
        saves s.log + ((s.draws.take ps.length).filter (fun d => d.le cfg.params.rate)).length ∧
      (execAll ao s (ps.map (Run.op cfg))).drawn = s.drawn + ps.length ∧
      (execAll ao s (ps.map (Run.op cfg))).draws = s.draws.drop ps.length := by
  intro ps
  induction ps with
  | nil => intro s _ _ _ _; simp [execAll]
  | cons p rest ih =>
    intro s hidle hen hq hlen
    obtain ⟨hact, hforced⟩ := hq p (List.mem_cons_self) s hidle hen
    have hdec := runOperation_decision ao cfg s p hidle hen hsk
    have hdr := runOperation_draws ao cfg s p hidle hen hsk
    have hidle' : (runOperation ao cfg s p).1.Idle := by
      obtain ⟨ha, hf, hc, hp, hpo, hi⟩ := hidle
      obtain ⟨_, _, _, h1, h2, h3, h4, h5, h6⟩ := runOperation_recording_spec ao cfg s p hp hpo hen hsk ha
      exact ⟨h1, h2, h3, h4, h5, by rw [h6]; exact hi⟩
    cases ha : (atFinally cfg s p).active with
    | none => simp [ha] at hact
    | some a =>
      rw [ha] at hdec hdr
      obtain ⟨_, _, hlog, hdrawn⟩ := hdec
      simp only [hforced, keepDecision, drawsUsed, hr, Bool.false_or, Bool.or_self, Bool.false_eq_true, if_false,
        Nat.one_ne_zero] at hlog hdrawn hdr
      cases hds : s.draws with
      | nil => simp [hds] at hlen
      | cons d ds =>
        have hhd : headDraw s = d := by simp [headDraw, hds]
        rw [hhd] at hlog
        rw [hds] at hdr
        simp only [List.tail_cons] at hdr
        have hlen' : rest.length ≤ (runOperation ao cfg s p).1.draws.length := by
          rw [hdr.1]; simp only [List.length_cons, hds] at hlen; omega
        obtain ⟨i1, i2, i3⟩ := ih (runOperation ao cfg s p).1 hidle' (hdr.2 rfl)
          (fun q hq' => hq q (List.mem_cons_of_mem _ hq')) hlen'
        simp only [List.map_cons, execAll, execRun, List.length_cons]
        refine ⟨?_, ?_, ?_⟩
        · rw [i1, hlog, saves_append_pair, hdr.1]
          simp only [List.take_succ_cons, List.filter_cons]
          cases d.le cfg.params.rate <;> simp <;> omega
        · rw [i2, hdrawn]; omega
        · rw [i3, hdr.1]; simp

/-! Non-vacuity: the four rate regimes of the table. -/
example : Quiet { cls := "Op" } (.done (.out (.ret (.atom "1")))) := by
  intro s hidle hen
  obtain ⟨ha, hf, hc, hp, hpo, hi⟩ := hidle
  simp [atFinally, opened, startRec, tick, addLog, execOperationFunc, exec, inPlaybackMode, hp, write, hf]
  cases s.clock <;> simp
example : keepDecision false { rate := ⟨0, 1⟩ } ⟨0, 1⟩ = true ∧ keepDecision false { rate := ⟨0, 1⟩ } ⟨1, 4⟩ = false ∧
    keepDecision false { rate := ⟨1, 2⟩ } ⟨1, 2⟩ = true ∧ keepDecision false { rate := ⟨1, 2⟩ } ⟨3, 4⟩ = false ∧
    keepDecision false { rate := ⟨3, 2⟩ } ⟨3, 4⟩ = true ∧ keepDecision true { rate := ⟨0, 1⟩ } ⟨3, 4⟩ = true := by decide

end Properties.C17
