import PlaybackProofs.S3
/-!
# C15 — S3 cassette writes are confined: read-only, own prefix, complete-before-visible

Property theorems only; the model is `PlaybackModel/S3.lean`, helper lemmas are in `PlaybackProofs/S3.lean`.
`glob` (fnmatch) and `dayStr` (strftime) are parameters.  Cassettes are identified by their configuration
(`kp` = normalised key prefix, `readOnly`, `transient`); `runShared` runs any interleaving of operations of any number of
cassettes on one bucket (each operation names its cassette), `runOps c` the operations of one cassette.  The log tags
every bucket mutation with the configuration of the cassette that issued it.
-/
namespace Properties.C15
open PlaybackModel.S3

variable (glob : String → String → Bool) (dayStr : Nat → String)

/-- A read-only cassette never writes or deletes anything, under any call sequence: bucket and log are unchanged. -/
theorem C15_read_only (c : Cfg) (hro : c.readOnly = true) (st : St) (ops : List Op) :
    (runOps glob dayStr c st ops).bucket = st.bucket ∧ (runOps glob dayStr c st ops).log = st.log := by
  suffices h : runOps glob dayStr c st ops = st by rw [h]; exact ⟨rfl, rfl⟩
  unfold runOps
  induction ops generalizing st with
  | nil => rfl
  | cons op ops ih => simp only [List.map_cons, runShared]; rw [step_readOnly glob dayStr hro]; exact ih st

/-- … and in any interleaving with other cassettes on the same bucket no mutation is ever issued by a read-only one. -/
theorem C15_read_only_shared (st : St) (ops : List (Cfg × Op)) (h0 : ∀ e ∈ st.log, e.1.readOnly = false) :
    ∀ e ∈ (runShared glob dayStr st ops).log, e.1.readOnly = false := by
  refine runShared_log_inv glob dayStr (fun e => e.1.readOnly = false) ?_ ops st h0
  intro c b op m hm
  cases hro : c.readOnly with
  | false => rfl
  | true => rw [stepMutations_readOnly hro] at hm; cases hm

/-- Every mutation is on a key under the issuing cassette's own root, in every interleaving of any cassettes. -/
theorem C15_confined (st : St) (ops : List (Cfg × Op)) (h0 : ∀ e ∈ st.log, startsWith e.2.key (root e.1) = true) :
    ∀ e ∈ (runShared glob dayStr st ops).log, startsWith e.2.key (root e.1) = true :=
  runShared_log_inv glob dayStr (fun e => startsWith e.2.key (root e.1) = true)
    (fun c b op _ hm => stepMutations_root c b op hm) ops st h0

/-- … more precisely under its `full/` or `metadata/` root. -/
theorem C15_confined_own (st : St) (ops : List (Cfg × Op))
    (h0 : ∀ e ∈ st.log, startsWith e.2.key (fullRoot e.1) = true ∨ startsWith e.2.key (metaRoot e.1) = true) :
    ∀ e ∈ (runShared glob dayStr st ops).log,
      startsWith e.2.key (fullRoot e.1) = true ∨ startsWith e.2.key (metaRoot e.1) = true :=
  runShared_log_inv glob dayStr _ (fun c b op _ hm => stepMutations_own c b op hm) ops st h0

/-- Closing (or leaving the `with` block of) a writable transient cassette removes exactly the objects under its own
`full/` and `metadata/` roots; closing any other cassette changes nothing. -/
theorem C15_close (c : Cfg) (st : St) :
    (c.readOnly = false ∧ c.transient = true →
      ((step glob dayStr c st .close).1.bucket =
          st.bucket.filter (fun e => !startsWith e.1 (fullRoot c) && !startsWith e.1 (metaRoot c))) ∧
      (step glob dayStr c st .exit).1.bucket = (step glob dayStr c st .close).1.bucket) ∧
    (c.readOnly = true ∨ c.transient = false →
      (step glob dayStr c st .close).1 = st ∧ (step glob dayStr c st .exit).1 = st) := by
  constructor
  · rintro ⟨hw, ht⟩
    refine ⟨?_, rfl⟩
    simp [step, closeBucket, hw, ht, deletePrefix, List.filter_filter, Bool.and_comm]
  · intro h
    have hb := closeBucket_idle st.bucket h
    have hs : closeSteps c st.bucket = [] := by rcases h with h | h <;> simp [closeSteps, h]
    simp only [step, hb, hs, List.map_nil, List.append_nil]
    cases st; simp

/-- Frame: no sequence of operations of cassette `c` changes an object whose key is outside `c`'s own `full/` and
`metadata/` roots – in particular every object whose key is not under `root c` (foreign objects). -/
theorem C15_foreign (c : Cfg) (st : St) (ops : List Op) (x : String × Obj)
    (h : (startsWith x.1 (fullRoot c) = false ∧ startsWith x.1 (metaRoot c) = false) ∨ startsWith x.1 (root c) = false) :
    x ∈ (runOps glob dayStr c st ops).bucket ↔ x ∈ st.bucket := by
  have h' : startsWith x.1 (fullRoot c) = false ∧ startsWith x.1 (metaRoot c) = false := by
    rcases h with h | h
    · exact h
    · constructor
      · cases hs : startsWith x.1 (fullRoot c) with
        | false => rfl
        | true => rw [startsWith_trans hs (fullRoot_under_root c)] at h; cases h
      · cases hs : startsWith x.1 (metaRoot c) with
        | false => rfl
        | true => rw [startsWith_trans hs (metaRoot_under_root c)] at h; cases h
  unfold runOps
  induction ops generalizing st with
  | nil => exact Iff.rfl
  | cons op ops ih =>
    simp only [List.map_cons, runShared]
    exact (ih _).trans (step_frame glob dayStr c st op x h'.1 h'.2)

/-- Neighbours: if the `full/` / `metadata/` roots of `c` and of another cassette `c'` are pairwise prefix-unrelated, no
sequence of operations of `c` (saves, closing a transient cassette, …) changes any object of `c'`. -/
theorem C15_neighbours (c c' : Cfg)
    (hff : Unrelated (fullRoot c') (fullRoot c)) (hfm : Unrelated (fullRoot c') (metaRoot c))
    (hmf : Unrelated (metaRoot c') (fullRoot c)) (hmm : Unrelated (metaRoot c') (metaRoot c))
    (st : St) (ops : List Op) (x : String × Obj)
    (hx : startsWith x.1 (fullRoot c') = true ∨ startsWith x.1 (metaRoot c') = true) :
    x ∈ (runOps glob dayStr c st ops).bucket ↔ x ∈ st.bucket := by
  apply C15_foreign
  left
  rcases hx with hx | hx
  · exact ⟨hff.not_both hx, hfm.not_both hx⟩
  · exact ⟨hmf.not_both hx, hmm.not_both hx⟩

/-- Distinct non-empty key prefixes without `/` give prefix-unrelated roots (`a` vs `ab`: thanks to the trailing slash),
so no key lies under both. -/
theorem C15_slash (p p' : String) (ro tr ro' tr' : Bool) (hne : p ≠ p') (hp : noChar '/' p) (hp' : noChar '/' p')
    (h0 : p ≠ "") (h0' : p' ≠ "") :
    Unrelated (root (mkCfg p ro tr)) (root (mkCfg p' ro' tr')) ∧
    ∀ k, startsWith k (root (mkCfg p ro tr)) = true → startsWith k (root (mkCfg p' ro' tr')) = false :=
  ⟨roots_unrelated ro tr ro' tr' hne hp hp' h0 h0', fun _ hk => (roots_unrelated ro tr ro' tr' hne hp hp' h0 h0').not_both hk⟩

/-- The default (empty) key prefix: its `full/` and `metadata/` roots are prefix-unrelated to the root of every
non-empty slash-free prefix other than `full` and `metadata` themselves. -/
theorem C15_slash_default (p' : String) (ro tr ro' tr' : Bool) (hp' : noChar '/' p') (h0' : p' ≠ "")
    (hf : p' ≠ "full") (hm : p' ≠ "metadata") :
    Unrelated (fullRoot (mkCfg "" ro tr)) (root (mkCfg p' ro' tr')) ∧
    Unrelated (metaRoot (mkCfg "" ro tr)) (root (mkCfg p' ro' tr')) :=
  default_unrelated ro tr ro' tr' hp' h0' hf hm

/-- Complete-before-visible.  Take ANY history of events on the bucket – saves through cassettes with `c`'s key prefix
(each one two puts: full object, then metadata object) interleaved with single mutations by anybody else outside `c`'s
`full/` and `metadata/` roots – and stop it after ANY number `j` of individual bucket mutations (a crash in the middle
of a save included).  If every discoverable recording was fetchable before, every discoverable recording is fetchable. -/
theorem C15_complete_before_visible (c : Cfg) (b0 : Bucket) (hist : List Event) (hok : ∀ e ∈ hist, e.ok c) (j : Nat)
    (h0 : ∀ id, discoverable c b0 id = true → fetchable c b0 id = true) :
    let b := applyMutations b0 ((hist.flatMap (eventSteps c)).take j)
    ∀ id, discoverable c b id = true → fetchable c b id = true :=
  complete_events c hist hok j b0 h0

/-- The bucket the operations `save … save, saveCrash k` of a writable cassette leave behind is such a truncated
history, so the theorem above speaks about the model's operations. -/
theorem C15_crash_is_truncation (c : Cfg) (hw : c.readOnly = false) (st : St) (saves : List (SaveReq × Nat))
    (r : SaveReq) (t k : Nat) :
    (runOps glob dayStr c st (saves.map (fun e => Op.save e.1 e.2) ++ [Op.saveCrash r t k])).bucket =
      applyMutations st.bucket
        (((saves.map (fun e => Event.save e.1 e.2) ++ [Event.save r t]).flatMap (eventSteps c)).take (2 * saves.length + k)) := by
  unfold runOps
  induction saves generalizing st with
  | nil =>
    simp only [List.map_nil, List.nil_append, List.map_cons, runShared, step, hw, List.flatMap_cons,
      List.flatMap_nil, List.append_nil, eventSteps, List.length_nil, Nat.mul_zero, Nat.zero_add]
    simp [St.apply]
  | cons e saves ih =>
    simp only [List.map_cons, List.cons_append, runShared, step, hw, List.flatMap_cons, eventSteps, List.length_cons]
    rw [ih]
    have : 2 * (saves.length + 1) + k = (2 * saves.length + k) + 2 := by omega
    rw [this]
    simp [St.apply, saveSteps, applyMutations]

/-- With the two writes of a save in the opposite order the invariant fails after the first mutation: the recording is
discoverable and not fetchable. -/
theorem C15_swapped_counterexample :
    let c : Cfg := mkCfg "a" false false
    let r : SaveReq := ⟨"Op/20210301/u1", "data", []⟩
    let b := applyMutations [] ((saveStepsSwapped c 0 r).take 1)
    (∀ id, discoverable c [] id = true → fetchable c [] id = true) ∧
    discoverable c b r.id = true ∧ fetchable c b r.id = false := by
  refine ⟨fun id h => by simp [discoverable, hasKey] at h, ?_, ?_⟩ <;> decide

/-! Non-vacuity: the hypotheses above are satisfiable by concrete, non-trivial states. -/

/-- a bucket with a foreign object and a complete recording of cassette `a` -/
def exBucket : Bucket :=
  applyMutations [("foreign/x", ⟨"1", [], 0⟩)] (saveSteps (mkCfg "a" false true) 7 ⟨"Op/20210301/u1", "data", []⟩)

example : (mkCfg "" true false).readOnly = true := rfl
example : ∀ e ∈ (⟨exBucket, []⟩ : St).log, startsWith e.2.key (root e.1) = true := by simp
example : discoverable (mkCfg "a" false true) exBucket "Op/20210301/u1" = true ∧
    fetchable (mkCfg "a" false true) exBucket "Op/20210301/u1" = true := by decide
example : (Event.other (.put "tape_recorder_recordings/ab/full/x" ⟨"", [], 0⟩)).ok (mkCfg "a" false true) := by
  constructor <;> decide
-- nested and empty prefixes satisfy the hypotheses of `C15_neighbours`
example : Unrelated (fullRoot (mkCfg "a/b" false false)) (fullRoot (mkCfg "a" false true)) ∧
    Unrelated (fullRoot (mkCfg "a/b" false false)) (metaRoot (mkCfg "a" false true)) ∧
    Unrelated (metaRoot (mkCfg "a/b" false false)) (fullRoot (mkCfg "a" false true)) ∧
    Unrelated (metaRoot (mkCfg "a/b" false false)) (metaRoot (mkCfg "a" false true)) := by decide
example : Unrelated (fullRoot (mkCfg "a" false false)) (fullRoot (mkCfg "a/b" false true)) ∧
    Unrelated (fullRoot (mkCfg "a" false false)) (metaRoot (mkCfg "a/b" false true)) ∧
    Unrelated (metaRoot (mkCfg "a" false false)) (fullRoot (mkCfg "a/b" false true)) ∧
    Unrelated (metaRoot (mkCfg "a" false false)) (metaRoot (mkCfg "a/b" false true)) := by decide
example : Unrelated (fullRoot (mkCfg "a" false false)) (fullRoot (mkCfg "" false true)) ∧
    Unrelated (fullRoot (mkCfg "a" false false)) (metaRoot (mkCfg "" false true)) ∧
    Unrelated (metaRoot (mkCfg "a" false false)) (fullRoot (mkCfg "" false true)) ∧
    Unrelated (metaRoot (mkCfg "a" false false)) (metaRoot (mkCfg "" false true)) := by decide
example : "a" ≠ "ab" ∧ noChar '/' "a" ∧ noChar '/' "ab" := by decide
/-- the hypotheses of `C15_neighbours` are needed: a cassette with the default prefix and one with prefix `full` share
key space (`tape_recorder_recordings/full/…`), so closing the former, if transient, removes the latter's objects -/
example : ¬ Unrelated (fullRoot (mkCfg "full" false false)) (fullRoot (mkCfg "" false true)) := by decide

/-- **The key layout of the code as it stands** (constants regenerated from `S3TapeCassette.FULL_KEY` / `METADATA_KEY` on
every run) is the one the model's `base` / `fullRoot` / `metaRoot` are written with. -/
theorem C15_layout_as_in_source :
    PlaybackModel.Source.s3FullKey = "tape_recorder_recordings/{key_prefix}full/{id}" ∧
    PlaybackModel.Source.s3MetadataKey = "tape_recorder_recordings/{key_prefix}metadata/{id}" := by decide

end Properties.C15
