import PlaybackProofs.RecorderIdle
import PlaybackProofs.RecorderFinish
/-!
# C05 — A recording is persisted whole or not at all, and finalised exactly once

The cassette log records every `create_new_recording` / `save_recording` / `abort_recording` call.  A `save` that
raises (storage fault, unserialisable value) is still the one finalisation (it is swallowed by the recorder).
-/
namespace Properties.C05
open PlaybackModel.Recorder

/-- Every recording the recorder starts is finalised exactly once: the operation adds exactly `create i` followed by
exactly one of `save i` / `abort i` to the cassette log — for every program, fault placement, discard, sampling outcome,
ordinary exception and interrupt at any step, including inside intercepted bodies. -/
theorem C05_exactly_once (ao : AliasOracle) (cfg : OpCfg) (s : St) (p : Prog)
    (hidle : s.Idle) (hen : s.enabled = true) (hsk : cfg.params.skipped = false) :
    (runOperation ao cfg s p).1.log = s.log ++ [.create s.nextId, .save s.nextId] ∨
    (runOperation ao cfg s p).1.log = s.log ++ [.create s.nextId, .abort s.nextId] := by
  obtain ⟨ha, _, _, hp, hpo, _⟩ := hidle
  exact (runOperation_recording_spec ao cfg s p hp hpo hen hsk ha).2.2.1

theorem doDiscard_clears (s : St) : (doDiscard s).active = none ∧ ((doDiscard s).forced = false ∨ s.active = none) := by
  unfold doDiscard; split <;> simp_all [resetActive]

/-- A capture failure discards the whole recording: after an input whose key cannot be built, no recording is active
any more — whatever the body and the rest of the operation (`k`) do. -/
theorem C05_key_failure_discards (s : St) (cfg : InCfg) (args : Args) (body : Prog) (k : Out → Prog)
    (hi : shouldIntercept s = true) (hp : s.playback = none) (hk : cfg.keys args = none) :
    (exec s (.callIn cfg args body k)).1.active = none := by
  have hact : s.active.isSome = true := by
    cases h : s.active with
    | some a => rfl
    | none => simp [shouldIntercept, inRecordingMode, inPlaybackMode, hp, h] at hi
  have hd : (doDiscard s).active = none ∧ (doDiscard s).forced = false := by
    cases h : s.active with
    | none => simp [h] at hact
    | some a => simp [doDiscard, h, resetActive]
  rw [exec]
  simp only [hi, Bool.not_true, Bool.false_eq_true, if_false, hk, inPlaybackMode, hp, Option.isSome_none]
  have hb := exec_inactive body (setInt (addJournal (doDiscard s) (cfg.name, args)) true)
    (by simpa using hd.1) (by simpa using hd.2)
  generalize exec (setInt (addJournal (doDiscard s) (cfg.name, args)) true) body = r at hb
  obtain ⟨s1, e⟩ := r
  cases e with
  | interrupt i => simpa using hb.1
  | out o => exact (exec_inactive (k o) (setInt s1 false) (by simpa using hb.1) (by simpa using hb.2.1)).1

/-- … and after an input whose data handler raises, no recording is active any more. -/
theorem C05_handler_failure_discards (cfg : InCfg) (args : Args) (k0 : Key) (s : St) (v : Val)
    (f : Args → Val → Option Val) (hf : cfg.prepare = some f) (hfail : f args v = none) :
    (afterInput cfg args k0 s (.ret v)).active = none := by
  simp only [afterInput, envelopeOf, hf, hfail, Option.map_none]
  unfold doDiscard; split <;> simp_all [resetActive]

/-- … likewise for an output whose data handler raises. -/
theorem C05_output_handler_failure_discards (s : St) (cfg : OutCfg) (n : Nat) (args : Args)
    (f : Args → Option Val) (hf : cfg.prepare = some f) (hfail : f args = none) :
    (recordOutput s cfg n args).active = none := by
  simp only [recordOutput, outValue, hf, hfail, Option.map_none]
  unfold doDiscard; split <;> simp_all [resetActive]

/-- Once the recording is gone (explicit discard, capture failure), nothing the rest of the operation does brings it
back, and the scope finalises it as aborted: nothing is saved.  `rest` is an arbitrary continuation. -/
theorem C05_discarded_never_saved (ao : AliasOracle) (cfg : OpCfg) (L : List Ev) (id : Nat) (s : St) (rest : Prog)
    (excFlag : Option Bool) (tStart : Nat) (hs : Scope L id s) (hd : s.active = none) :
    (finishRecording ao cfg (execOperationFunc s rest).1 excFlag tStart).log = L ++ [.create id, .abort id] ∧
    (finishRecording ao cfg (execOperationFunc s rest).1 excFlag tStart).store = s.store := by
  have hf : s.forced = false := by
    rcases hs.2.2 with ⟨a, ha, _⟩ | ⟨_, hf, _⟩
    · rw [hd] at ha; cases ha
    · exact hf
  have hlog : s.log = L ++ [.create id, .abort id] := by
    rcases hs.2.2 with ⟨a, ha, _⟩ | ⟨_, _, _, hl⟩
    · rw [hd] at ha; cases ha
    · exact hl
  have hin := exec_inactive rest s hd hf
  have hef := execOperationFunc_fields s rest
  have hact : (execOperationFunc s rest).1.active = none := hef.2.2.2.2.2.2.2 hin.1
  unfold finishRecording
  simp only [hact]
  refine ⟨by rw [hef.2.1, hin.2.2, hlog], by rw [hef.2.2.2.1, (exec_frame rest s).2.1]⟩

/-- A recording is saved at most once and only as the last step: whenever the log ends in `save i`, the stored
recording `i` is the recording that was filled (or the save failed and nothing was stored). -/
theorem C05_saved_is_whole (cfg : OpCfg) (s : St) (r : Recording) :
    (saveRecording s cfg r).store = (if cfg.saveFailsOn r.data then s.store else r :: s.store) := by
  unfold saveRecording; split <;> simp [addLog]

/-- Finalisation closes the recording object: after the operation, a late write to the recording it created (a worker
thread that outlives the operation, a caller that kept the object) is rejected - unless the cassette's save raised
(the one case in which `save_recording` does not reach `close()`). -/
theorem C05_finalised_rejects_writes (ao : AliasOracle) (cfg : OpCfg) (s : St) (p : Prog)
    (hidle : s.Idle) (hen : s.enabled = true) (hsk : cfg.params.skipped = false)
    (hsv : ∀ d, cfg.saveFailsOn d = false) :
    lateWrite (runOperation ao cfg s p).1 s.nextId = .error "AssertionError" := by
  have hdec := runOperation_decision ao cfg s p hidle hen hsk
  have hclosed : isClosed (runOperation ao cfg s p).1 s.nextId = true := by
    cases hact : (atFinally cfg s p).active with
    | none =>
      rw [hact] at hdec
      simp only [isClosed, hdec.1]
      simp
    | some a =>
      rw [hact] at hdec
      obtain ⟨_, _, hlog, _⟩ := hdec
      cases hk : keepDecision (atFinally cfg s p).forced cfg.params (headDraw s) with
      | false =>
        rw [hk] at hlog
        simp only [isClosed, hlog]
        simp
      | true =>
        have hst := runOperation_saved ao cfg s p a hidle hen hsk hact hk (hsv a.data)
        simp only [isClosed, hst, fetch]
        simp
  simp [lateWrite, hclosed]

/-- … and the converse case: a save that raises leaves the recording open (nothing was stored, nothing was aborted). -/
theorem C05_failed_save_leaves_open (s : St) (cfg : OpCfg) (r : Recording) (hf : cfg.saveFailsOn r.data = true)
    (hopen : isClosed s r.id = false) : isClosed (saveRecording s cfg r) r.id = false := by
  simp only [isClosed, Bool.or_eq_false_iff] at hopen ⊢
  unfold saveRecording
  simp only [hf, if_true, addLog]
  refine ⟨?_, hopen.2⟩
  have h1 := hopen.1
  simp only [List.contains_eq_mem, List.mem_append, List.mem_cons, List.mem_nil_iff, decide_eq_false_iff_not] at h1 ⊢
  intro h
  rcases h with h | h | h
  · exact h1 h
  · cases h
  · exact h

/-- **The kill switch cannot cut a recording in two** (after F15).  Whatever the running code - the operation itself, an
intercepted body, code run on its behalf - does with `enable_recording()` / `disable_recording()`, at every point of the
run "a recording is in flight" implies "the switch is on": so no interception of a recording that is later saved went by
uncaptured because the switch happened to be off. -/
theorem C05_in_flight_implies_enabled (p : Prog) (s : St) (h : s.enabled = true ∨ s.active = none) :
    (exec s p).1.enabled = true ∨ (exec s p).1.active = none :=
  exec_enabledInv p s h

/-- … and switching recording off while an operation is being recorded aborts that recording there and then: whatever
the rest of the operation does (switch it on again included), the scope ends with `abort` and nothing is stored. -/
theorem C05_switch_off_aborts (ao : AliasOracle) (cfg : OpCfg) (L : List Ev) (id : Nat) (s : St) (rest : Prog)
    (excFlag : Option Bool) (tStart : Nat) (hs : Scope L id s) :
    (finishRecording ao cfg (execOperationFunc s (.setEnabled false rest)).1 excFlag tStart).log
      = L ++ [.create id, .abort id] ∧
    (finishRecording ao cfg (execOperationFunc s (.setEnabled false rest)).1 excFlag tStart).store = s.store := by
  have hs' : Scope L id (doSetEnabled s false) := scope_doSetEnabled false hs
  have hd : (doSetEnabled s false).active = none := doSetEnabled_false_active s
  have h := C05_discarded_never_saved ao cfg L id (doSetEnabled s false) rest excFlag tStart hs' hd
  have he : execOperationFunc s (.setEnabled false rest) = execOperationFunc (doSetEnabled s false) rest := by
    unfold execOperationFunc; rw [exec]
  rw [he]
  exact ⟨h.1, by rw [h.2]; simp⟩

/-! Non-vacuity -/
/-- an operation that reads, switches recording off, reads again, switches it on again and returns: created, aborted,
nothing stored (before F15: saved, not flagged incomplete, without the second read) -/
example :
    let rd (a : String) (k : Out → Prog) : Prog :=
      .callIn { name := "read", keys := fun _ => some (.input "read" true [.atom a] [], []), prepare := none,
                restore := fun _ v => .ret v, runOriginal := false, substitute := none } ⟨[.atom a], []⟩
        (.done (.out (.ret (.atom a)))) k
    let p : Prog := rd "1" fun _ => .setEnabled false (rd "2" fun _ => .setEnabled true (.done (.out (.ret (.atom "3")))))
    let r := runOperation ⟨fun a => a == opAlias, by simp⟩ { cls := "Op" } { enabled := true, clock := [0, 1] } p
    r.1.log = [.create 0, .abort 0] ∧ r.1.store = [] ∧ r.1.active = none ∧ r.1.enabled = true ∧
      r.2 = .out (.ret (.atom "3")) := by
  decide

example : ∀ d, ({ cls := "Op" } : OpCfg).saveFailsOn d = false := fun _ => rfl
example : Scope [] 0 ({ active := some { id := 0, data := [], params := {} }, log := [.create 0], enabled := true } : St) :=
  ⟨rfl, rfl, Or.inl ⟨_, rfl, rfl, rfl⟩⟩
example : Scope [] 0 ({ log := [.create 0, .abort 0], enabled := true } : St) ∧ ({ log := [Ev.create 0, .abort 0], enabled := true } : St).active = none :=
  ⟨⟨rfl, rfl, Or.inr ⟨rfl, rfl, rfl, rfl⟩⟩, rfl⟩

end Properties.C05
