import PlaybackProofs.FileIntercept
/-!
# C20 — File interception preserves file bytes and honours the size limit

Property theorems only; the model is `PlaybackModel/FileIntercept.lean`, helper lemmas are in
`PlaybackProofs/FileIntercept.lean`.  Bytes, contents, paths, limits, argument lists and file systems are universally
quantified; nothing is bounded.
-/
namespace Properties.C20
open PlaybackModel.FileIntercept

/-- base64 decoding inverts base64 encoding for ALL byte lists (concrete model, standard alphabet, `=` padding). -/
theorem C20_b64_roundtrip (bs : Bytes) : unb64 (b64 bs) = bs :=
  b64_roundtrip bs

/-- The encoder never produces the placeholder text (`' '` is not in the alphabet), so a recorded file - even one whose
content IS the placeholder text - is never mistaken for an above-limit file when it is restored. -/
theorem C20_b64_alphabet (bs : Bytes) : b64 bs ≠ placeholder ∧ (32 : Nat) ∉ toNats (b64 bs) :=
  ⟨b64_ne_placeholder bs, b64_no_space bs⟩

/-- **Input files.**  A file of content `c` not above the limit, recorded at the path selected from the recorded call,
sent through the cassette, is restored byte-identically at the path selected from the REPLAYED call (`args'`,
`kwargs'`), whatever the replay-time file system holds and whatever the recorded path was. -/
theorem C20_input (fs fs2 : FS) (h : Handler) (args args' : List PVal) (kwargs kwargs' : List (String × PVal))
    (p p' : String) (c : Bytes)
    (hp : filePath h args kwargs = .ok (.str p)) (hc : fs.get p = some c)
    (hl : aboveLimit c.length h.limit = false)
    (hp' : filePath h args' kwargs' = .ok (.str p')) :
    ∃ env, (prepare fs h args kwargs).2 = .ok env ∧
      (restoreInput fs2 h (cassetteRT env) args' kwargs').2 = .ok p' ∧
      (restoreInput fs2 h (cassetteRT env) args' kwargs').1.get p' = some c := by
  refine ⟨{ path := .str p, content := b64 c }, ?_, ?_, ?_⟩
  · rw [prepare_below fs h args kwargs p c hp hc hl]
  · simp [restoreInput, hp']
  · simp only [restoreInput, hp', cassetteRT, deserialize, if_pos (b64_ne_placeholder c), b64_roundtrip]
    exact FS.get_write_same _ _ _

/-- **Output files.**  The holder restored from the recorded envelope carries the original bytes. -/
theorem C20_output (fs : FS) (h : Handler) (args : List PVal) (kwargs : List (String × PVal)) (p : String) (c : Bytes)
    (hp : filePath h args kwargs = .ok (.str p)) (hc : fs.get p = some c)
    (hl : aboveLimit c.length h.limit = false) :
    ∃ env, (prepare fs h args kwargs).2 = .ok env ∧
      (restoreOutput (cassetteRT env)).content = c ∧ (restoreOutput (cassetteRT env)).path = .str p ∧
      ∀ fs3 q, ((restoreOutput (cassetteRT env)).toFile fs3 q).get q = some c := by
  refine ⟨{ path := .str p, content := b64 c }, ?_, ?_, ?_, ?_⟩
  · rw [prepare_below fs h args kwargs p c hp hc hl]
  · simp [restoreOutput, cassetteRT, deserialize, b64_ne_placeholder c, b64_roundtrip]
  · simp [restoreOutput, cassetteRT, deserialize, b64_ne_placeholder c]
  · intro fs3 q
    simp only [Holder.toFile, restoreOutput, cassetteRT, deserialize, if_pos (b64_ne_placeholder c), b64_roundtrip]
    exact FS.get_write_same _ _ _

/-- **Above the limit.**  The envelope holds the documented placeholder, the file was NOT opened for reading (the read
log is unchanged), the file system is untouched, and restoring yields the placeholder. -/
theorem C20_above (fs : FS) (h : Handler) (args : List PVal) (kwargs : List (String × PVal)) (p : String) (c : Bytes)
    (hp : filePath h args kwargs = .ok (.str p)) (hc : fs.get p = some c)
    (hl : aboveLimit c.length h.limit = true) :
    (prepare fs h args kwargs).2 = .ok { path := .str p, content := placeholder } ∧
      (prepare fs h args kwargs).1.reads = fs.reads ∧ (prepare fs h args kwargs).1 = fs ∧
      (restoreOutput (cassetteRT { path := .str p, content := placeholder })).content = placeholder := by
  simp [prepare, hp, FS.size, hc, hl, restoreOutput, cassetteRT, deserialize]

/-- The check order matters: the variant that reads first does log a read of an above-limit file. -/
theorem C20_read_first_counterexample :
    let fs : FS := { files := [("f", [1, 2, 3])], reads := [] }
    let h : Handler := { index := 0, name := "path", limit := ⟨0, 1⟩ }
    (prepare fs h [.str "f"] []).1.reads = [] ∧ (prepareReadFirst fs h [.str "f"] []).1.reads = ["f"] := by
  decide

/-- **Boundary.**  For a non-negative limit `n/d` MB, `L = ⌊(n/d)·2^20⌋` bytes is not above the limit and `L + 1`
bytes is (the rule is strict `>`); everything larger is above as well. -/
theorem C20_boundary (n d : Nat) (hd : 0 < d) :
    aboveLimit (n * 2 ^ 20 / d) ⟨n, d⟩ = false ∧ aboveLimit (n * 2 ^ 20 / d + 1) ⟨n, d⟩ = true ∧
      ∀ s, n * 2 ^ 20 / d + 1 ≤ s → aboveLimit s ⟨n, d⟩ = true := by
  obtain ⟨h1, h2⟩ := boundary n d hd
  exact ⟨h1, h2, fun s hs => aboveLimit_mono _ _ _ hs h2⟩

/-- **Limit from the environment.**  Without an explicit limit the handler uses `int(float(env))`: the default is
500, the value is truncated toward zero (floor for the non-negative values that make sense), and the resulting limit is a
whole number of MB; an explicit limit (even `0`) wins over the environment. -/
theorem C20_env_limit :
    effectiveLimit none none = ⟨500, 1⟩ ∧
    (∀ (n : Int) (d : Nat), effectiveLimit none (some (n, d)) = ⟨Int.tdiv n d, 1⟩) ∧
    (∀ (n d : Nat), 0 < d → ∃ k : Nat, envLimit (some ((n : Int), d)) = k ∧ k * d ≤ n ∧ n < (k + 1) * d) ∧
    (∀ l env, effectiveLimit (some l) env = l) := by
  refine ⟨rfl, fun _ _ => rfl, ?_, fun _ _ => rfl⟩
  intro n d hd
  refine ⟨n / d, ?_, Nat.div_mul_le_self _ _, ?_⟩
  · simp only [envLimit]
    exact (Int.ofNat_tdiv n d).symm
  · exact (Nat.div_lt_iff_lt_mul hd).mp (Nat.lt_succ_iff.mpr (Nat.le_refl _))

/-- Restoring with the decoded-content comparison would corrupt a file whose content is the placeholder text; the
transcribed `deserialize` (stored-text comparison) restores it. -/
theorem C20_decoded_compare_counterexample :
    (deserialize { path := .none, content := b64 placeholder }).2 = placeholder ∧
    (deserializeDecodedCompare { path := .none, content := b64 placeholder }).2 ≠ placeholder := by
  decide

/-! ### the hypotheses are satisfiable -/

def exFs : FS := { files := [("/rec/in.bin", [0, 255, 13, 10])], reads := [] }
def exH : Handler := { index := 1, name := "path", limit := ⟨1, 1024⟩ }

example : filePath exH [.none, .str "/rec/in.bin"] [] = .ok (.str "/rec/in.bin") ∧
    exFs.get "/rec/in.bin" = some [0, 255, 13, 10] ∧ aboveLimit 4 exH.limit = false ∧
    filePath exH [] [("path", .str "/replay/in.bin")] = .ok (.str "/replay/in.bin") :=
  ⟨by rfl, by rfl, by decide, by rfl⟩

example : aboveLimit 1025 exH.limit = true ∧ aboveLimit 1024 exH.limit = false := by decide

end Properties.C20
