import PlaybackModel.Keys
import PlaybackProofs.Codec
/-! Helper lemmas about interception keys: splitting the key at its separators, kwargs as sorted pairs, capture. -/
namespace PlaybackModel.Keys
open PlaybackModel.Codec

/-! ### splitting token-level keys -/
theorem split_ch : (l1 l2 : List Char) → (r1 r2 : List KTok) →
    l1.map KTok.ch ++ KTok.argsSep :: r1 = l2.map KTok.ch ++ KTok.argsSep :: r2 → l1 = l2 ∧ r1 = r2
  | [], [], r1, r2, h => by simpa using h
  | [], c :: l2, r1, r2, h => by simp at h
  | c :: l1, [], r1, r2, h => by simp at h
  | c :: l1, d :: l2, r1, r2, h => by
    simp only [List.map_cons, List.cons_append, List.cons.injEq, KTok.ch.injEq] at h
    obtain ⟨h1, h2⟩ := split_ch l1 l2 r1 r2 h.2
    exact ⟨by rw [h.1, h1], h2⟩

theorem split_tok : (l1 l2 : List Tok) → (r1 r2 : List KTok) →
    l1.map KTok.tok ++ KTok.kwargsSep :: r1 = l2.map KTok.tok ++ KTok.kwargsSep :: r2 → l1 = l2 ∧ r1 = r2
  | [], [], r1, r2, h => by simpa using h
  | [], c :: l2, r1, r2, h => by simp at h
  | c :: l1, [], r1, r2, h => by simp at h
  | c :: l1, d :: l2, r1, r2, h => by
    simp only [List.map_cons, List.cons_append, List.cons.injEq, KTok.tok.injEq] at h
    obtain ⟨h1, h2⟩ := split_tok l1 l2 r1 r2 h.2
    exact ⟨by rw [h.1, h1], h2⟩

theorem map_tok_inj : (l1 l2 : List Tok) → l1.map KTok.tok = l2.map KTok.tok → l1 = l2
  | [], [], _ => rfl
  | [], _ :: _, h => by simp at h
  | _ :: _, [], h => by simp at h
  | c :: l1, d :: l2, h => by
    simp only [List.map_cons, List.cons.injEq, KTok.tok.injEq] at h
    rw [h.1, map_tok_inj l1 l2 h.2]

theorem inputKeyToks_inj {alias alias' : String} {a a' : Val} {kw kw' : Fields}
    (h : inputKeyToks alias a kw = inputKeyToks alias' a' kw') :
    alias = alias' ∧ encToks a = encToks a' ∧ encToks (kwargsVal kw) = encToks (kwargsVal kw') := by
  unfold inputKeyToks at h
  obtain ⟨h1, h2⟩ := split_ch _ _ _ _ h
  obtain ⟨h3, h4⟩ := split_tok _ _ _ _ h2
  exact ⟨String.toList_inj.mp h1, h3, map_tok_inj _ _ h4⟩

/-! ### kwargs as a sorted list of pairs -/
def mapF (f : Val → Val) : Fields → Fields
  | .nil => .nil
  | .cons k v fs => .cons k (f v) (mapF f fs)

theorem mapF_insert (f : Val → Val) (k : String) (v : Val) :
    (fs : Fields) → mapF f (Fields.insert k v fs) = Fields.insert k (f v) (mapF f fs)
  | .nil => by simp [Fields.insert, mapF]
  | .cons k' v' fs => by
    simp only [Fields.insert, mapF]
    split <;> simp [mapF, mapF_insert f k v fs]

theorem Fields.sort_noReserved_insert (k : String) (v : Val) (hk : isReserved k = false) :
    (fs : Fields) → fs.NoReserved → (Fields.insert k v fs).NoReserved
  | .nil, _ => by simp [Fields.insert, Fields.NoReserved, hk]
  | .cons k' v' fs, h => by
    simp only [Fields.insert]
    split
    · exact ⟨hk, h⟩
    · exact ⟨h.1, Fields.sort_noReserved_insert k v hk fs h.2⟩

/-- for fields without reserved keys the canonical form is: sort by key, then canonicalise the values -/
theorem canonF_eq_map_sort : (fs : Fields) → fs.NoReserved → canonF fs = mapF canon fs.sort
  | .nil, _ => by simp [canonF, Fields.sort, mapF]
  | .cons k v fs, h => by
    simp only [canonF, Fields.sort, h.1, mapF_insert, canonF_eq_map_sort fs h.2]
    simp

theorem canonL_kwPairs : (fs : Fields) → canonL (kwPairs fs) = kwPairs (mapF canon fs)
  | .nil => by simp [kwPairs, canonL, mapF]
  | .cons k v fs => by simp [kwPairs, canonL, canon, mapF, canonL_kwPairs fs]

theorem kwPairs_inj : (a b : Fields) → kwPairs a = kwPairs b → a = b
  | .nil, .nil, _ => rfl
  | .nil, .cons _ _ _, h => by simp [kwPairs] at h
  | .cons _ _ _, .nil, h => by simp [kwPairs] at h
  | .cons k v a, .cons k' v' b, h => by
    simp only [kwPairs, Vals.cons.injEq, Val.tuple.injEq, Val.str.injEq] at h
    obtain ⟨⟨hk, hv, _⟩, hr⟩ := h
    rw [hk, hv, kwPairs_inj a b hr]

/-- equal encodings of the sorted kwargs pairs mean: the kwargs are equal as dicts, up to dict order -/
theorem canon_kwargs_of_enc {kw kw' : Fields} (hr : kw.NoReserved) (hr' : kw'.NoReserved)
    (h : encToks (kwargsVal kw) = encToks (kwargsVal kw')) : canon (.dict kw) = canon (.dict kw') := by
  have hc := encToks_inj h
  simp only [kwargsVal, canon, canonL_kwPairs, Val.list.injEq] at hc
  have := kwPairs_inj _ _ hc
  simp [canon, canonF_eq_map_sort kw hr, canonF_eq_map_sort kw' hr', this]

/-! ### the text of a key -/
theorem keyText_toList (alias : String) (a : Val) (kw : Fields) :
    (keyText alias a kw).toList =
      "input: ".toList ++ (alias.toList ++ (" args=".toList ++
        (encodeText a ++ ", kwargs=" ++ encodeText (kwargsVal kw)).toList)) := by
  simp [keyText, String.toList_append, List.append_assoc]

/-- two texts that agree and whose parts before the first `=` contain no `=` split identically -/
theorem split_first_eq : (l1 l2 r1 r2 : List Char) → '=' ∉ l1 → '=' ∉ l2 →
    l1 ++ '=' :: r1 = l2 ++ '=' :: r2 → l1 = l2 ∧ r1 = r2
  | [], [], r1, r2, _, _, h => by simpa using h
  | [], c :: l2, r1, r2, _, h2, h => by
    simp only [List.nil_append, List.cons_append, List.cons.injEq] at h
    exact absurd (by rw [← h.1]; exact List.mem_cons_self ..) h2
  | c :: l1, [], r1, r2, h1, _, h => by
    simp only [List.nil_append, List.cons_append, List.cons.injEq] at h
    exact absurd (by rw [h.1]; exact List.mem_cons_self ..) h1
  | c :: l1, d :: l2, r1, r2, h1, h2, h => by
    simp only [List.cons_append, List.cons.injEq] at h
    have h1' : '=' ∉ l1 := fun m => h1 (List.mem_cons_of_mem _ m)
    have h2' : '=' ∉ l2 := fun m => h2 (List.mem_cons_of_mem _ m)
    obtain ⟨e1, e2⟩ := split_first_eq l1 l2 r1 r2 h1' h2' h.2
    exact ⟨by rw [h.1, e1], e2⟩

/-! ### capture looks only at the captured positions and names -/
theorem captureLoop_congr (args args' : Vals) (kwargs kwargs' : Fields) :
    (l : List CapturedArg) → (a : Vals) → (k : Fields) →
    (∀ c ∈ l, c.name.bind kwargs.lookup = c.name.bind kwargs'.lookup ∧
      ∀ p, c.position = some p → args.get? p = args'.get? p) →
    captureLoop args kwargs l a k = captureLoop args' kwargs' l a k
  | [], a, k, _ => by simp [captureLoop]
  | c :: cs, a, k, h => by
    have hc := h c (List.mem_cons_self ..)
    have ih : ∀ a k, captureLoop args kwargs cs a k = captureLoop args' kwargs' cs a k :=
      fun a k => captureLoop_congr args args' kwargs kwargs' cs a k (fun c' hc' => h c' (List.mem_cons_of_mem _ hc'))
    simp only [captureLoop, ← hc.1]
    cases hn : c.name.bind kwargs.lookup with
    | some v => simp [ih]
    | none =>
      cases hp : c.position with
      | none => simp [ih]
      | some p =>
        simp only
        rw [← hc.2 p hp]
        cases args.get? p <;> simp [ih]

/-! ### kwargs pairs under dict sorting -/
theorem sortDictsF_eq_map_sort : (fs : Fields) → sortDictsF fs = mapF sortDicts fs.sort
  | .nil => by simp [sortDictsF, Fields.sort, mapF]
  | .cons k v fs => by simp only [sortDictsF, Fields.sort, mapF_insert, sortDictsF_eq_map_sort fs]

theorem sortDictsL_kwPairs : (fs : Fields) → sortDictsL (kwPairs fs) = kwPairs (mapF sortDicts fs)
  | .nil => by simp [kwPairs, sortDictsL, mapF]
  | .cons k v fs => by simp [kwPairs, sortDictsL, sortDicts, mapF, sortDictsL_kwPairs fs]

theorem Fields.insert_valsDistinct (k : String) (v : Val) (hv : v.Distinct) :
    (fs : Fields) → fs.Distinct → (Fields.insert k v fs).Distinct
  | .nil, _ => by simp [Fields.insert, Fields.Distinct, hv]
  | .cons k' v' fs, h => by
    have h' : v'.Distinct ∧ fs.Distinct := by simpa [Fields.Distinct] using h
    simp only [Fields.insert]
    split
    · simp [Fields.Distinct, hv, h'.1, h'.2]
    · simp [Fields.Distinct, h'.1, Fields.insert_valsDistinct k v hv fs h'.2]

theorem Fields.sort_valsDistinct : (fs : Fields) → fs.Distinct → fs.sort.Distinct
  | .nil, _ => by simp [Fields.sort, Fields.Distinct]
  | .cons k v fs, h => by
    have h' : v.Distinct ∧ fs.Distinct := by simpa [Fields.Distinct] using h
    exact Fields.insert_valsDistinct k v h'.1 _ (Fields.sort_valsDistinct fs h'.2)

theorem kwPairs_distinct : (fs : Fields) → fs.Distinct → (kwPairs fs).Distinct
  | .nil, _ => by simp [kwPairs, Vals.Distinct]
  | .cons k v fs, h => by
    have h' : v.Distinct ∧ fs.Distinct := by simpa [Fields.Distinct] using h
    simp [kwPairs, Vals.Distinct, Val.Distinct, h'.1, kwPairs_distinct fs h'.2]

theorem kwPairs_sort_distinct (kw : Fields) (h : kw.Distinct ∧ kw.DistinctKeys) : (kwargsVal kw).Distinct := by
  simp only [kwargsVal, Val.Distinct]
  exact kwPairs_distinct _ (Fields.sort_valsDistinct kw h.1)

end PlaybackModel.Keys
