import PlaybackProofs.RecorderIdle
/-! Preservation principle indexed by a predicate on the program's call nodes (needed when closure under a write depends
on what the node's body returns, e.g. "every write to an input key writes the world's envelope"). -/
namespace PlaybackModel.Recorder

/-- the twin's result does not depend on the journal it appends to -/
theorem runPlain_end_indep (p : Prog) : ∀ j j' : List (String × Args), (runPlain j p).2 = (runPlain j' p).2 := by
  induction p with
  | done e => intro j j'; rfl
  | discard k ih => intro j j'; simp only [runPlain]; exact ih j j'
  | force k ih => intro j j'; simp only [runPlain]; exact ih j j'
  | recordData key v k ih => intro j j'; simp only [runPlain]; exact ih j j'
  | setEnabled b k ih => intro j j'; simp only [runPlain]; exact ih j j'
  | playData key k ih => intro j j'; simp only [runPlain]; exact ih _ j j'
  | callIn cfg args body k ihb ihk =>
    intro j j'
    rw [runPlain_callIn, runPlain_callIn]
    have hb := ihb (j ++ [(cfg.name, args)]) (j' ++ [(cfg.name, args)])
    generalize runPlain (j ++ [(cfg.name, args)]) body = r at hb
    generalize runPlain (j' ++ [(cfg.name, args)]) body = r' at hb
    obtain ⟨j1, e⟩ := r
    obtain ⟨j1', e'⟩ := r'
    simp only at hb
    subst hb
    cases e with
    | out o => exact ihk o j1 j1'
    | interrupt i => rfl
  | callOut cfg args body k ihb ihk =>
    intro j j'
    rw [runPlain_callOut, runPlain_callOut]
    have hb := ihb (j ++ [(cfg.name, args)]) (j' ++ [(cfg.name, args)])
    generalize runPlain (j ++ [(cfg.name, args)]) body = r at hb
    generalize runPlain (j' ++ [(cfg.name, args)]) body = r' at hb
    obtain ⟨j1, e⟩ := r
    obtain ⟨j1', e'⟩ := r'
    simp only at hb
    subst hb
    cases e with
    | out o => exact ihk o j1 j1'
    | interrupt i => rfl

/-- what a wrapped body hands back, as a function of the body alone -/
def bodyEnd (body : Prog) : End := (runPlain [] body).2

theorem exec_body_end (body : Prog) (s : St) (h : s.playback = none) : (exec s body).2 = bodyEnd body := by
  rw [(exec_transparent body s h).1]; exact runPlain_end_indep body _ _

theorem exec_preserves' (Qi : InCfg → Args → Prog → Prop) (Qo : OutCfg → Args → Prog → Prop) (P : St → Prop)
    (hJ : ∀ s e, P s → P (addJournal s e))
    (hI : ∀ s b, P s → P (setInt s b))
    (hD : ∀ s, P s → P (doDiscard s))
    (hF : ∀ s, P s → P (doForce s))
    (hR : ∀ s key v, P s → P (doRecordData s key v))
    (hRO : ∀ s (cfg : OutCfg) args body, Qo cfg args body → P s → shouldIntercept s = true →
      P (recordOutput (bump s cfg.alias) cfg (cnt s.counter cfg.alias + 1) args))
    (hAI : ∀ (cfg : InCfg) args body k0 fb s o, Qi cfg args body → cfg.keys args = some (k0, fb) →
      bodyEnd body = .out o → P s → P (afterInput cfg args k0 s o))
    (hAO : ∀ (cfg : OutCfg) args body s s2 o, Qo cfg args body → P s → shouldIntercept s = true → P s2 →
      P (afterOutput cfg.alias (cnt s.counter cfg.alias + 1) s2 o))
    (hE : ∀ s b, P s → P (doSetEnabled s b)) :
    ∀ (p : Prog), p.All Qi Qo → ∀ (s : St), P s → P (exec s p).1 := by
  intro p
  induction p with
  | done e => intro _ s h; exact h
  | discard k ih => intro hq s h; rw [exec]; exact ih hq _ (hD s h)
  | force k ih => intro hq s h; rw [exec]; exact ih hq _ (hF s h)
  | recordData key v k ih => intro hq s h; rw [exec]; exact ih hq _ (hR s key v h)
  | setEnabled b k ih => intro hq s h; rw [exec]; exact ih hq _ (hE s b h)
  | playData key k ih => intro hq s h; rw [exec]; exact ih _ (hq _) s h
  | callIn cfg args body k ihb ihk =>
    intro hq s h
    obtain ⟨hnode, hqb, hqk⟩ := hq
    have step : ∀ (sb : St) (post : Out → St → St) (postI : St → St), P sb →
        (∀ o t, (exec sb body).2 = .out o → P t → P (post o t)) → (∀ t, P t → P (postI t)) →
        P (match exec sb body with
            | (s1, .out o) => exec (post o s1) (k o)
            | (s1, .interrupt i) => (postI s1, .interrupt i)).1 := by
      intro sb post postI hsb hpost hpostI
      have hb := ihb hqb sb hsb
      generalize hr : exec sb body = r at hb hpost
      obtain ⟨s1, e⟩ := r
      cases e with
      | out o => exact ihk o (hqk o) _ (hpost o s1 rfl hb)
      | interrupt i => exact hpostI s1 hb
    rw [exec]
    split
    · exact step _ (fun _ t => t) (fun t => t) (hJ s _ h) (fun _ _ _ ht => ht) (fun _ ht => ht)
    · split
      · split
        · exact ihk _ (hqk _) s h
        · exact step _ (fun _ t => setInt t false) (fun t => setInt t false) (hI _ _ (hJ _ _ (hD s h)))
            (fun _ t _ ht => hI t false ht) (fun t ht => hI t false ht)
      · split
        · split
          · exact ihk _ (hqk _) s h
          · split
            · exact step _ (fun _ t => t) (fun t => t) (hJ s _ h) (fun _ _ _ ht => ht) (fun _ ht => ht)
            · split
              · exact ihk _ (hqk _) s h
              · exact ihk _ (hqk _) s h
        · rename_i _ k0 fallbacks hkeys _ hpb
          refine step _ (fun o t => afterInput cfg args k0 (setInt t false) o) (fun t => setInt t false)
            (hI _ _ (hJ s _ h)) ?_ (fun t ht => hI t false ht)
          intro o t he ht
          refine hAI cfg args body k0 fallbacks _ o hnode hkeys ?_ (hI t false ht)
          rw [← exec_body_end body (setInt (addJournal s (cfg.name, args)) true) (by simpa using hpb), he]
  | callOut cfg args body k ihb ihk =>
    intro hq s h
    obtain ⟨hnode, hqb, hqk⟩ := hq
    have step : ∀ (sb : St) (post : Out → St → St) (postI : St → St), P sb →
        (∀ o t, P t → P (post o t)) → (∀ t, P t → P (postI t)) →
        P (match exec sb body with
            | (s1, .out o) => exec (post o s1) (k o)
            | (s1, .interrupt i) => (postI s1, .interrupt i)).1 := by
      intro sb post postI hsb hpost hpostI
      have hb := ihb hqb sb hsb
      generalize exec sb body = r at hb
      obtain ⟨s1, e⟩ := r
      cases e with
      | out o => exact ihk o (hqk o) _ (hpost o s1 hb)
      | interrupt i => exact hpostI s1 hb
    rw [exec]
    split
    · exact step _ (fun _ t => t) (fun t => t) (hJ s _ h) (fun _ _ ht => ht) (fun _ ht => ht)
    · rename_i hsi
      have hsi' : shouldIntercept s = true := by simpa using hsi
      have h1 := hRO s cfg args body hnode h hsi'
      split
      · exact step _ (fun _ t => t) (fun t => t) (hJ _ _ h1) (fun _ _ ht => ht) (fun _ ht => ht)
      · split
        · split
          · exact ihk _ (hqk _) _ h1
          · split
            · exact ihk _ (hqk _) _ h1
            · exact ihk _ (hqk _) _ h1
        · exact step _ (fun o t => afterOutput cfg.alias (cnt s.counter cfg.alias + 1) (setInt t false) o)
            (fun t => setInt t false) (hI _ _ (hJ _ _ h1))
            (fun o t ht => hAO cfg args body s _ o hnode h hsi' (hI t false ht)) (fun t ht => hI t false ht)

end PlaybackModel.Recorder
