import PlaybackProofs.RecorderFinish
/-! Histories of recorded operations: what a run does to the PRNG stream and the enabled switch (C17, counting form). -/
namespace PlaybackModel.Recorder

theorem saveRecording_rng (s : St) (cfg : OpCfg) (r : Recording) :
    (saveRecording s cfg r).draws = s.draws ∧ (saveRecording s cfg r).enabled = s.enabled := by
  unfold saveRecording; split <;> simp [addLog]

/-- the `finally` block consumes the head of the PRNG stream exactly when a draw decides -/
theorem finishRecording_draws (ao : AliasOracle) (cfg : OpCfg) (s : St) (excFlag : Option Bool) (tStart : Nat) :
    (finishRecording ao cfg s excFlag tStart).draws =
      (match s.active with
       | none => s.draws
       | some a => if drawsUsed s.forced a.params = 0 then s.draws else s.draws.tail) ∧
    (finishRecording ao cfg s excFlag tStart).enabled = s.enabled := by
  unfold finishRecording
  cases ha : s.active with
  | none => simp
  | some a =>
    simp only
    have hsp := shouldSample_spec (resetActive s) a.params s.forced
    have hsf := shouldSample_fields (resetActive s) a.params s.forced
    generalize shouldSample (resetActive s) a.params s.forced = r at hsp hsf
    obtain ⟨s2, keep⟩ := r
    obtain ⟨_, _, k3, _⟩ := hsp
    simp only at k3
    have hen : s2.enabled = s.enabled := by simpa [resetActive] using hsf.2.2.2.2.2.2.2.2.2.1
    cases keep
    · simp only [Bool.not_false, if_true]
      exact ⟨by simpa [addLog, resetActive] using k3, by simpa [addLog] using hen⟩
    · simp only [Bool.not_true, Bool.false_eq_true, if_false]
      have ht := tick_fields s2
      generalize tick s2 = q at ht
      obtain ⟨s3, tEnd⟩ := q
      simp only at ht ⊢
      have h1 := saveRecording_rng s3 cfg
        { id := a.id, data := a.data, md := postMeta ao cfg a.data excFlag ((tEnd : Int) - (tStart : Int)) }
      rw [h1.1, h1.2, ht.2.2.2.2.2.2.2.2.2.2.2.1, ht.2.2.2.2.2.2.2.2.2.1]
      exact ⟨by simpa [resetActive] using k3, hen⟩

/-- a recorded operation on an idle recorder: what is left of the PRNG stream, and the enabled switch -/
theorem runOperation_draws (ao : AliasOracle) (cfg : OpCfg) (s : St) (p : Prog)
    (hidle : s.Idle) (hen : s.enabled = true) (hsk : cfg.params.skipped = false) :
    (runOperation ao cfg s p).1.draws =
      (match (atFinally cfg s p).active with
       | none => s.draws
       | some _ => if drawsUsed (atFinally cfg s p).forced cfg.params = 0 then s.draws else s.draws.tail) ∧
    ((atFinally cfg s p).active.isSome = true → (runOperation ao cfg s p).1.enabled = true) := by
  have hdec := runOperation_decision ao cfg s p hidle hen hsk
  obtain ⟨ha, hf, hc, hp, hpo, hi⟩ := hidle
  rw [runOperation_recording ao cfg s p hp hen hsk ha]
  have hrng := execOperationFunc_rng (opened cfg s) p
  have horng := opened_rng cfg s
  have hfd := finishRecording_draws ao cfg (execOperationFunc (opened cfg s) p).1
    (excFlagOf (execOperationFunc (opened cfg s) p).2) (tick (startRec cfg s)).2
  -- the recording is still in flight at the `finally`: whatever the operation did with the switch, it is on (F15)
  have henF : (execOperationFunc (opened cfg s) p).1.active.isSome = true →
      (execOperationFunc (opened cfg s) p).1.enabled = true := by
    intro hsome
    rw [(execOperationFunc_fields (opened cfg s) p).2.2.2.2.2.2.1]
    cases hex : (exec (opened cfg s) p).1.active with
    | none =>
      rw [(execOperationFunc_fields (opened cfg s) p).2.2.2.2.2.2.2 hex] at hsome
      cases hsome
    | some a1 => exact exec_enabled_of_active p _ (by rw [(opened_fields cfg s).2.2.1]; exact hen) hex
  unfold atFinally at hdec ⊢
  simp only
  rw [hfd.1, hfd.2, hrng.1, horng.1]
  refine ⟨?_, henF⟩
  cases hact : (execOperationFunc (opened cfg s) p).1.active with
  | none => rfl
  | some a =>
    rw [hact] at hdec
    simp only
    rw [hdec.1]

end PlaybackModel.Recorder
