import PlaybackProofs.RecorderSimp
/-! Transparency of the interpreter outside replay: results and body journal equal the undecorated twin's. -/
namespace PlaybackModel.Recorder

/-- the three facts carried through the induction -/
def Transp (s : St) (p : Prog) (r : St × End) : Prop :=
  r.2 = (runPlain s.journal p).2 ∧ r.1.journal = (runPlain s.journal p).1 ∧ r.1.playback = none

theorem inPlaybackMode_false {s : St} (h : s.playback = none) : inPlaybackMode s = false := by
  simp [inPlaybackMode, h]

@[simp] theorem addJournal_journal' (s : St) (e : String × Args) : (addJournal s e).journal = s.journal ++ [e] := rfl

/-- `runPlain` treats input and output calls alike and ignores the configuration -/
theorem runPlain_callIn (j : List (String × Args)) (cfg : InCfg) (args : Args) (body : Prog) (k : Out → Prog) :
    runPlain j (.callIn cfg args body k) =
      (match runPlain (j ++ [(cfg.name, args)]) body with
        | (j1, .out o) => runPlain j1 (k o)
        | (j1, .interrupt i) => (j1, .interrupt i)) := by
  rw [runPlain]
  generalize runPlain (j ++ [(cfg.name, args)]) body = q
  obtain ⟨j1, e⟩ := q
  cases e <;> rfl

theorem runPlain_callOut (j : List (String × Args)) (cfg : OutCfg) (args : Args) (body : Prog) (k : Out → Prog) :
    runPlain j (.callOut cfg args body k) =
      (match runPlain (j ++ [(cfg.name, args)]) body with
        | (j1, .out o) => runPlain j1 (k o)
        | (j1, .interrupt i) => (j1, .interrupt i)) := by
  rw [runPlain]
  generalize runPlain (j ++ [(cfg.name, args)]) body = q
  obtain ⟨j1, e⟩ := q
  cases e <;> rfl

/-- generic form of `transp_call` stated directly on the twin's unfolding -/
theorem transp_step (s sb : St) (entry : String × Args) (body : Prog) (k : Out → Prog)
    (post : Out → St → St) (postI : St → St)
    (hpj : ∀ o t, (post o t).journal = t.journal) (hpp : ∀ o t, (post o t).playback = t.playback)
    (hij : ∀ t, (postI t).journal = t.journal) (hip : ∀ t, (postI t).playback = t.playback)
    (hsb_j : sb.journal = s.journal ++ [entry]) (hsb_p : sb.playback = none)
    (ihb : ∀ t, t.playback = none → Transp t body (exec t body))
    (ihk : ∀ o t, t.playback = none → Transp t (k o) (exec t (k o))) :
    let r := (match exec sb body with
        | (s1, .out o) => exec (post o s1) (k o)
        | (s1, .interrupt i) => (postI s1, .interrupt i))
    let q := (match runPlain (s.journal ++ [entry]) body with
        | (j1, .out o) => runPlain j1 (k o)
        | (j1, .interrupt i) => (j1, .interrupt i))
    r.2 = q.2 ∧ r.1.journal = q.1 ∧ r.1.playback = none := by
  obtain ⟨h1, h2, h3⟩ := ihb sb hsb_p
  rw [hsb_j] at h1 h2
  generalize exec sb body = r at h1 h2 h3
  obtain ⟨s1, e⟩ := r
  simp only at h1 h2 h3
  generalize runPlain (s.journal ++ [entry]) body = q at h1 h2
  obtain ⟨j1, e'⟩ := q
  simp only at h1 h2
  subst h1
  cases e with
  | interrupt i => simp [hij, hip, h2, h3]
  | out o =>
    simp only
    have := ihk o (post o s1) (by rw [hpp]; exact h3)
    unfold Transp at this
    rw [hpj, h2] at this
    exact this

/-- C04 core: outside replay, whatever the recorder state (recording or not, inside an interception or not, any
fault), running a program under the decorators gives the twin's result and executes the same bodies. -/
theorem exec_transparent (p : Prog) : ∀ s : St, s.playback = none → Transp s p (exec s p) := by
  induction p with
  | done e => intro s h; exact ⟨rfl, rfl, h⟩
  | discard k ih =>
    intro s h
    have := ih (doDiscard s) (by simpa using h)
    simpa [Transp, exec, runPlain] using this
  | force k ih =>
    intro s h
    have := ih (doForce s) (by simpa using h)
    simpa [Transp, exec, runPlain] using this
  | recordData key v k ih =>
    intro s h
    have := ih (doRecordData s key v) (by simpa using h)
    simpa [Transp, exec, runPlain] using this
  | setEnabled b k ih =>
    intro s h
    have := ih (doSetEnabled s b) (by simpa using h)
    simpa [Transp, exec, runPlain] using this
  | playData key k ih =>
    intro s h
    have hp : doPlayData s key = .ret (.atom "None") := by simp [doPlayData, h]
    have := ih (.ret (.atom "None")) s h
    simpa [Transp, exec, runPlain, hp] using this
  | callIn cfg args body k ihb ihk =>
    intro s h
    unfold Transp
    rw [exec, runPlain_callIn]
    split
    · -- pass-through
      exact transp_step s _ (cfg.name, args) body k (fun _ t => t) (fun t => t)
        (by simp) (by simp) (by simp) (by simp) (by simp) (by simpa using h) ihb ihk
    · split
      · -- key creation failed
        rw [if_neg (by simp [inPlaybackMode_false h])]
        exact transp_step s _ (cfg.name, args) body k (fun _ t => setInt t false) (fun t => setInt t false)
          (by simp) (by simp) (by simp) (by simp) (by simp) (by simpa using h) ihb ihk
      · rename_i k0 fallbacks _
        simp only [h]
        exact transp_step s _ (cfg.name, args) body k (fun o t => afterInput cfg args k0 (setInt t false) o)
          (fun t => setInt t false)
          (by simp) (by simp) (by simp) (by simp) (by simp) (by simpa using h) ihb ihk
  | callOut cfg args body k ihb ihk =>
    intro s h
    unfold Transp
    rw [exec, runPlain_callOut]
    split
    · exact transp_step s _ (cfg.name, args) body k (fun _ t => t) (fun t => t)
        (by simp) (by simp) (by simp) (by simp) (by simp) (by simpa using h) ihb ihk
    · split
      · exact transp_step s _ (cfg.name, args) body k (fun _ t => t) (fun t => t)
          (by simp) (by simp) (by simp) (by simp) (by simp) (by simpa using h) ihb ihk
      · have hp : (recordOutput (bump s cfg.alias) cfg (cnt s.counter cfg.alias + 1) args).playback = none := by
          simpa using h
        simp only [hp]
        exact transp_step s _ (cfg.name, args) body k
          (fun o t => afterOutput cfg.alias (cnt s.counter cfg.alias + 1) (setInt t false) o) (fun t => setInt t false)
          (by simp) (by simp) (by simp) (by simp) (by simp) (by simpa using h) ihb ihk

end PlaybackModel.Recorder
