import PlaybackModel.Recorder
/-!
Proof obligations that tie the decision atoms read from the source (`PlaybackModel.Source`, regenerated on every run) to the
meaning the property theorems are stated with.  Each lemma below evaluates an atom: it is TRUE of the code as it stands and
stops checking when the corresponding operator or constant in the source changes to something with another meaning.
-/
namespace PlaybackModel.Recorder
open PlaybackModel.Atoms

/-- `sampling_rate >= 1` in `_should_sample_active_recording` -/
theorem rateAlways_eq (r : Q) : rateAlways r = r.geOne := by
  simp [rateAlways, Q.cmp, PlaybackModel.Source.rateAlwaysCmp, Cmp.int, Q.geOne]

/-- `sample_value <= sampling_rate` in `_should_sample_active_recording` -/
theorem drawKeeps_eq (d r : Q) : drawKeeps d r = d.le r := by
  simp [drawKeeps, Q.cmp, PlaybackModel.Source.drawKeepCmp, Cmp.int, Q.le]

/-- `disable_recording()` as it stands in the source: switch off, then `self.discard_recording()` (F15).  Everything the
theorems say about programs that flip the switch goes through this equation; it stops checking when the call disappears. -/
theorem doSetEnabled_eq (s : St) (b : Bool) :
    doSetEnabled s b = if b then { s with enabled := true } else { doDiscard s with enabled := false } := by
  simp [doSetEnabled, PlaybackModel.Source.disableDiscards]

/-- `ratio >= 1` / `self._random.random() <= ratio` in `S3TapeCassette._should_sample`, as they stand in the source -/
theorem s3ShouldSample_eq (ratio : Option Q) (d : Q) :
    s3ShouldSample ratio d = (match ratio with
      | none => true
      | some r => r.geOne || d.le r) := by
  cases ratio with
  | none => rfl
  | some r =>
    simp [s3ShouldSample, Q.cmp, PlaybackModel.Source.s3RateAlwaysCmp, PlaybackModel.Source.s3DrawKeepCmp, Cmp.int, Q.geOne, Q.le]

end PlaybackModel.Recorder
