import PlaybackModel.Recorder
/-!
Proof obligations that tie the decision atoms read from the source (`PlaybackModel.Source`, regenerated on every run) to the
meaning the property theorems are stated with.  Each lemma below evaluates an atom: it is TRUE of the code as it stands and
stops checking when the corresponding operator or constant in the source changes to something with another meaning.
-/
namespace PlaybackModel.Recorder
open PlaybackModel.Atoms

/-- `sampling_rate >= 1` in `_should_sample_active_recording` -/
theorem rateAlways_eq (r : Q) : rateAlways r = r.geOne := by
  simp [rateAlways, Q.cmp, PlaybackModel.Source.rateAlwaysCmp, Cmp.int, Q.geOne]

/-- `sample_value <= sampling_rate` in `_should_sample_active_recording` -/
theorem drawKeeps_eq (d r : Q) : drawKeeps d r = d.le r := by
  simp [drawKeeps, Q.cmp, PlaybackModel.Source.drawKeepCmp, Cmp.int, Q.le]

end PlaybackModel.Recorder
