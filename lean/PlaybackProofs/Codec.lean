import PlaybackModel.Codec
/-! Helper lemmas about the jsonpickle / json token model: parser ∘ printer, restore ∘ flatten, sorting. -/
namespace PlaybackModel.Codec

/-! ### sizes (fuel of the parser) -/
mutual
  def J.sz : J → Nat
    | .arr xs => 1 + xs.sz
    | .obj fs => 1 + fs.sz
    | .null | .bool _ | .num _ | .flt _ | .str _ => 1
  def Js.sz : Js → Nat
    | .nil => 1
    | .cons x xs => 1 + x.sz + xs.sz
  def JFs.sz : JFs → Nat
    | .nil => 1
    | .cons _ v fs => 1 + v.sz + fs.sz
end

theorem pr_head (j : J) : ∃ t ts, pr j = t :: ts ∧ t ≠ .rb ∧ t ≠ .rc := by
  cases j with
  | bool b => cases b <;> simp [pr]
  | _ => simp [pr]

theorem pr_length_pos (j : J) : 1 ≤ (pr j).length := by
  obtain ⟨t, ts, h, _, _⟩ := pr_head j
  simp [h]

mutual
  theorem pa_pr : (j : J) → (f : Nat) → (rest : List Tok) → j.sz ≤ f → pa f (pr j ++ rest) = some (j, rest)
    | .null, f+1, rest, _ => by simp [pr, pa]
    | .bool true, f+1, rest, _ => by simp [pr, pa]
    | .bool false, f+1, rest, _ => by simp [pr, pa]
    | .num n, f+1, rest, _ => by simp [pr, pa]
    | .flt r, f+1, rest, _ => by simp [pr, pa]
    | .str s, f+1, rest, _ => by simp [pr, pa]
    | .arr .nil, f+1, rest, _ => by simp [pr, prs, pa]
    | .arr (.cons x xs), f+1, rest, h => by
        have hs : (Js.cons x xs).sz ≤ f := by simp [J.sz] at h; omega
        have ih := pas_prs x xs f rest hs
        obtain ⟨t, ts, ht, hrb, _⟩ := pr_head x
        have hshape : ∃ t' ts', prs (.cons x xs) ++ rest = t' :: ts' ∧ t' ≠ .rb := by
          cases xs <;> simp [prs, ht, hrb]
        obtain ⟨t', ts', hts, hne⟩ := hshape
        simp only [pr, List.cons_append]
        rw [hts] at ih ⊢
        cases t' <;> simp_all [pa]
    | .obj .nil, f+1, rest, _ => by simp [pr, prf, pa]
    | .obj (.cons k v fs), f+1, rest, h => by
        have hs : (JFs.cons k v fs).sz ≤ f := by simp [J.sz] at h; omega
        have ih := paf_prf k v fs f rest hs
        have hshape : ∃ ts', prf (.cons k v fs) ++ rest = .str k :: ts' := by
          cases fs <;> simp [prf]
        obtain ⟨ts', hts⟩ := hshape
        simp only [pr, List.cons_append]
        rw [hts] at ih ⊢
        simp_all [pa]
    | j, 0, rest, h => by cases j <;> simp [J.sz] at h <;> omega
  theorem pas_prs : (x : J) → (xs : Js) → (f : Nat) → (rest : List Tok) → (Js.cons x xs).sz ≤ f →
      pas f (prs (.cons x xs) ++ rest) = some (.cons x xs, rest)
    | x, .nil, f+1, rest, h => by
        have hx : x.sz ≤ f := by simp [Js.sz] at h; omega
        simp [prs, pas, pa_pr x f (.rb :: rest) hx]
    | x, .cons y ys, f+1, rest, h => by
        have hx : x.sz ≤ f := by simp [Js.sz] at h; omega
        have hy : (Js.cons y ys).sz ≤ f := by simp [Js.sz] at h ⊢; omega
        have := pa_pr x f (.comma :: (prs (.cons y ys) ++ rest)) hx
        simp [prs, pas, this, pas_prs y ys f rest hy]
    | x, xs, 0, rest, h => by simp [Js.sz] at h
  theorem paf_prf : (k : String) → (v : J) → (fs : JFs) → (f : Nat) → (rest : List Tok) → (JFs.cons k v fs).sz ≤ f →
      paf f (prf (.cons k v fs) ++ rest) = some (.cons k v fs, rest)
    | k, v, .nil, f+1, rest, h => by
        have hv : v.sz ≤ f := by simp [JFs.sz] at h; omega
        simp [prf, paf, pa_pr v f (.rc :: rest) hv]
    | k, v, .cons k' v' fs, f+1, rest, h => by
        have hv : v.sz ≤ f := by simp [JFs.sz] at h; omega
        have hf : (JFs.cons k' v' fs).sz ≤ f := by simp [JFs.sz] at h ⊢; omega
        have := pa_pr v f (.comma :: (prf (.cons k' v' fs) ++ rest)) hv
        simp [prf, paf, this, paf_prf k' v' fs f rest hf]
    | k, v, fs, 0, rest, h => by simp [JFs.sz] at h
end

mutual
  theorem sz_le_pr : (j : J) → j.sz ≤ 2 * (pr j).length
    | .null => by simp [J.sz, pr]
    | .bool true => by simp [J.sz, pr]
    | .bool false => by simp [J.sz, pr]
    | .num _ => by simp [J.sz, pr]
    | .flt _ => by simp [J.sz, pr]
    | .str _ => by simp [J.sz, pr]
    | .arr xs => by have := sz_le_prs xs; simp [J.sz, pr]; omega
    | .obj fs => by have := sz_le_prf fs; simp [J.sz, pr]; omega
  theorem sz_le_prs : (xs : Js) → xs.sz ≤ 2 * (prs xs).length
    | .nil => by simp [Js.sz, prs]
    | .cons x .nil => by have := sz_le_pr x; simp [Js.sz, prs]; omega
    | .cons x (.cons y ys) => by
        have := sz_le_pr x; have := sz_le_prs (.cons y ys)
        simp [Js.sz, prs] at *; omega
  theorem sz_le_prf : (fs : JFs) → fs.sz ≤ 2 * (prf fs).length
    | .nil => by simp [JFs.sz, prf]
    | .cons k v .nil => by have := sz_le_pr v; simp [JFs.sz, prf]; omega
    | .cons k v (.cons k' v' fs) => by
        have := sz_le_pr v; have := sz_le_prf (.cons k' v' fs)
        simp [JFs.sz, prf] at *; omega
end

/-- the parser inverts the printer on any stream that starts with a printed value -/
theorem pa_pr_fuel (j : J) (rest : List Tok) :
    pa (2 * (pr j ++ rest).length + 2) (pr j ++ rest) = some (j, rest) := by
  apply pa_pr
  have := sz_le_pr j
  simp; omega

/-! ### restore ∘ flatten -/
def JFs.NoRes : JFs → Prop
  | .nil => True
  | .cons k _ fs => isReserved k = false ∧ fs.NoRes

theorem JFs.insert_noRes (k : String) (v : J) (hk : isReserved k = false) :
    (fs : JFs) → fs.NoRes → (JFs.insert k v fs).NoRes
  | .nil, _ => by simp [JFs.insert, JFs.NoRes, hk]
  | .cons k' v' fs, h => by
    simp only [JFs.insert]
    split
    · exact ⟨hk, h⟩
    · exact ⟨h.1, JFs.insert_noRes k v hk fs h.2⟩

theorem flattenF_noRes : (fs : Fields) → (flattenF fs).NoRes
  | .nil => by simp [flattenF, JFs.NoRes]
  | .cons k v fs => by
    simp only [flattenF]
    split
    · exact flattenF_noRes fs
    · rename_i hk
      exact JFs.insert_noRes _ _ (by simpa using hk) _ (flattenF_noRes fs)

theorem restoreF_insert (k : String) (j : J) :
    (fs : JFs) → restoreF (JFs.insert k j fs) = Fields.insert k (restore j) (restoreF fs)
  | .nil => by simp [JFs.insert, Fields.insert, restoreF]
  | .cons k' v' fs => by
    simp only [JFs.insert, restoreF, Fields.insert]
    split <;> simp [restoreF, restoreF_insert k j fs]

theorem restore_obj_notag (k : String) (v : J) (fs : JFs) (h : isReserved k = false) :
    restore (.obj (.cons k v fs)) = .dict (restoreF (.cons k v fs)) := by
  have h1 : k ≠ "py/bytes" := by intro e; subst e; simp [isReserved] at h
  have h2 : k ≠ "py/tuple" := by intro e; subst e; simp [isReserved] at h
  have h3 : k ≠ "py/set" := by intro e; subst e; simp [isReserved] at h
  have h4 : k ≠ "py/type" := by intro e; subst e; simp [isReserved] at h
  have h5 : k ≠ "py/object" := by intro e; subst e; simp [isReserved] at h
  unfold restore
  split <;> simp_all

theorem restore_obj_noRes (fs : JFs) (h : fs.NoRes) : restore (.obj fs) = .dict (restoreF fs) := by
  cases fs with
  | nil => simp [restore]
  | cons k v fs => exact restore_obj_notag k v fs h.1

mutual
  theorem restore_flatten : (v : Val) → restore (flatten v) = canon v
    | .none => by simp [flatten, restore, canon]
    | .bool b => by simp [flatten, restore, canon]
    | .int n => by simp [flatten, restore, canon]
    | .float r => by simp [flatten, restore, canon]
    | .str s => by simp [flatten, restore, canon]
    | .bytes qp => by simp [flatten, restore, canon]
    | .cls n => by simp [flatten, restore, canon]
    | .list xs => by simp [flatten, restore, canon, restoreL_flattenL xs]
    | .tuple xs => by simp [flatten, restore, canon, restoreL_flattenL xs]
    | .set xs => by simp [flatten, restore, canon, restoreL_flattenL xs]
    | .obj c .nil => by simp [flatten, stateJ, restore, canon, objCanon]
    | .obj c (.cons k v fs) => by
        have := restoreF_flattenF (.cons k v fs)
        simp [flatten, stateJ, restore, canon, objCanon, this]
    | .dict fs => by
        simp only [flatten, canon]
        rw [restore_obj_noRes _ (flattenF_noRes fs), restoreF_flattenF fs]
  theorem restoreL_flattenL : (xs : Vals) → restoreL (flattenL xs) = canonL xs
    | .nil => by simp [flattenL, restoreL, canonL]
    | .cons x xs => by simp [flattenL, restoreL, canonL, restore_flatten x, restoreL_flattenL xs]
  theorem restoreF_flattenF : (fs : Fields) → restoreF (flattenF fs) = canonF fs
    | .nil => by simp [flattenF, restoreF, canonF]
    | .cons k v fs => by
        simp only [flattenF, canonF]
        split
        · exact restoreF_flattenF fs
        · rw [restoreF_insert, restore_flatten v, restoreF_flattenF fs]
end

/-- token-level round trip of the codec: decoding what was encoded gives the canonical form of the value -/
theorem decToks_encToks (v : Val) (rest : List Tok) : decToks (encToks v ++ rest) = some (canon v, rest) := by
  unfold decToks encToks
  rw [pa_pr_fuel (flatten v) rest]
  simp [restore_flatten]

theorem decodeToks_encToks (v : Val) : decodeToks (encToks v) = some (canon v) := by
  have := decToks_encToks v []
  simp only [List.append_nil] at this
  simp [decodeToks, this]

/-- the encoder is injective up to the canonical form -/
theorem encToks_inj {v v' : Val} (h : encToks v = encToks v') : canon v = canon v' := by
  have a := decodeToks_encToks v
  have b := decodeToks_encToks v'
  rw [h] at a
  rw [a] at b
  exact Option.some.inj b

/-! ### sorted insertion -/
theorem lt_of_not_lt_of_ne {k k' : String} (h1 : ¬ k < k') (hne : k ≠ k') : k' < k := by
  have := String.not_lt.mp h1
  rcases Std.le_iff_lt_or_eq.mp this with h | h
  · exact h
  · exact absurd h.symm hne

theorem Fields.insert_comm (k k' : String) (v v' : Val) (hne : k ≠ k') :
    (fs : Fields) → Fields.insert k v (Fields.insert k' v' fs) = Fields.insert k' v' (Fields.insert k v fs)
  | .nil => by
    simp only [Fields.insert]
    by_cases h1 : k < k'
    · have h2 : ¬ k' < k := String.lt_asymm h1
      simp [h1, h2]
    · have h2 : k' < k := lt_of_not_lt_of_ne h1 hne
      simp [h1, h2]
  | .cons k0 v0 fs => by
    simp only [Fields.insert]
    by_cases a : k < k0 <;> by_cases b : k' < k0
    · by_cases h1 : k < k'
      · have h2 : ¬ k' < k := String.lt_asymm h1
        simp [a, b, h1, h2, Fields.insert]
      · have h2 : k' < k := lt_of_not_lt_of_ne h1 hne
        simp [a, b, h1, h2, Fields.insert]
    · have h2 : ¬ k' < k := fun h => b (String.lt_trans h a)
      simp [a, b, h2, Fields.insert]
    · have h2 : ¬ k < k' := fun h => a (String.lt_trans h b)
      simp [a, b, h2, Fields.insert]
    · simp [a, b, Fields.insert, Fields.insert_comm k k' v v' hne fs]

theorem Fields.keys_insert (k : String) (v : Val) (x : String) :
    (fs : Fields) → (x ∈ (Fields.insert k v fs).keys ↔ x = k ∨ x ∈ fs.keys)
  | .nil => by simp [Fields.insert, Fields.keys]
  | .cons k' v' fs => by
    simp only [Fields.insert]
    split
    · simp [Fields.keys]
    · simp only [Fields.keys, List.mem_cons, Fields.keys_insert k v x fs]
      constructor
      · rintro (h | h | h) <;> simp [h]
      · rintro (h | h | h) <;> simp [h]

/-- inserting a key smaller than every key of a sorted list puts it in front -/
theorem Fields.insert_sorted_head (k : String) (v : Val) (fs : Fields) (h : (Fields.cons k v fs).Sorted) :
    Fields.insert k v fs = .cons k v fs := by
  cases fs with
  | nil => simp [Fields.insert]
  | cons k' v' fs => simp [Fields.insert, h.1]

theorem Fields.sorted_tail {k : String} {v : Val} {fs : Fields} (h : (Fields.cons k v fs).Sorted) : fs.Sorted := by
  cases fs with
  | nil => trivial
  | cons k' v' fs => exact h.2

/-- permutations of a field list (same constructors as `List.Perm`) -/
inductive Fields.Perm : Fields → Fields → Prop
  | nil : Fields.Perm .nil .nil
  | cons (k : String) (v : Val) {l l' : Fields} : Fields.Perm l l' → Fields.Perm (.cons k v l) (.cons k v l')
  | swap (k k' : String) (v v' : Val) (l : Fields) : Fields.Perm (.cons k' v' (.cons k v l)) (.cons k v (.cons k' v' l))
  | trans {a b c : Fields} : Fields.Perm a b → Fields.Perm b c → Fields.Perm a c

theorem Fields.Perm.mem_keys {a b : Fields} (h : Fields.Perm a b) (x : String) : x ∈ a.keys ↔ x ∈ b.keys := by
  induction h with
  | nil => simp
  | cons k v _ ih => simp [Fields.keys, ih]
  | swap k k' v v' l =>
    simp only [Fields.keys, List.mem_cons]
    constructor <;> (rintro (h | h | h) <;> simp [h])
  | trans _ _ ih1 ih2 => exact ih1.trans ih2

theorem Fields.Perm.distinct {a b : Fields} (h : Fields.Perm a b) (hd : a.DistinctKeys) : b.DistinctKeys := by
  induction h with
  | nil => trivial
  | cons k v hp ih =>
    exact ⟨fun hm => hd.1 ((hp.mem_keys k).mpr hm), ih hd.2⟩
  | swap k k' v v' l =>
    obtain ⟨h1, h2, h3⟩ := hd
    simp only [Fields.keys, List.mem_cons, not_or] at h1
    refine ⟨?_, ?_, h3⟩
    · simp only [Fields.keys, List.mem_cons, not_or]
      exact ⟨fun e => h1.1 e.symm, h2⟩
    · exact h1.2
  | trans _ _ ih1 ih2 => exact ih2 (ih1 hd)

/-- on fields with distinct keys the sorted form does not depend on the insertion order -/
theorem Fields.sort_perm {a b : Fields} (h : Fields.Perm a b) (hd : a.DistinctKeys) : a.sort = b.sort := by
  induction h with
  | nil => rfl
  | cons k v _ ih => simp [Fields.sort, ih hd.2]
  | swap k k' v v' l =>
    obtain ⟨h1, _, _⟩ := hd
    simp only [Fields.keys, List.mem_cons, not_or] at h1
    simp only [Fields.sort]
    exact Fields.insert_comm k' k v' v h1.1 _
  | trans p _ ih1 ih2 => exact (ih1 hd).trans (ih2 (p.distinct hd))

theorem JFs.insert_comm (k k' : String) (v v' : J) (hne : k ≠ k') :
    (fs : JFs) → JFs.insert k v (JFs.insert k' v' fs) = JFs.insert k' v' (JFs.insert k v fs)
  | .nil => by
    simp only [JFs.insert]
    by_cases h1 : k < k'
    · have h2 : ¬ k' < k := String.lt_asymm h1
      simp [h1, h2]
    · have h2 : k' < k := lt_of_not_lt_of_ne h1 hne
      simp [h1, h2]
  | .cons k0 v0 fs => by
    simp only [JFs.insert]
    by_cases a : k < k0 <;> by_cases b : k' < k0
    · by_cases h1 : k < k'
      · have h2 : ¬ k' < k := String.lt_asymm h1
        simp [a, b, h1, h2, JFs.insert]
      · have h2 : k' < k := lt_of_not_lt_of_ne h1 hne
        simp [a, b, h1, h2, JFs.insert]
    · have h2 : ¬ k' < k := fun h => b (String.lt_trans h a)
      simp [a, b, h2, JFs.insert]
    · have h2 : ¬ k < k' := fun h => a (String.lt_trans h b)
      simp [a, b, h2, JFs.insert]
    · simp [a, b, JFs.insert, JFs.insert_comm k k' v v' hne fs]

/-- the flattened (sorted) form of a dict does not depend on the insertion order of its items -/
theorem flattenF_perm {a b : Fields} (h : Fields.Perm a b) (hd : a.DistinctKeys) : flattenF a = flattenF b := by
  induction h with
  | nil => rfl
  | cons k v _ ih => simp [flattenF, ih hd.2]
  | swap k k' v v' l =>
    obtain ⟨h1, _, _⟩ := hd
    simp only [Fields.keys, List.mem_cons, not_or] at h1
    simp only [flattenF]
    by_cases r1 : isReserved k <;> by_cases r2 : isReserved k' <;> simp [r1, r2]
    exact JFs.insert_comm k' k _ _ h1.1 _
  | trans p _ ih1 ih2 => exact (ih1 hd).trans (ih2 (p.distinct hd))

/-! ### canonical form vs plain sorting; fixed points -/
mutual
  theorem canon_eq_sortDicts : (v : Val) → v.WF → canon v = sortDicts v
    | .none, _ => by simp [canon, sortDicts]
    | .bool b, _ => by simp [canon, sortDicts]
    | .int n, _ => by simp [canon, sortDicts]
    | .float r, _ => by simp [canon, sortDicts]
    | .str s, _ => by simp [canon, sortDicts]
    | .bytes qp, _ => by simp [canon, sortDicts]
    | .cls n, _ => by simp [canon, sortDicts]
    | .list xs, h => by simp [canon, sortDicts, canonL_eq_sortDictsL xs (by simpa [Val.WF] using h)]
    | .tuple xs, h => by simp [canon, sortDicts, canonL_eq_sortDictsL xs (by simpa [Val.WF] using h)]
    | .set xs, h => by simp [canon, sortDicts, canonL_eq_sortDictsL xs (by simpa [Val.WF] using h)]
    | .dict fs, h => by
        have h' : fs.WF ∧ fs.NoReserved := by simpa [Val.WF] using h
        simp [canon, sortDicts, canonF_eq_sortDictsF fs h'.1 h'.2]
    | .obj c fs, h => by
        have h' : fs.WF ∧ fs.NoReserved ∧ fs.NonEmpty := by simpa [Val.WF] using h
        cases fs with
        | nil => exact absurd h'.2.2 (by simp [Fields.NonEmpty])
        | cons k v fs =>
          simp [canon, sortDicts, objCanon, canonF_eq_sortDictsF _ h'.1 h'.2.1]
  theorem canonL_eq_sortDictsL : (xs : Vals) → xs.WF → canonL xs = sortDictsL xs
    | .nil, _ => by simp [canonL, sortDictsL]
    | .cons x xs, h => by
        have h' : x.WF ∧ xs.WF := by simpa [Vals.WF] using h
        simp [canonL, sortDictsL, canon_eq_sortDicts x h'.1, canonL_eq_sortDictsL xs h'.2]
  theorem canonF_eq_sortDictsF : (fs : Fields) → fs.WF → fs.NoReserved → canonF fs = sortDictsF fs
    | .nil, _, _ => by simp [canonF, sortDictsF]
    | .cons k v fs, h, hr => by
        have h' : v.WF ∧ fs.WF := by simpa [Fields.WF] using h
        simp [canonF, sortDictsF, hr.1, canon_eq_sortDicts v h'.1, canonF_eq_sortDictsF fs h'.2 hr.2]
end

mutual
  theorem sortDicts_canonical : (v : Val) → v.Canonical → sortDicts v = v
    | .none, _ => by simp [sortDicts]
    | .bool b, _ => by simp [sortDicts]
    | .int n, _ => by simp [sortDicts]
    | .float r, _ => by simp [sortDicts]
    | .str s, _ => by simp [sortDicts]
    | .bytes qp, _ => by simp [sortDicts]
    | .cls n, _ => by simp [sortDicts]
    | .list xs, h => by simp [sortDicts, sortDictsL_canonical xs (by simpa [Val.Canonical] using h)]
    | .tuple xs, h => by simp [sortDicts, sortDictsL_canonical xs (by simpa [Val.Canonical] using h)]
    | .set xs, h => by simp [sortDicts, sortDictsL_canonical xs (by simpa [Val.Canonical] using h)]
    | .dict fs, h => by
        have h' : fs.Canonical ∧ fs.Sorted := by simpa [Val.Canonical] using h
        simp [sortDicts, sortDictsF_canonical fs h'.1 h'.2]
    | .obj c fs, h => by
        have h' : fs.Canonical ∧ fs.Sorted := by simpa [Val.Canonical] using h
        simp [sortDicts, sortDictsF_canonical fs h'.1 h'.2]
  theorem sortDictsL_canonical : (xs : Vals) → xs.Canonical → sortDictsL xs = xs
    | .nil, _ => by simp [sortDictsL]
    | .cons x xs, h => by
        have h' : x.Canonical ∧ xs.Canonical := by simpa [Vals.Canonical] using h
        simp [sortDictsL, sortDicts_canonical x h'.1, sortDictsL_canonical xs h'.2]
  theorem sortDictsF_canonical : (fs : Fields) → fs.Canonical → fs.Sorted → sortDictsF fs = fs
    | .nil, _, _ => by simp [sortDictsF]
    | .cons k v fs, h, hs => by
        have h' : v.Canonical ∧ fs.Canonical := by simpa [Fields.Canonical] using h
        simp only [sortDictsF, sortDicts_canonical v h'.1, sortDictsF_canonical fs h'.2 (Fields.sorted_tail hs)]
        exact Fields.insert_sorted_head k v fs hs
end

/-- for a faithful value in canonical form the round trip is the identity -/
theorem canon_id (v : Val) (hw : v.WF) (hc : v.Canonical) : canon v = v := by
  rw [canon_eq_sortDicts v hw, sortDicts_canonical v hc]

/-! ### the iteration order of sets as a parameter of the encoding process -/
mutual
  /-- the value as a process sees it whose set iteration order is `ord` (a permutation of the members) -/
  def iterView (ord : Vals → Vals) : Val → Val
    | .none => .none
    | .bool b => .bool b
    | .int n => .int n
    | .float r => .float r
    | .str s => .str s
    | .bytes qp => .bytes qp
    | .list xs => .list (iterViewL ord xs)
    | .tuple xs => .tuple (iterViewL ord xs)
    | .set xs => .set (ord (iterViewL ord xs))
    | .dict fs => .dict (iterViewF ord fs)
    | .obj c fs => .obj c (iterViewF ord fs)
    | .cls n => .cls n
  def iterViewL (ord : Vals → Vals) : Vals → Vals
    | .nil => .nil
    | .cons x xs => .cons (iterView ord x) (iterViewL ord xs)
  def iterViewF (ord : Vals → Vals) : Fields → Fields
    | .nil => .nil
    | .cons k v fs => .cons k (iterView ord v) (iterViewF ord fs)
end

mutual
  theorem iterView_setFree (ord : Vals → Vals) : (v : Val) → v.SetFree → iterView ord v = v
    | .none, _ => by simp [iterView]
    | .bool b, _ => by simp [iterView]
    | .int n, _ => by simp [iterView]
    | .float r, _ => by simp [iterView]
    | .str s, _ => by simp [iterView]
    | .bytes qp, _ => by simp [iterView]
    | .cls n, _ => by simp [iterView]
    | .set xs, h => by simp [Val.SetFree] at h
    | .list xs, h => by simp [iterView, iterViewL_setFree ord xs (by simpa [Val.SetFree] using h)]
    | .tuple xs, h => by simp [iterView, iterViewL_setFree ord xs (by simpa [Val.SetFree] using h)]
    | .dict fs, h => by simp [iterView, iterViewF_setFree ord fs (by simpa [Val.SetFree] using h)]
    | .obj c fs, h => by simp [iterView, iterViewF_setFree ord fs (by simpa [Val.SetFree] using h)]
  theorem iterViewL_setFree (ord : Vals → Vals) : (xs : Vals) → xs.SetFree → iterViewL ord xs = xs
    | .nil, _ => by simp [iterViewL]
    | .cons x xs, h => by
        have h' : x.SetFree ∧ xs.SetFree := by simpa [Vals.SetFree] using h
        simp [iterViewL, iterView_setFree ord x h'.1, iterViewL_setFree ord xs h'.2]
  theorem iterViewF_setFree (ord : Vals → Vals) : (fs : Fields) → fs.SetFree → iterViewF ord fs = fs
    | .nil, _ => by simp [iterViewF]
    | .cons k v fs, h => by
        have h' : v.SetFree ∧ fs.SetFree := by simpa [Fields.SetFree] using h
        simp [iterViewF, iterView_setFree ord v h'.1, iterViewF_setFree ord fs h'.2]
end

/-! ### sorting the dicts of a value does not change its encoding -/
theorem flattenF_insert (k : String) (v : Val) :
    (fs : Fields) → k ∉ fs.keys →
    flattenF (Fields.insert k v fs) = if isReserved k then flattenF fs else JFs.insert k (flatten v) (flattenF fs)
  | .nil, _ => by simp [Fields.insert, flattenF]
  | .cons k' v' fs, h => by
    simp only [Fields.keys, List.mem_cons, not_or] at h
    simp only [Fields.insert]
    split
    · simp [flattenF]
    · simp only [flattenF, flattenF_insert k v fs h.2]
      by_cases r1 : isReserved k <;> by_cases r2 : isReserved k' <;> simp [r1, r2]
      exact JFs.insert_comm k' k _ _ (fun e => h.1 e.symm) _

theorem Fields.insert_distinct (k : String) (v : Val) :
    (fs : Fields) → k ∉ fs.keys → fs.DistinctKeys → (Fields.insert k v fs).DistinctKeys
  | .nil, _, _ => by simp [Fields.insert, Fields.DistinctKeys, Fields.keys]
  | .cons k' v' fs, h, hd => by
    simp only [Fields.keys, List.mem_cons, not_or] at h
    simp only [Fields.insert]
    split
    · exact ⟨by simp only [Fields.keys, List.mem_cons, not_or]; exact h, hd⟩
    · refine ⟨?_, Fields.insert_distinct k v fs h.2 hd.2⟩
      rw [Fields.keys_insert]
      rintro (e | e)
      · exact h.1 e.symm
      · exact hd.1 e

theorem sortDictsF_keys : (fs : Fields) → (x : String) → (x ∈ (sortDictsF fs).keys ↔ x ∈ fs.keys)
  | .nil, x => by simp [sortDictsF]
  | .cons k v fs, x => by
    simp only [sortDictsF, Fields.keys_insert, Fields.keys, List.mem_cons, sortDictsF_keys fs x]

mutual
  theorem flatten_sortDicts : (v : Val) → v.Distinct → flatten (sortDicts v) = flatten v
    | .none, _ => by simp [sortDicts]
    | .bool b, _ => by simp [sortDicts]
    | .int n, _ => by simp [sortDicts]
    | .float r, _ => by simp [sortDicts]
    | .str s, _ => by simp [sortDicts]
    | .bytes qp, _ => by simp [sortDicts]
    | .cls n, _ => by simp [sortDicts]
    | .list xs, h => by simp [sortDicts, flatten, flattenL_sortDictsL xs (by simpa [Val.Distinct] using h)]
    | .tuple xs, h => by simp [sortDicts, flatten, flattenL_sortDictsL xs (by simpa [Val.Distinct] using h)]
    | .set xs, h => by simp [sortDicts, flatten, flattenL_sortDictsL xs (by simpa [Val.Distinct] using h)]
    | .dict fs, h => by
        have h' : fs.Distinct ∧ fs.DistinctKeys := by simpa [Val.Distinct] using h
        simp [sortDicts, flatten, flattenF_sortDictsF fs h'.1 h'.2]
    | .obj c .nil, _ => by simp [sortDicts, sortDictsF]
    | .obj c (.cons k v fs), h => by
        have h' : (Fields.cons k v fs).Distinct ∧ (Fields.cons k v fs).DistinctKeys := by simpa [Val.Distinct] using h
        have e := flattenF_sortDictsF (.cons k v fs) h'.1 h'.2
        have ne : ∃ k0 v0 r, sortDictsF (.cons k v fs) = .cons k0 v0 r := by
          simp only [sortDictsF]
          cases sortDictsF fs with
          | nil => exact ⟨_, _, _, rfl⟩
          | cons k1 v1 r =>
            simp only [Fields.insert]
            split
            · exact ⟨_, _, _, rfl⟩
            · exact ⟨_, _, _, rfl⟩
        obtain ⟨k0, v0, r, hr⟩ := ne
        simp only [sortDicts, flatten]
        rw [hr] at e ⊢
        simp [stateJ, e]
  theorem flattenL_sortDictsL : (xs : Vals) → xs.Distinct → flattenL (sortDictsL xs) = flattenL xs
    | .nil, _ => by simp [sortDictsL]
    | .cons x xs, h => by
        have h' : x.Distinct ∧ xs.Distinct := by simpa [Vals.Distinct] using h
        simp [sortDictsL, flattenL, flatten_sortDicts x h'.1, flattenL_sortDictsL xs h'.2]
  theorem flattenF_sortDictsF : (fs : Fields) → fs.Distinct → fs.DistinctKeys → flattenF (sortDictsF fs) = flattenF fs
    | .nil, _, _ => by simp [sortDictsF]
    | .cons k v fs, h, hd => by
        have h' : v.Distinct ∧ fs.Distinct := by simpa [Fields.Distinct] using h
        have hk : k ∉ (sortDictsF fs).keys := fun m => hd.1 ((sortDictsF_keys fs k).mp m)
        simp only [sortDictsF, flattenF]
        rw [flattenF_insert k _ _ hk, flatten_sortDicts v h'.1, flattenF_sortDictsF fs h'.2 hd.2]
end

/-- values equal up to dict order have the same encoding -/
theorem encToks_of_sortDicts_eq {v v' : Val} (hd : v.Distinct) (hd' : v'.Distinct) (h : sortDicts v = sortDicts v') :
    encToks v = encToks v' := by
  unfold encToks
  rw [← flatten_sortDicts v hd, ← flatten_sortDicts v' hd', h]

end PlaybackModel.Codec
