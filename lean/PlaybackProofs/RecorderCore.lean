import PlaybackProofs.RecorderFinish
/-! The cassette log, the clock position and the body journal are write-only for the interpreter: two states that agree
on everything else behave the same.  Used for "any number of replays of the same recording give the same answer" (C02). -/
namespace PlaybackModel.Recorder

/-- everything the interpreter's decisions can depend on -/
structure Core where
  enabled : Bool
  active : Option Active
  forced : Bool
  counter : List (String × Nat)
  playback : Option Recording
  playbackOutputs : Data
  inInt : Bool
  draws : List Q
  drawn : Nat
  nextId : Nat
  store : List Recording

def St.core (s : St) : Core :=
  ⟨s.enabled && s.active.isSome, s.active, s.forced, s.counter, s.playback, s.playbackOutputs, s.inInt, s.draws, s.drawn, s.nextId, s.store⟩

theorem core_eq_iff (s s' : St) : s.core = s'.core ↔
    (s.enabled && s.active.isSome) = (s'.enabled && s'.active.isSome) ∧ s.active = s'.active ∧ s.forced = s'.forced ∧ s.counter = s'.counter ∧
    s.playback = s'.playback ∧ s.playbackOutputs = s'.playbackOutputs ∧ s.inInt = s'.inInt ∧ s.draws = s'.draws ∧
    s.drawn = s'.drawn ∧ s.nextId = s'.nextId ∧ s.store = s'.store := by
  simp [St.core]

section helpers
variable {s s' : St} (h : s.core = s'.core)
include h

set_option hygiene false in
/-- destructure both states, identify everything the cores share; what remains is the two raw switches `e1`, `e2` with
`(e1 && act.isSome) = (e2 && act.isSome)` -/
macro "core_cases" : tactic => `(tactic| (
  obtain ⟨e1, act, f1, c1, p1, po1, i1, d1, dn1, cl1, n1, st1, l1, j1⟩ := s
  obtain ⟨e2, act2, f2, c2, p2, po2, i2, d2, dn2, cl2, n2, st2, l2, j2⟩ := s'
  simp only [St.core, Core.mk.injEq] at h
  obtain ⟨he, rfl, rfl, rfl, rfl, rfl, rfl, rfl, rfl, rfl, rfl⟩ := h))

theorem core_addJournal (e e') : (addJournal s e).core = (addJournal s' e').core := by
  rw [core_eq_iff] at h ⊢; simpa using h
theorem core_setInt (b) : (setInt s b).core = (setInt s' b).core := by
  core_cases
  simp [St.core, setInt, he]
theorem core_doDiscard : (doDiscard s).core = (doDiscard s').core := by
  core_cases
  cases act <;> simp_all [St.core, doDiscard, resetActive, addLog]
theorem core_doForce : (doForce s).core = (doForce s').core := by
  core_cases
  cases act with
  | none => simp_all [St.core, doForce]
  | some a => by_cases hi : a.params.ignoreForce = true <;> simp_all [St.core, doForce, hi]
theorem core_write (k v) : (write s k v).core = (write s' k v).core := by
  core_cases
  cases act <;> simp_all [St.core, write]
theorem core_pushPlayback (k v) : (pushPlayback s k v).core = (pushPlayback s' k v).core := by
  core_cases
  simp [St.core, pushPlayback, he]
theorem core_bump (a) : (bump s a).core = (bump s' a).core := by
  core_cases
  simp [St.core, bump, he]
theorem core_modes : shouldIntercept s = shouldIntercept s' ∧ inPlaybackMode s = inPlaybackMode s' ∧
    inRecordingMode s = inRecordingMode s' := by
  core_cases
  simp [shouldIntercept, inPlaybackMode, inRecordingMode, he]
theorem core_doRecordData (key v) : (doRecordData s key v).core = (doRecordData s' key v).core := by
  unfold doRecordData
  rw [(core_modes h).2.2]
  split
  · exact core_write h _ _
  · exact h
theorem core_recordOutput (cfg : OutCfg) (n args) : (recordOutput s cfg n args).core = (recordOutput s' cfg n args).core := by
  unfold recordOutput
  split
  · exact core_doDiscard h
  · rw [(core_modes h).2.1]
    split
    · exact core_pushPlayback h _ _
    · exact core_write h _ _
theorem core_afterInput (cfg args k0 o) : (afterInput cfg args k0 s o).core = (afterInput cfg args k0 s' o).core := by
  unfold afterInput
  split
  · exact core_write h _ _
  · exact core_doDiscard h
theorem core_afterOutput (al n o) : (afterOutput al n s o).core = (afterOutput al n s' o).core := by
  unfold afterOutput
  split <;> exact core_write h _ _
theorem core_doSetEnabled (b : Bool) : (doSetEnabled s b).core = (doSetEnabled s' b).core := by
  core_cases
  cases b <;> cases act <;> simp_all [St.core, doSetEnabled_eq, doDiscard, resetActive, addLog]
theorem core_doPlayData (key) : doPlayData s key = doPlayData s' key := by
  rw [core_eq_iff] at h
  unfold doPlayData
  rw [h.2.2.2.2.1]
end helpers

/-- the interpreter is a function of the core -/
theorem exec_core (p : Prog) : ∀ s s' : St, s.core = s'.core →
    (exec s p).1.core = (exec s' p).1.core ∧ (exec s p).2 = (exec s' p).2 := by
  induction p with
  | done e => intro s s' h; exact ⟨h, rfl⟩
  | discard k ih => intro s s' h; rw [exec, exec]; exact ih _ _ (core_doDiscard h)
  | force k ih => intro s s' h; rw [exec, exec]; exact ih _ _ (core_doForce h)
  | recordData key v k ih => intro s s' h; rw [exec, exec]; exact ih _ _ (core_doRecordData h key v)
  | setEnabled b k ih => intro s s' h; rw [exec, exec]; exact ih _ _ (core_doSetEnabled h b)
  | playData key k ih => intro s s' h; rw [exec, exec, core_doPlayData h]; exact ih _ _ _ h
  | callIn cfg args body k ihb ihk =>
    intro s s' h
    have step : ∀ (sb sb' : St) (post : Out → St → St) (postI : St → St), sb.core = sb'.core →
        (∀ o t t', t.core = t'.core → (post o t).core = (post o t').core) →
        (∀ t t', t.core = t'.core → (postI t).core = (postI t').core) →
        (match exec sb body with
            | (s1, .out o) => exec (post o s1) (k o)
            | (s1, .interrupt i) => (postI s1, .interrupt i)).1.core =
        (match exec sb' body with
            | (s1, .out o) => exec (post o s1) (k o)
            | (s1, .interrupt i) => (postI s1, .interrupt i)).1.core ∧
        (match exec sb body with
            | (s1, .out o) => exec (post o s1) (k o)
            | (s1, .interrupt i) => (postI s1, .interrupt i)).2 =
        (match exec sb' body with
            | (s1, .out o) => exec (post o s1) (k o)
            | (s1, .interrupt i) => (postI s1, .interrupt i)).2 := by
      intro sb sb' post postI hsb hpost hpostI
      have hb := ihb sb sb' hsb
      generalize exec sb body = r at hb
      generalize exec sb' body = r' at hb
      obtain ⟨s1, e⟩ := r
      obtain ⟨s1', e'⟩ := r'
      obtain ⟨hb1, hb2⟩ := hb
      simp only at hb1 hb2
      subst hb2
      cases e with
      | out o => exact ihk o _ _ (hpost o s1 s1' hb1)
      | interrupt i => exact ⟨hpostI s1 s1' hb1, rfl⟩
    obtain ⟨m1, m2, _⟩ := core_modes h
    have hpb : s.playback = s'.playback := ((core_eq_iff s s').mp h).2.2.2.2.1
    rw [exec, exec, ← m1]
    split
    · exact step _ _ (fun _ t => t) (fun t => t) (core_addJournal h _ _) (fun _ _ _ ht => ht) (fun _ _ ht => ht)
    · split
      · rw [← m2]
        split
        · exact ihk _ _ _ h
        · exact step _ _ (fun _ t => setInt t false) (fun t => setInt t false)
            (core_setInt (core_addJournal (core_doDiscard h) _ _) true)
            (fun _ _ _ ht => core_setInt ht false) (fun _ _ ht => core_setInt ht false)
      · rw [← hpb]
        split
        · split
          · exact ihk _ _ _ h
          · split
            · exact step _ _ (fun _ t => t) (fun t => t) (core_addJournal h _ _) (fun _ _ _ ht => ht) (fun _ _ ht => ht)
            · split
              · exact ihk _ _ _ h
              · exact ihk _ _ _ h
        · exact step _ _ (fun o t => afterInput cfg args _ (setInt t false) o) (fun t => setInt t false)
            (core_setInt (core_addJournal h _ _) true)
            (fun o _ _ ht => core_afterInput (core_setInt ht false) cfg args _ o) (fun _ _ ht => core_setInt ht false)
  | callOut cfg args body k ihb ihk =>
    intro s s' h
    have step : ∀ (sb sb' : St) (post : Out → St → St) (postI : St → St), sb.core = sb'.core →
        (∀ o t t', t.core = t'.core → (post o t).core = (post o t').core) →
        (∀ t t', t.core = t'.core → (postI t).core = (postI t').core) →
        (match exec sb body with
            | (s1, .out o) => exec (post o s1) (k o)
            | (s1, .interrupt i) => (postI s1, .interrupt i)).1.core =
        (match exec sb' body with
            | (s1, .out o) => exec (post o s1) (k o)
            | (s1, .interrupt i) => (postI s1, .interrupt i)).1.core ∧
        (match exec sb body with
            | (s1, .out o) => exec (post o s1) (k o)
            | (s1, .interrupt i) => (postI s1, .interrupt i)).2 =
        (match exec sb' body with
            | (s1, .out o) => exec (post o s1) (k o)
            | (s1, .interrupt i) => (postI s1, .interrupt i)).2 := by
      intro sb sb' post postI hsb hpost hpostI
      have hb := ihb sb sb' hsb
      generalize exec sb body = r at hb
      generalize exec sb' body = r' at hb
      obtain ⟨s1, e⟩ := r
      obtain ⟨s1', e'⟩ := r'
      obtain ⟨hb1, hb2⟩ := hb
      simp only at hb1 hb2
      subst hb2
      cases e with
      | out o => exact ihk o _ _ (hpost o s1 s1' hb1)
      | interrupt i => exact ⟨hpostI s1 s1' hb1, rfl⟩
    obtain ⟨m1, _, _⟩ := core_modes h
    have hcnt : s.counter = s'.counter := ((core_eq_iff s s').mp h).2.2.2.1
    have h1 : (recordOutput (bump s cfg.alias) cfg (cnt s.counter cfg.alias + 1) args).core
        = (recordOutput (bump s' cfg.alias) cfg (cnt s.counter cfg.alias + 1) args).core :=
      core_recordOutput (core_bump h _) cfg _ args
    obtain ⟨n1, _, _⟩ := core_modes h1
    have hpb1 : (recordOutput (bump s cfg.alias) cfg (cnt s.counter cfg.alias + 1) args).playback
        = (recordOutput (bump s' cfg.alias) cfg (cnt s.counter cfg.alias + 1) args).playback :=
      ((core_eq_iff _ _).mp h1).2.2.2.2.1
    rw [exec, exec, ← m1, ← hcnt]
    split
    · exact step _ _ (fun _ t => t) (fun t => t) (core_addJournal h _ _) (fun _ _ _ ht => ht) (fun _ _ ht => ht)
    · rw [← n1]
      split
      · exact step _ _ (fun _ t => t) (fun t => t) (core_addJournal h1 _ _) (fun _ _ _ ht => ht) (fun _ _ ht => ht)
      · rw [← hpb1]
        split
        · split
          · exact ihk _ _ _ h1
          · split
            · exact ihk _ _ _ h1
            · exact ihk _ _ _ h1
        · exact step _ _ (fun o t => afterOutput cfg.alias (cnt s.counter cfg.alias + 1) (setInt t false) o)
            (fun t => setInt t false) (core_setInt (core_addJournal h1 _ _) true)
            (fun o _ _ ht => core_afterOutput (core_setInt ht false) _ _ o) (fun _ _ ht => core_setInt ht false)

theorem core_tick (s s' : St) (h : s.core = s'.core) : (tick s).1.core = (tick s').1.core := by
  have a := tick_fields s
  have b := tick_fields s'
  rw [core_eq_iff] at h ⊢
  obtain ⟨a1, a2, a3, a4, a5, a6, _, _, a9, a10, a11, a12, a13⟩ := a
  obtain ⟨b1, b2, b3, b4, b5, b6, _, _, b9, b10, b11, b12, b13⟩ := b
  obtain ⟨h1, h2, h3, h4, h5, h6, h7, h8, h9, h10, h11⟩ := h
  refine ⟨by rw [a10, b10, a1, b1, h1], by rw [a1, b1, h2], by rw [a2, b2, h3], by rw [a3, b3, h4], by rw [a4, b4, h5],
    by rw [a5, b5, h6], by rw [a6, b6, h7], by rw [a12, b12, h8], by rw [a13, b13, h9], by rw [a11, b11, h10],
    by rw [a9, b9, h11]⟩

theorem core_execOperationFunc (p : Prog) (s s' : St) (h : s.core = s'.core) :
    (execOperationFunc s p).1.core = (execOperationFunc s' p).1.core ∧
    (execOperationFunc s p).2 = (execOperationFunc s' p).2 := by
  have he := exec_core p s s' h
  unfold execOperationFunc
  generalize exec s p = r at he
  generalize exec s' p = r' at he
  obtain ⟨s1, e⟩ := r
  obtain ⟨s1', e'⟩ := r'
  obtain ⟨h1, h2⟩ := he
  simp only at h1 h2
  subst h2
  have hm := (core_modes h1).2.1
  cases e with
  | interrupt i => exact ⟨h1, rfl⟩
  | out o =>
    cases o with
    | ret v =>
      simp only [← hm]
      split
      · exact ⟨core_pushPlayback h1 _ _, trivial⟩
      · exact ⟨core_write h1 _ _, trivial⟩
    | exc t =>
      simp only [← hm]
      split
      · exact ⟨h1, rfl⟩
      · split
        · exact ⟨core_pushPlayback h1 _ _, rfl⟩
        · exact ⟨core_write h1 _ _, rfl⟩

/-- `play()` is a function of the core of the recorder state (and of the cassette content, which is part of it) -/
theorem runPlay_core (ao : AliasOracle) (cfg : OpCfg) (id : Nat) (p : Prog) (s s' : St) (h : s.core = s'.core) :
    (runPlay ao cfg s id p).2 = (runPlay ao cfg s' id p).2 ∧
    (runPlay ao cfg s id p).1.core = (runPlay ao cfg s' id p).1.core := by
  have hst : s.store = s'.store := ((core_eq_iff s s').mp h).2.2.2.2.2.2.2.2.2.2
  unfold runPlay
  rw [← hst]
  have hlog : (addLog s (.get id)).core = (addLog s' (.get id)).core := by
    rw [core_eq_iff] at h ⊢; simpa [addLog] using h
  cases hf : fetch s.store id with
  | none => exact ⟨rfl, hlog⟩
  | some r =>
    simp only
    have ht := core_tick _ _ hlog
    generalize tick (addLog s (.get id)) = q at ht
    generalize tick (addLog s' (.get id)) = q' at ht
    obtain ⟨sa, _⟩ := q
    obtain ⟨sa', _⟩ := q'
    simp only at ht
    have hT : ({ sa with playback := some r } : St).core = ({ sa' with playback := some r } : St).core := by
      rw [core_eq_iff] at ht ⊢
      obtain ⟨h1, h2, h3, h4, _, h6, h7, h8, h9, h10, h11⟩ := ht
      exact ⟨h1, h2, h3, h4, rfl, h6, h7, h8, h9, h10, h11⟩
    have hmode : ∀ u : St, u.playback = some r → runOperation ao cfg u p = execOperationFunc u p := by
      intro u hu; unfold runOperation; simp [inPlaybackMode, hu]
    rw [hmode _ rfl, hmode _ rfl]
    have he := core_execOperationFunc p _ _ hT
    generalize execOperationFunc { sa with playback := some r } p = res at he
    generalize execOperationFunc { sa' with playback := some r } p = res' at he
    obtain ⟨sb, e⟩ := res
    obtain ⟨sb', e'⟩ := res'
    obtain ⟨e1, e2⟩ := he
    simp only at e1 e2
    subst e2
    have ht2 := core_tick _ _ e1
    generalize tick sb = q2 at ht2
    generalize tick sb' = q2' at ht2
    obtain ⟨sc, _⟩ := q2
    obtain ⟨sc', _⟩ := q2'
    simp only at ht2
    have hpo : sc.playbackOutputs = sc'.playbackOutputs := ((core_eq_iff _ _).mp ht2).2.2.2.2.2.1
    have hfin : ({ sc with playback := none, playbackOutputs := [], counter := [] } : St).core
        = ({ sc' with playback := none, playbackOutputs := [], counter := [] } : St).core := by
      rw [core_eq_iff] at ht2 ⊢
      obtain ⟨h1, h2, h3, _, _, _, h7, h8, h9, h10, h11⟩ := ht2
      exact ⟨h1, h2, h3, rfl, rfl, rfl, h7, h8, h9, h10, h11⟩
    simp only
    rw [hpo]
    cases e with
    | interrupt i => exact ⟨rfl, hfin⟩
    | out o =>
      cases o with
      | ret v => exact ⟨rfl, hfin⟩
      | exc t => simp only; split <;> exact ⟨rfl, hfin⟩

/-- a replay leaves the core of an idle recorder as it found it -/
theorem runPlay_restores_core (ao : AliasOracle) (cfg : OpCfg) (s : St) (id : Nat) (p : Prog) (h : s.Idle) :
    (runPlay ao cfg s id p).1.core = s.core := by
  obtain ⟨⟨i1, i2, i3, i4, i5, i6⟩, _, hstore, hen⟩ := runPlay_spec ao cfg s id p h
  obtain ⟨h1, h2, h3, h4, h5, h6⟩ := h
  -- draws, drawn and the id counter are not touched by a replay
  have hrest : (runPlay ao cfg s id p).1.draws = s.draws ∧ (runPlay ao cfg s id p).1.drawn = s.drawn ∧
      (runPlay ao cfg s id p).1.nextId = s.nextId := by
    unfold runPlay
    cases hf : fetch s.store id with
    | none => simp [addLog]
    | some r =>
      simp only
      have ht := tick_fields (addLog s (.get id))
      generalize tick (addLog s (.get id)) = q at ht
      obtain ⟨sa, _⟩ := q
      obtain ⟨_, _, _, _, _, _, _, _, _, _, t11, t12, t13⟩ := ht
      simp only at t11 t12 t13
      have hmode : runOperation ao cfg { sa with playback := some r } p = execOperationFunc { sa with playback := some r } p := by
        unfold runOperation; simp [inPlaybackMode]
      rw [hmode]
      have hrng := execOperationFunc_rng { sa with playback := some r } p
      have hnid : (execOperationFunc { sa with playback := some r } p).1.nextId = sa.nextId := by
        have hfr := (exec_frame p { sa with playback := some r }).2.2.2.2.2.1
        unfold execOperationFunc
        generalize exec { sa with playback := some r } p = res at hfr
        obtain ⟨s1, e⟩ := res
        simp only at hfr
        cases e with
        | interrupt i => exact hfr
        | out o =>
          cases o with
          | ret v => simp only; split <;> simpa using hfr
          | exc t =>
            simp only
            split
            · exact hfr
            · split <;> simpa using hfr
      generalize execOperationFunc { sa with playback := some r } p = res at hrng hnid
      obtain ⟨sb, e⟩ := res
      have ht2 := tick_fields sb
      generalize tick sb = q2 at ht2
      obtain ⟨sc, _⟩ := q2
      obtain ⟨_, _, _, _, _, _, _, _, _, _, u11, u12, u13⟩ := ht2
      simp only at u11 u12 u13 hrng hnid
      have hd : sc.draws = s.draws := by rw [u12, hrng.1]; simpa [addLog] using t12
      have hdn : sc.drawn = s.drawn := by rw [u13, hrng.2.1]; simpa [addLog] using t13
      have hn : sc.nextId = s.nextId := by rw [u11, hnid]; simpa [addLog] using t11
      cases e with
      | interrupt i => exact ⟨hd, hdn, hn⟩
      | out o =>
        cases o with
        | ret v => exact ⟨hd, hdn, hn⟩
        | exc t => simp only; split <;> exact ⟨hd, hdn, hn⟩
  rw [core_eq_iff]
  exact ⟨by rw [i1, h1]; simp, by rw [i1, h1], by rw [i2, h2], by rw [i3, h3], by rw [i4, h4], by rw [i5, h5], by rw [i6, h6],
    hrest.1, hrest.2.1, hrest.2.2, hstore⟩

end PlaybackModel.Recorder
