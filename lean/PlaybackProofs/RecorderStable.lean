import PlaybackProofs.RecorderNodes
/-! Stability lemmas behind C01: once discarded always discarded; what a wrapped body can change while it runs under the
interception flag; entries written under an input key / an output-result key survive to the end of the operation. -/
namespace PlaybackModel.Recorder

theorem recordOutput_bump_inactive {t : St} (cfg : OutCfg) (n : Nat) (args : Args) (h : t.active = none) :
    (recordOutput (bump t cfg.alias) cfg n args).active = none := by
  have hb : (bump t cfg.alias).active = none := by simpa using h
  unfold recordOutput
  split
  · rw [doDiscard_inactive hb]; exact hb
  · split
    · simpa using hb
    · rw [write_inactive _ _ hb]; exact hb

theorem doSetEnabled_active_none {t : St} (b : Bool) (h : t.active = none) : (doSetEnabled t b).active = none := by
  rw [doSetEnabled_inactive b h]; exact h

theorem exec_active_none (p : Prog) (s : St) (h : s.active = none) : (exec s p).1.active = none :=
  exec_preserves (fun t => t.active = none)
    (by intro t e h; simpa using h) (by intro t b h; simpa using h)
    (by intro t h; rw [doDiscard_inactive h]; exact h) (by intro t h; rw [doForce_inactive h]; exact h)
    (by intro t key v h; rw [doRecordData_inactive _ _ h]; exact h)
    (by intro t cfg n args h _; exact recordOutput_bump_inactive cfg n args h)
    (by intro cfg args k0 t o h; rw [afterInput_inactive _ _ _ _ h]; exact h)
    (by intro a n t o h; rw [afterOutput_inactive _ _ _ h]; exact h)
    (by intro t b h; exact doSetEnabled_active_none b h) p s h

theorem doDiscard_active (s : St) : (doDiscard s).active = none := by
  unfold doDiscard; split <;> simp_all [resetActive]

theorem doSetEnabled_false_active (s : St) : (doSetEnabled s false).active = none := by
  rw [doSetEnabled_false]; exact doDiscard_active s

theorem doSetEnabled_true_of_enabled {s : St} (h : s.enabled = true) : doSetEnabled s true = s := by
  rw [doSetEnabled_true]; cases s; simp_all

/-- if a recording is still active after a switch flip, the flip was `enable_recording()` and touched nothing else -/
theorem doSetEnabled_of_active {s : St} {b : Bool} {a : Active} (h : (doSetEnabled s b).active = some a) :
    doSetEnabled s b = { s with enabled := true } ∧ s.active = some a := by
  cases b
  · rw [doSetEnabled_false_active] at h; cases h
  · rw [doSetEnabled_true] at h ⊢; exact ⟨rfl, h⟩

/-- **a recording in flight implies the switch is on**, whatever the running code does with the switch: switching
recording off aborts the recording (F15) -/
theorem exec_enabledInv (p : Prog) (s : St) (h : s.enabled = true ∨ s.active = none) :
    (exec s p).1.enabled = true ∨ (exec s p).1.active = none :=
  exec_preserves (fun t => t.enabled = true ∨ t.active = none)
    (by intro t e h; simpa using h) (by intro t b h; simpa using h)
    (by intro t h; exact .inr (doDiscard_active t))
    (by intro t h; simpa using h)
    (by intro t key v h
        rcases h with h | h
        · exact .inl (by simpa using h)
        · exact .inr (by rw [doRecordData_inactive _ _ h]; exact h))
    (by intro t cfg n args h _
        rcases h with h | h
        · exact .inl (by simpa using h)
        · exact .inr (recordOutput_bump_inactive cfg n args h))
    (by intro cfg args k0 t o h
        rcases h with h | h
        · exact .inl (by simpa using h)
        · exact .inr (by rw [afterInput_inactive _ _ _ _ h]; exact h))
    (by intro a n t o h
        rcases h with h | h
        · exact .inl (by simpa using h)
        · exact .inr (by rw [afterOutput_inactive _ _ _ h]; exact h))
    (by intro t b h
        cases b
        · exact .inr (doSetEnabled_false_active t)
        · exact .inl (by simp))
    p s h

theorem exec_enabled_of_active (p : Prog) (s : St) (he : s.enabled = true) {a1 : Active}
    (h : (exec s p).1.active = some a1) : (exec s p).1.enabled = true := by
  rcases exec_enabledInv p s (.inl he) with h' | h'
  · exact h'
  · rw [h'] at h; cases h

@[simp] theorem getD_cons (k : Key) (v : RVal) (d : Data) (k' : Key) :
    getD ((k, v) :: d) k' = if k = k' then some v else getD d k' := rfl

theorem write_active (s : St) (k : Key) (v : RVal) :
    (write s k v).active = s.active.map (fun a => { a with data := (k, v) :: a.data }) := by
  unfold write; split <;> simp_all

theorem doForce_active' (s : St) : (doForce s).active = s.active := doForce_active s

/-- pass-through execution: under the interception flag (or with nothing to intercept) `exec` only ever applies
`addJournal`, `doDiscard`, `doForce`, `doRecordData` -/
theorem exec_flagged_preserves (Q : St → Prop)
    (hJ : ∀ s e, Q s → Q (addJournal s e)) (hD : ∀ s, Q s → Q (doDiscard s)) (hF : ∀ s, Q s → Q (doForce s))
    (hR : ∀ s key v, Q s → Q (doRecordData s key v)) (hE : ∀ s b, Q s → Q (doSetEnabled s b)) :
    ∀ (p : Prog) (s : St), s.inInt = true → Q s → Q (exec s p).1 ∧ (exec s p).1.inInt = true := by
  intro p
  induction p with
  | done e => intro s hi h; exact ⟨h, hi⟩
  | discard k ih => intro s hi h; rw [exec]; exact ih _ (by simpa using hi) (hD s h)
  | force k ih => intro s hi h; rw [exec]; exact ih _ (by simpa using hi) (hF s h)
  | recordData key v k ih => intro s hi h; rw [exec]; exact ih _ (by simpa using hi) (hR s key v h)
  | setEnabled b k ih => intro s hi h; rw [exec]; exact ih _ (by simpa using hi) (hE s b h)
  | playData key k ih => intro s hi h; rw [exec]; exact ih _ s hi h
  | callIn cfg args body k ihb ihk =>
    intro s hi h
    rw [exec]
    have hsi : shouldIntercept s = false := by simp [shouldIntercept, hi]
    simp only [hsi, Bool.not_false, if_true]
    have hb := ihb (addJournal s (cfg.name, args)) (by simpa using hi) (hJ s _ h)
    generalize exec (addJournal s (cfg.name, args)) body = r at hb
    obtain ⟨s1, e⟩ := r
    cases e with
    | out o => exact ihk o s1 hb.2 hb.1
    | interrupt i => exact hb
  | callOut cfg args body k ihb ihk =>
    intro s hi h
    rw [exec]
    have hsi : shouldIntercept s = false := by simp [shouldIntercept, hi]
    simp only [hsi, Bool.not_false, if_true]
    have hb := ihb (addJournal s (cfg.name, args)) (by simpa using hi) (hJ s _ h)
    generalize exec (addJournal s (cfg.name, args)) body = r at hb
    obtain ⟨s1, e⟩ := r
    cases e with
    | out o => exact ihk o s1 hb.2 hb.1
    | interrupt i => exact hb

theorem extractOutputs_free (key : String) (v : RVal) (d : Data) :
    extractOutputs ((.free key, v) :: d) = extractOutputs d := rfl
theorem extractOutputs_input (al : String) (t : Bool) (a : List Val) (kw : List (String × Val)) (v : RVal) (d : Data) :
    extractOutputs ((.input al t a kw, v) :: d) = extractOutputs d := rfl
theorem extractOutputs_outRes (al : String) (n : Nat) (v : RVal) (d : Data) :
    extractOutputs ((.outRes al n, v) :: d) = extractOutputs d := rfl
theorem extractOutputs_outArgs (al : String) (n : Nat) (v : RVal) (d : Data) :
    extractOutputs ((.outArgs al n, v) :: d) = (.outArgs al n, v) :: extractOutputs d := rfl

/-- what a body running under the flag leaves of a recording: if it is still active afterwards, its outputs and the
per-alias counter are as before, entries present before are still there with the same value, and the mode is unchanged -/
theorem exec_flagged_body (body : Prog) (s : St) (a : Active) (hi : s.inInt = true) (hp : s.playback = none)
    (ha : s.active = some a) :
    (exec s body).1.inInt = true ∧ (exec s body).1.playback = none ∧
    (s.enabled = true → ∀ a1, (exec s body).1.active = some a1 → (exec s body).1.enabled = true) ∧
    ∀ a1, (exec s body).1.active = some a1 →
      extractOutputs a1.data = extractOutputs a.data ∧ (exec s body).1.counter = s.counter ∧ a1.id = a.id ∧
      a1.params = a.params ∧
      (∀ k v, (∀ key, k ≠ .free key) → getD a.data k = some v → getD a1.data k = some v) := by
  have := exec_flagged_preserves
    (fun t => ∀ a1, t.active = some a1 → extractOutputs a1.data = extractOutputs a.data ∧ t.counter = s.counter ∧
      a1.id = a.id ∧ a1.params = a.params ∧
      (∀ k v, (∀ key, k ≠ .free key) → getD a.data k = some v → getD a1.data k = some v))
    (by intro t e h a1 h1; exact h a1 (by simpa using h1))
    (by intro t h a1 h1; rw [doDiscard_active] at h1; cases h1)
    (by intro t h a1 h1; have := h a1 (by simpa using h1); simpa using this)
    (by
      intro t key v h a1 h1
      simp only [doRecordData_counter]
      unfold doRecordData at h1
      split at h1
      · rw [write_active] at h1
        cases hta : t.active with
        | none => simp [hta] at h1
        | some a0 =>
          simp only [hta, Option.map_some, Option.some.injEq] at h1
          subst h1
          obtain ⟨e1, e2, e3, e4, e5⟩ := h a0 hta
          refine ⟨by simpa [extractOutputs_free] using e1, by simpa using e2, e3, e4, ?_⟩
          intro k v' hk hg
          have := e5 k v' hk hg
          simp only [getD_cons]
          rw [if_neg (fun hc => hk key hc.symm)]
          exact this
      · exact h a1 h1)
    (by
      intro t b h a1 h1
      obtain ⟨e, h0⟩ := doSetEnabled_of_active h1
      rw [e]; exact h a1 h0)
    body s hi (by
      intro a1 h1
      rw [ha] at h1
      cases h1
      exact ⟨rfl, rfl, rfl, rfl, fun _ _ _ h => h⟩)
  refine ⟨this.2, by rw [(exec_frame body s).2.2.2.2.2.2]; exact hp,
    fun he a1 h1 => exec_enabled_of_active body s he h1, this.1⟩

/-! ### entries survive to the end of the operation -/

/-- the node hypothesis of C01: what the recorder stores for this input call is the world's envelope for its key, and
replaying that envelope hands back what the body returned -/
def InputKeyShape (cfg : InCfg) (args : Args) : Prop :=
  ∀ k0 fb, cfg.keys args = some (k0, fb) → ∃ al t a kw, k0 = .input al t a kw

def FaithfulIn (w : Key → RVal) (cfg : InCfg) (args : Args) (body : Prog) : Prop :=
  InputKeyShape cfg args ∧
  ∀ k0 fb o env, cfg.keys args = some (k0, fb) → bodyEnd body = .out o → envelopeOf cfg args o = some env →
    env = w k0 ∧ envelopeOut (cfg.restore args) env = o

theorem Prog.All_mono {Qi Qi' : InCfg → Args → Prog → Prop} {Qo Qo' : OutCfg → Args → Prog → Prop}
    (hi : ∀ c a b, Qi c a b → Qi' c a b) (ho : ∀ c a b, Qo c a b → Qo' c a b) :
    ∀ p : Prog, p.All Qi Qo → p.All Qi' Qo' := by
  intro p
  induction p with
  | done e => intro _; trivial
  | discard k ih => exact ih
  | force k ih => exact ih
  | recordData _ _ k ih => exact ih
  | setEnabled _ k ih => exact ih
  | playData _ k ih => exact fun h o => ih o (h o)
  | callIn cfg args body k ihb ihk => exact fun h => ⟨hi _ _ _ h.1, ihb h.2.1, fun o => ihk o (h.2.2 o)⟩
  | callOut cfg args body k ihb ihk => exact fun h => ⟨ho _ _ _ h.1, ihb h.2.1, fun o => ihk o (h.2.2 o)⟩

def Prog.Faithful (w : Key → RVal) (p : Prog) : Prop := p.All (FaithfulIn w) (fun _ _ _ => True)

/-- (A) an input key holding the world's envelope still holds it at the end -/
theorem input_stable (w : Key → RVal) (k0 : Key) (hk0 : ∃ al t a kw, k0 = .input al t a kw)
    (p : Prog) (hF : p.Faithful w) (s : St)
    (h : ∀ a, s.active = some a → getD a.data k0 = some (w k0)) :
    ∀ a', (exec s p).1.active = some a' → getD a'.data k0 = some (w k0) := by
  obtain ⟨al, tt, aa, kw, rfl⟩ := hk0
  refine exec_preserves' (FaithfulIn w) (fun _ _ _ => True)
    (fun t => ∀ a, t.active = some a → getD a.data (.input al tt aa kw) = some (w (.input al tt aa kw)))
    (by intro t e h a h1; exact h a (by simpa using h1))
    (by intro t b h a h1; exact h a (by simpa using h1))
    (by intro t h a h1; rw [doDiscard_active] at h1; cases h1)
    (by intro t h a h1; exact h a (by simpa using h1))
    (by
      intro t key v h a h1
      unfold doRecordData at h1
      split at h1
      · rw [write_active] at h1
        cases hta : t.active with
        | none => simp [hta] at h1
        | some a0 =>
          simp only [hta, Option.map_some, Option.some.injEq] at h1
          subst h1
          simpa using h a0 hta
      · exact h a h1)
    (by
      intro t cfg args body _ h _ a h1
      unfold recordOutput at h1
      split at h1
      · rw [doDiscard_active] at h1; cases h1
      · split at h1
        · exact h a (by simpa using h1)
        · rw [write_active] at h1
          cases hta : t.active with
          | none => simp [hta] at h1
          | some a0 =>
            simp only [bump_active, hta, Option.map_some, Option.some.injEq] at h1
            subst h1
            simpa using h a0 hta)
    (by
      intro cfg args body kk fb t o hnode hkeys hbe h a h1
      unfold afterInput at h1
      split at h1
      · rename_i env henv
        rw [write_active] at h1
        cases hta : t.active with
        | none => simp [hta] at h1
        | some a0 =>
          simp only [hta, Option.map_some, Option.some.injEq] at h1
          subst h1
          simp only [getD_cons]
          split
          · rename_i heq
            subst heq
            rw [(hnode.2 _ fb o env hkeys hbe henv).1]
          · exact h a0 hta
      · rw [doDiscard_active] at h1; cases h1)
    (by
      intro cfg args body t t2 o _ _ _ h2 a h1
      unfold afterOutput at h1
      split at h1 <;>
      · rw [write_active] at h1
        cases hta : t2.active with
        | none => simp [hta] at h1
        | some a0 =>
          simp only [hta, Option.map_some, Option.some.injEq] at h1
          subst h1
          simpa using h2 a0 hta)
    (by
      intro t b h a h1
      exact h a (doSetEnabled_of_active h1).2)
    p hF s h

theorem recordOutput_counter_of_active (s : St) (cfg : OutCfg) (n : Nat) (args : Args) (a : Active)
    (h : (recordOutput s cfg n args).active = some a) : (recordOutput s cfg n args).counter = s.counter := by
  unfold recordOutput at h ⊢
  split
  · rename_i hv; simp only [hv] at h; rw [doDiscard_active] at h; cases h
  · split <;> simp

theorem afterInput_counter_of_active (cfg : InCfg) (args : Args) (k0 : Key) (s : St) (o : Out) (a : Active)
    (h : (afterInput cfg args k0 s o).active = some a) : (afterInput cfg args k0 s o).counter = s.counter := by
  unfold afterInput at h ⊢
  split
  · simp
  · rename_i hv; simp only [hv] at h; rw [doDiscard_active] at h; cases h

theorem cnt_cons (a : String) (n : Nat) (c : List (String × Nat)) (al : String) :
    cnt ((a, n) :: c) al = if a = al then n else cnt c al := rfl

theorem cnt_bump (s : St) (a al : String) :
    cnt (bump s a).counter al = if a = al then cnt s.counter al + 1 else cnt s.counter al := by
  simp only [bump, cnt_cons]
  split
  · rename_i h; subst h; rfl
  · rfl

theorem active_of_intercept {s : St} (hp : s.playback = none) (hi : shouldIntercept s = true) : ∃ a, s.active = some a := by
  cases h : s.active with
  | some a => exact ⟨a, rfl⟩
  | none => simp [shouldIntercept, inRecordingMode, inPlaybackMode, hp, h] at hi

/-- (B) an output-result entry whose ordinal is not above the alias' counter still holds at the end: later calls on the
alias use larger ordinals -/
theorem outres_stable (al : String) (n : Nat) (v : RVal) (p : Prog)
    (hwf : p.All (fun cfg args _ => InputKeyShape cfg args) (fun _ _ _ => True)) (s : St) (hp : s.playback = none)
    (h : ∀ a, s.active = some a → getD a.data (.outRes al n) = some v ∧ n ≤ cnt s.counter al) :
    ∀ a', (exec s p).1.active = some a' → getD a'.data (.outRes al n) = some v := by
  have := exec_preserves' (fun cfg args _ => InputKeyShape cfg args) (fun _ _ _ => True)
    (fun t => t.playback = none ∧ ∀ a, t.active = some a → getD a.data (.outRes al n) = some v ∧ n ≤ cnt t.counter al)
    (by intro t e h; exact ⟨by simpa using h.1, fun a h1 => by simpa using h.2 a (by simpa using h1)⟩)
    (by intro t b h; exact ⟨by simpa using h.1, fun a h1 => by simpa using h.2 a (by simpa using h1)⟩)
    (by intro t h; exact ⟨by simpa using h.1, fun a h1 => by rw [doDiscard_active] at h1; cases h1⟩)
    (by intro t h; exact ⟨by simpa using h.1, fun a h1 => by simpa using h.2 a (by simpa using h1)⟩)
    (by
      intro t key v' h
      refine ⟨by simpa using h.1, ?_⟩
      intro a h1
      simp only [doRecordData_counter]
      unfold doRecordData at h1
      split at h1
      · rw [write_active] at h1
        cases hta : t.active with
        | none => simp [hta] at h1
        | some a0 =>
          simp only [hta, Option.map_some, Option.some.injEq] at h1
          subst h1
          simpa using h.2 a0 hta
      · exact h.2 a h1)
    (by
      intro t cfg args body _ h _
      refine ⟨by simpa using h.1, ?_⟩
      intro a h1
      rw [recordOutput_counter_of_active _ _ _ _ a h1]
      unfold recordOutput at h1
      split at h1
      · rw [doDiscard_active] at h1; cases h1
      · split at h1
        · rename_i hpm
          simp [inPlaybackMode, bump_playback, h.1] at hpm
        · rw [write_active] at h1
          cases hta : t.active with
          | none => simp [hta] at h1
          | some a0 =>
            simp only [bump_active, hta, Option.map_some, Option.some.injEq] at h1
            subst h1
            have := h.2 a0 hta
            refine ⟨by simpa using this.1, ?_⟩
            simp only [cnt_bump]
            split <;> omega)
    (by
      intro cfg args body kk fb t o hshape hkeys _ h
      refine ⟨by simpa using h.1, ?_⟩
      intro a h1
      obtain ⟨al', t', a', kw', rfl⟩ := hshape kk fb hkeys
      rw [afterInput_counter_of_active _ _ _ _ _ a h1]
      unfold afterInput at h1
      split at h1
      · rw [write_active] at h1
        cases hta : t.active with
        | none => simp [hta] at h1
        | some a0 =>
          simp only [hta, Option.map_some, Option.some.injEq] at h1
          subst h1
          simpa using h.2 a0 hta
      · rw [doDiscard_active] at h1; cases h1)
    (by
      intro cfg args body t t2 o _ ht hsi h2
      refine ⟨by simpa using h2.1, ?_⟩
      intro a h1
      obtain ⟨a0, ha0⟩ := active_of_intercept ht.1 hsi
      have hle := (ht.2 a0 ha0).2
      simp only [afterOutput_counter]
      unfold afterOutput at h1
      split at h1 <;>
      · rw [write_active] at h1
        cases hta : t2.active with
        | none => simp [hta] at h1
        | some a2 =>
          simp only [hta, Option.map_some, Option.some.injEq] at h1
          subst h1
          have := h2.2 a2 hta
          refine ⟨?_, this.2⟩
          simp only [getD_cons]
          split
          · rename_i heq
            injection heq with h1 h2
            subst h1
            omega
          · exact this.1)
    (by
      intro t b h
      refine ⟨by simpa using h.1, ?_⟩
      intro a h1
      obtain ⟨e, h0⟩ := doSetEnabled_of_active h1
      rw [e]; exact h.2 a h0)
    p hwf s ⟨hp, h⟩
  exact fun a' h' => (this.2 a' h').1

end PlaybackModel.Recorder
