import PlaybackModel.Heap
/-! Helper lemmas for C11: reading, allocation, the frame lemma for closed blocks, the client invariant. -/
namespace PlaybackModel.Heap

/-! ## optAll -/

theorem optAll_map_congr {α β : Type} (l : List α) (f g : α → Option β) (h : ∀ x ∈ l, f x = g x) :
    optAll (l.map f) = optAll (l.map g) := by
  induction l with
  | nil => rfl
  | cons a r ih =>
    have ha : f a = g a := h a (by simp)
    have hr : optAll (r.map f) = optAll (r.map g) := ih (fun x hx => h x (by simp [hx]))
    simp only [List.map_cons, ha]
    cases g a with
    | none => rfl
    | some y => simp only [optAll, hr]

theorem optAll_map_some {α β : Type} (l : List α) (f : α → Option β) (ts : List β)
    (h : optAll (l.map f) = some ts) (g : α → Option β) (hg : ∀ x ∈ l, ∀ t, f x = some t → g x = some t) :
    optAll (l.map g) = some ts := by
  induction l generalizing ts with
  | nil => simpa using h
  | cons a r ih =>
    simp only [List.map_cons] at h ⊢
    cases hfa : f a with
    | none => rw [hfa] at h; simp [optAll] at h
    | some y =>
      rw [hfa] at h
      rw [hg a (by simp) y hfa]
      simp only [optAll] at h ⊢
      cases hr : optAll (r.map f) with
      | none => rw [hr] at h; simp at h
      | some ys =>
        rw [hr] at h
        rw [ih ys hr (fun x hx t ht => hg x (by simp [hx]) t ht)]
        exact h

/-! ## reading -/

theorem getElem?_append_of_some {h e : Heap} {a : Nat} {c : Cell} (hc : h[a]? = some c) : (h ++ e)[a]? = some c := by
  have hlt : a < h.length := by
    rcases Nat.lt_or_ge a h.length with h1 | h1
    · exact h1
    · rw [List.getElem?_eq_none h1] at hc; cases hc
  rw [List.getElem?_append_left hlt]; exact hc

/-- a successful read is unaffected by appending cells -/
theorem hread_append (h e : Heap) : ∀ (f : Nat) (a : Addr) (t : Tree), hread h f a = some t → hread (h ++ e) f a = some t
  | 0, _, _, ht => by simp [hread] at ht
  | f + 1, a, t, ht => by
    rw [hread] at ht ⊢
    cases hc : h[a]? with
    | none => rw [hc] at ht; cases ht
    | some c =>
      rw [hc] at ht
      rw [getElem?_append_of_some hc]
      cases c with
      | atom s => exact ht
      | node k ls kids =>
        simp only at ht ⊢
        cases hk : optAll (kids.map (hread h f)) with
        | none => rw [hk] at ht; cases ht
        | some ts =>
          rw [hk] at ht
          rw [optAll_map_some kids (hread h f) ts hk (hread (h ++ e) f) (fun x _ t hx => hread_append h e f x t hx)]
          exact ht

/-- more fuel does not change a successful read -/
theorem hread_succ (h : Heap) : ∀ (f : Nat) (a : Addr) (t : Tree), hread h f a = some t → hread h (f + 1) a = some t
  | 0, _, _, ht => by simp [hread] at ht
  | f + 1, a, t, ht => by
    rw [hread] at ht ⊢
    cases hc : h[a]? with
    | none => rw [hc] at ht; cases ht
    | some c =>
      rw [hc] at ht
      cases c with
      | atom s => exact ht
      | node k ls kids =>
        simp only at ht ⊢
        cases hk : optAll (kids.map (hread h f)) with
        | none => rw [hk] at ht; cases ht
        | some ts =>
          rw [hk] at ht
          rw [optAll_map_some kids (hread h f) ts hk (hread h (f + 1)) (fun x _ t hx => hread_succ h f x t hx)]
          exact ht

theorem hread_mono (h : Heap) (f g : Nat) (a : Addr) (t : Tree) (ht : hread h f a = some t) (hfg : f ≤ g) :
    hread h g a = some t := by
  induction hfg with
  | refl => exact ht
  | step _ ih => exact hread_succ h _ a t ih

/-! ## closed blocks -/

/-- every cell of `[lo, hi)` exists and points only into `[lo, hi)` -/
def Closed (h : Heap) (lo hi : Nat) : Prop :=
  ∀ a, lo ≤ a → a < hi → ∃ c, h[a]? = some c ∧ ∀ p ∈ c.ptrs, lo ≤ p ∧ p < hi

theorem Closed.append {h : Heap} {lo hi : Nat} (hc : Closed h lo hi) (e : Heap) : Closed (h ++ e) lo hi := by
  intro a h1 h2
  obtain ⟨c, hcell, hp⟩ := hc a h1 h2
  exact ⟨c, getElem?_append_of_some hcell, hp⟩

theorem Closed.widen {h : Heap} {lo mid hi : Nat} (h1 : Closed h lo mid) (h2 : Closed h mid hi) (hlm : lo ≤ mid)
    (hmh : mid ≤ hi) : Closed h lo hi := by
  intro a ha1 ha2
  rcases Nat.lt_or_ge a mid with hlt | hge
  · obtain ⟨c, hcell, hp⟩ := h1 a ha1 hlt
    exact ⟨c, hcell, fun p hpm => ⟨(hp p hpm).1, Nat.lt_of_lt_of_le (hp p hpm).2 hmh⟩⟩
  · obtain ⟨c, hcell, hp⟩ := h2 a hge ha2
    exact ⟨c, hcell, fun p hpm => ⟨Nat.le_trans hlm (hp p hpm).1, (hp p hpm).2⟩⟩

theorem Closed.empty (h : Heap) (n : Nat) : Closed h n n := by
  intro a h1 h2; omega

/-- reads inside a closed block depend only on the cells of the block -/
theorem read_agree (h h' : Heap) (lo hi : Nat) (hc : Closed h lo hi)
    (hag : ∀ a, lo ≤ a → a < hi → h'[a]? = h[a]?) :
    ∀ (f : Nat) (a : Addr), lo ≤ a → a < hi → hread h' f a = hread h f a
  | 0, _, _, _ => by simp [hread]
  | f + 1, a, h1, h2 => by
    rw [hread, hread, hag a h1 h2]
    obtain ⟨c, hcell, hp⟩ := hc a h1 h2
    rw [hcell]
    cases c with
    | atom s => rfl
    | node k ls kids =>
      simp only
      rw [optAll_map_congr kids (hread h' f) (hread h f)
        (fun x hx => read_agree h h' lo hi hc hag f x (hp x hx).1 (hp x hx).2)]

theorem Closed.of_agree {h h' : Heap} {lo hi : Nat} (hc : Closed h lo hi)
    (hag : ∀ a, lo ≤ a → a < hi → h'[a]? = h[a]?) : Closed h' lo hi := by
  intro a h1 h2
  obtain ⟨c, hcell, hp⟩ := hc a h1 h2
  exact ⟨c, by rw [hag a h1 h2]; exact hcell, hp⟩

/-! ## allocation -/

structure AllocOK (h : Heap) (t : Tree) (r : Heap × Addr) : Prop where
  ext : ∃ e, r.1 = h ++ e
  lo : h.length ≤ r.2
  hi : r.2 < r.1.length
  rd : ∀ f, t.depth < f → hread r.1 f r.2 = some t
  closed : Closed r.1 h.length r.1.length

structure AllocListOK (h : Heap) (ts : List Tree) (r : Heap × List Addr) : Prop where
  ext : ∃ e, r.1 = h ++ e
  rng : ∀ a ∈ r.2, h.length ≤ a ∧ a < r.1.length
  rd : ∀ f, depthList ts < f → optAll (r.2.map (hread r.1 f)) = some ts
  closed : Closed r.1 h.length r.1.length
  len : r.2.length = ts.length

theorem length_le_of_ext {h r : Heap} (hx : ∃ e, r = h ++ e) : h.length ≤ r.length := by
  obtain ⟨e, rfl⟩ := hx; simp

mutual
  theorem alloc_ok : ∀ (t : Tree) (h : Heap), AllocOK h t (alloc h t)
    | .atom s, h => by
      rw [alloc]
      refine ⟨⟨_, rfl⟩, Nat.le_refl _, by simp, ?_, ?_⟩
      · intro f hf
        cases f with
        | zero => omega
        | succ f => simp [hread]
      · intro a h1 h2
        have : a = h.length := by simp at h2; omega
        subst this
        exact ⟨.atom s, by simp, by simp [Cell.ptrs]⟩
    | .node k ls kids, h => by
      have ih := allocList_ok kids h
      rw [alloc]
      generalize allocList h kids = r at ih
      obtain ⟨⟨e, he⟩, hrng, hrd, hcl, _⟩ := ih
      have hle : h.length ≤ r.1.length := length_le_of_ext ⟨e, he⟩
      refine ⟨⟨e ++ [.node k ls r.2], by simp [he]⟩, hle, by simp, ?_, ?_⟩
      · intro f hf
        cases f with
        | zero => omega
        | succ f =>
          have hd : depthList kids < f := by simp [Tree.depth] at hf; omega
          have h0 := hrd f hd
          rw [hread]
          simp only [List.getElem?_concat_length]
          rw [optAll_map_some r.2 (hread r.1 f) kids h0 (hread (r.1 ++ [Cell.node k ls r.2]) f)
            (fun x _ t hx => hread_append r.1 _ f x t hx)]
      · have hcl' := hcl.append [Cell.node k ls r.2]
        intro a h1 h2
        simp only [List.length_append, List.length_singleton] at h2
        rcases Nat.lt_or_ge a r.1.length with hlt | hge
        · obtain ⟨c, hcell, hp⟩ := hcl' a h1 hlt
          refine ⟨c, hcell, fun p hpm => ⟨(hp p hpm).1, ?_⟩⟩
          have := (hp p hpm).2
          simp only [List.length_append, List.length_singleton]; omega
        · have : a = r.1.length := by omega
          subst this
          refine ⟨.node k ls r.2, by simp, ?_⟩
          intro p hpm
          have := hrng p hpm
          simp only [List.length_append, List.length_singleton]; omega
  theorem allocList_ok : ∀ (ts : List Tree) (h : Heap), AllocListOK h ts (allocList h ts)
    | [], h => by
      rw [allocList]
      exact ⟨⟨[], by simp⟩, by simp, by intro f _; simp [optAll], Closed.empty _ _, rfl⟩
    | t :: ts, h => by
      have ih1 := alloc_ok t h
      rw [allocList]
      generalize alloc h t = r1 at ih1
      have ih2 := allocList_ok ts r1.1
      generalize allocList r1.1 ts = r2 at ih2
      obtain ⟨⟨e1, he1⟩, hlo1, hhi1, hrd1, hcl1⟩ := ih1
      obtain ⟨⟨e2, he2⟩, hrng2, hrd2, hcl2, hlen2⟩ := ih2
      have hle1 : h.length ≤ r1.1.length := length_le_of_ext ⟨e1, he1⟩
      have hle2 : r1.1.length ≤ r2.1.length := length_le_of_ext ⟨e2, he2⟩
      refine ⟨⟨e1 ++ e2, by simp [he2, he1]⟩, ?_, ?_, ?_, by simp [hlen2]⟩
      · intro a ha
        simp only [List.mem_cons] at ha
        rcases ha with rfl | ha
        · exact ⟨hlo1, Nat.lt_of_lt_of_le hhi1 hle2⟩
        · exact ⟨Nat.le_trans hle1 (hrng2 a ha).1, (hrng2 a ha).2⟩
      · intro f hf
        have hdt : t.depth < f := by simp [depthList] at hf; omega
        have hdts : depthList ts < f := by simp [depthList] at hf; omega
        have h1 : hread r2.1 f r1.2 = some t := by
          rw [he2]; exact hread_append r1.1 e2 f r1.2 t (hrd1 f hdt)
        simp only [List.map_cons, h1, optAll, hrd2 f hdts]
      · have hcl1' : Closed r2.1 h.length r1.1.length := by rw [he2]; exact hcl1.append e2
        exact hcl1'.widen hcl2 hle1 hle2
end

/-! ## the client invariant -/

/-- block `b` is private: inside the heap, closed, and none of its addresses can be named by the client -/
def BlockOK (h : Heap) (K : List Nat) (b : Block) : Prop :=
  b.hi ≤ h.length ∧ Closed h b.lo b.hi ∧ ∀ x ∈ K, ¬ (b.lo ≤ x ∧ x < b.hi)

def Inv3 (h : Heap) (K : List Nat) (O : List Block) : Prop :=
  (∀ x ∈ K, x < h.length) ∧ ∀ b ∈ O, BlockOK h K b

def Inv (st : St) : Prop := Inv3 st.heap st.known st.owned

/-- `st'` extends `st`: private blocks are kept, their cells are unchanged, the cassette only grew -/
def Ext3 (h : Heap) (O : List Block) (S : List Saved) (h' : Heap) (O' : List Block) (S' : List Saved) : Prop :=
  (∀ b ∈ O, b ∈ O') ∧ (∀ b ∈ O, ∀ a, b.lo ≤ a → a < b.hi → h'[a]? = h[a]?) ∧ (∃ e, S' = S ++ e) ∧
    h.length ≤ h'.length

def Ext (st st' : St) : Prop := Ext3 st.heap st.owned st.store st'.heap st'.owned st'.store

theorem Ext.refl (st : St) : Ext st st := ⟨fun _ hb => hb, fun _ _ _ _ _ => rfl, ⟨[], by simp⟩, Nat.le_refl _⟩

theorem Ext.trans {a b c : St} (h1 : Ext a b) (h2 : Ext b c) : Ext a c := by
  obtain ⟨o1, g1, ⟨e1, s1⟩, l1⟩ := h1
  obtain ⟨o2, g2, ⟨e2, s2⟩, l2⟩ := h2
  refine ⟨fun x hx => o2 x (o1 x hx), ?_, ⟨e1 ++ e2, by rw [s2, s1]; simp⟩, Nat.le_trans l1 l2⟩
  intro x hx y hy1 hy2
  rw [g2 x (o1 x hx) y hy1 hy2, g1 x hx y hy1 hy2]

theorem mem_range' {lo hi x : Nat} (h : x ∈ range' lo hi) : lo ≤ x ∧ x < hi := by
  simp only [range', List.mem_range'_1] at h
  omega

theorem inv3_append {h : Heap} {K : List Nat} {O : List Block} (hi : Inv3 h K O) (e : Heap) (ks : List Nat)
    (bs : List Block) (hks : ∀ x ∈ ks, h.length ≤ x ∧ x < (h ++ e).length)
    (hbs : ∀ b ∈ bs, h.length ≤ b.lo ∧ b.hi ≤ (h ++ e).length ∧ Closed (h ++ e) b.lo b.hi ∧
      ∀ x ∈ ks, ¬ (b.lo ≤ x ∧ x < b.hi)) :
    Inv3 (h ++ e) (K ++ ks) (O ++ bs) := by
  obtain ⟨hK, hO⟩ := hi
  have hlen : h.length ≤ (h ++ e).length := by simp
  constructor
  · intro x hx
    rcases List.mem_append.mp hx with hx | hx
    · exact Nat.lt_of_lt_of_le (hK x hx) hlen
    · exact (hks x hx).2
  · intro b hb
    rcases List.mem_append.mp hb with hb | hb
    · obtain ⟨b1, b2, b3⟩ := hO b hb
      refine ⟨Nat.le_trans b1 hlen, b2.append e, ?_⟩
      intro x hx
      rcases List.mem_append.mp hx with hx | hx
      · exact b3 x hx
      · have := (hks x hx).1; omega
    · obtain ⟨c1, c2, c3, c4⟩ := hbs b hb
      refine ⟨c2, c3, ?_⟩
      intro x hx
      rcases List.mem_append.mp hx with hx | hx
      · have := hK x hx; omega
      · exact c4 x hx

theorem ext3_append {h : Heap} {K : List Nat} {O : List Block} (hi : Inv3 h K O) (S : List Saved) (e : Heap)
    (bs : List Block) (se : List Saved) : Ext3 h O S (h ++ e) (O ++ bs) (S ++ se) := by
  refine ⟨fun b hb => List.mem_append_left _ hb, ?_, ⟨se, rfl⟩, by simp⟩
  intro b hb a _ h2
  have : a < h.length := Nat.lt_of_lt_of_le h2 (hi.2 b hb).1
  exact List.getElem?_append_left this

theorem inv3_write {h : Heap} {K : List Nat} {O : List Block} (hi : Inv3 h K O) (a : Nat) (c : Cell)
    (ha : a ∈ K) : Inv3 (write h a c) K O ∧ ∀ S, Ext3 h O S (write h a c) O S := by
  obtain ⟨hK, hO⟩ := hi
  have hag : ∀ b ∈ O, ∀ x, b.lo ≤ x → x < b.hi → (write h a c)[x]? = h[x]? := by
    intro b hb x h1 h2
    have hne : a ≠ x := by
      intro heq; subst heq
      exact (hO b hb).2.2 a ha ⟨h1, h2⟩
    simp [write, List.getElem?_set_ne hne]
  refine ⟨⟨?_, ?_⟩, fun S => ⟨fun _ hb => hb, hag, ⟨[], by simp⟩, by simp [write]⟩⟩
  · intro x hx; simpa [write] using hK x hx
  · intro b hb
    obtain ⟨b1, b2, b3⟩ := hO b hb
    exact ⟨by simpa [write] using b1, b2.of_agree (hag b hb), b3⟩

/-! ## every client operation preserves the invariant and extends the state -/

def Good (st st' : St) : Prop := Inv st' ∧ Ext st st'

theorem good_same {st st' : St} (hi : Inv st) (hh : st'.heap = st.heap) (hk : st'.known = st.known)
    (ho : st'.owned = st.owned) (hs : ∃ e, st'.store = st.store ++ e) : Good st st' := by
  refine ⟨?_, ?_⟩
  · unfold Inv; rw [hh, hk, ho]; exact hi
  · unfold Ext; rw [hh, ho]
    exact ⟨fun _ hb => hb, fun _ _ _ _ _ => rfl, hs, Nat.le_refl _⟩

theorem good_append {st st' : St} (hi : Inv st) (e : Heap) (ks : List Nat) (bs : List Block)
    (hh : st'.heap = st.heap ++ e) (hk : st'.known = st.known ++ ks) (ho : st'.owned = st.owned ++ bs)
    (hs : st'.store = st.store)
    (hks : ∀ x ∈ ks, st.heap.length ≤ x ∧ x < (st.heap ++ e).length)
    (hbs : ∀ b ∈ bs, st.heap.length ≤ b.lo ∧ b.hi ≤ (st.heap ++ e).length ∧ Closed (st.heap ++ e) b.lo b.hi ∧
      ∀ x ∈ ks, ¬ (b.lo ≤ x ∧ x < b.hi)) : Good st st' := by
  refine ⟨?_, ?_⟩
  · unfold Inv; rw [hh, hk, ho]; exact inv3_append hi e ks bs hks hbs
  · unfold Ext; rw [hh, ho, hs]
    have := ext3_append hi st.store e bs []
    simpa using this

theorem fetch_good (st : St) (id : Nat) (hi : Inv st) : Good st (fetch st id) := by
  unfold fetch
  cases hs : st.store[id]? with
  | none => exact ⟨hi, Ext.refl st⟩
  | some sv =>
    simp only
    have ok1 := allocList_ok (sv.data.map (·.2)) st.heap
    generalize allocList st.heap (sv.data.map (·.2)) = r1 at ok1
    have ok2 := alloc_ok sv.md r1.1
    generalize alloc r1.1 sv.md = r2 at ok2
    obtain ⟨e1, he1⟩ := ok1.ext
    obtain ⟨e2, he2⟩ := ok2.ext
    have hl1 : st.heap.length ≤ r1.1.length := length_le_of_ext ⟨e1, he1⟩
    have hl2 : r1.1.length ≤ r2.1.length := length_le_of_ext ⟨e2, he2⟩
    have hh : r2.1 = st.heap ++ (e1 ++ e2) := by rw [he2, he1]; simp
    refine good_append hi (e1 ++ e2) (range' r1.1.length r2.1.length) [⟨st.heap.length, r1.1.length⟩] hh rfl rfl rfl ?_ ?_
    · intro x hx
      have := mem_range' hx
      rw [← hh]; omega
    · intro b hb
      simp only [List.mem_singleton] at hb
      subst hb
      refine ⟨Nat.le_refl _, by rw [← hh]; exact hl2, ?_, ?_⟩
      · rw [← hh, he2]; exact ok1.closed.append e2
      · intro x hx
        have := mem_range' hx
        simp only; omega

theorem getData_good (cfg : Cfg) (hd : cfg.direct = false) (st : St) (r : Nat) (k : String) (hi : Inv st) :
    Good st (getData cfg st r k) := by
  unfold getData
  cases hr : rootOf st r k with
  | none => exact ⟨hi, Ext.refl st⟩
  | some root =>
    simp only [hd]
    have ok := alloc_ok (readD st.heap root) st.heap
    unfold copyAt
    generalize alloc st.heap (readD st.heap root) = c at ok
    obtain ⟨e, he⟩ := ok.ext
    refine good_append hi e (range' st.heap.length c.1.length) [] he rfl (by simp) rfl ?_ (by simp)
    intro x hx
    have := mem_range' hx
    rw [← he]; omega

theorem newVal_good (st : St) (t : Tree) (hi : Inv st) : Good st (newVal st t) := by
  unfold newVal
  have ok := alloc_ok t st.heap
  generalize alloc st.heap t = c at ok
  obtain ⟨e, he⟩ := ok.ext
  refine good_append hi e (range' st.heap.length c.1.length) [] he rfl (by simp) rfl ?_ (by simp)
  intro x hx
  have := mem_range' hx
  rw [← he]; omega

theorem mutate_good (st : St) (a : Nat) (c : Cell) (hi : Inv st) : Good st (mutate st a c) := by
  unfold mutate
  split
  · rename_i hc
    have ha : a ∈ st.known := by
      simp only [Bool.and_eq_true, List.contains_iff_mem] at hc
      exact hc.1
    obtain ⟨h1, h2⟩ := inv3_write hi a c ha
    exact ⟨h1, h2 st.store⟩
  · exact ⟨hi, Ext.refl st⟩

theorem getMeta_good (st : St) (r : Nat) (hi : Inv st) : Good st (getMeta st r) := by
  unfold getMeta
  split
  · exact ⟨hi, Ext.refl st⟩
  · exact good_same hi rfl rfl rfl ⟨[], by simp⟩

theorem setData_good (st : St) (r : Nat) (k : String) (a : Nat) (hi : Inv st) : Good st (setData st r k a) := by
  unfold setData
  split
  · exact ⟨hi, Ext.refl st⟩
  · split
    · exact good_same hi rfl rfl rfl ⟨[], by simp⟩
    · exact ⟨hi, Ext.refl st⟩

theorem save_good (st : St) (md : Tree) (hi : Inv st) : Good st (save st md) := by
  unfold save
  exact good_same hi rfl rfl rfl ⟨_, rfl⟩

theorem recordOut_good (st : St) (k : String) (args : List Nat) (kwl : List String) (kwa : List Nat) (hi : Inv st) :
    Good st (recordOut st k args kwl kwa) := by
  unfold recordOut
  split
  · exact good_append hi _ [] [] rfl (by simp) (by simp) rfl (by simp) (by simp)
  · exact ⟨hi, Ext.refl st⟩

theorem recordRaw_good (st : St) (k : String) (a : Nat) (hi : Inv st) : Good st (recordRaw st k a) := by
  unfold recordRaw
  split
  · exact good_same hi rfl rfl rfl ⟨[], by simp⟩
  · exact ⟨hi, Ext.refl st⟩

theorem recordIn_good (cfg : Cfg) (st : St) (k : String) (a : Nat) (hi : Inv st) :
    Good st (recordIn cfg st k a) := by
  unfold recordIn
  split
  · split
    · have ok := alloc_ok (.node "dict" ["value"] [readD st.heap a]) st.heap
      simp only
      generalize alloc st.heap (.node "dict" ["value"] [readD st.heap a]) = c at ok
      obtain ⟨e, he⟩ := ok.ext
      refine good_append hi e [] [⟨st.heap.length, c.1.length⟩] he (by simp) rfl rfl (by simp) ?_
      intro b hb
      simp only [List.mem_singleton] at hb
      subst hb
      exact ⟨Nat.le_refl _, by rw [← he]; exact Nat.le_refl _, by rw [← he]; exact ok.closed, by simp⟩
    · exact good_append hi _ [] [] rfl (by simp) (by simp) rfl (by simp) (by simp)
  · exact ⟨hi, Ext.refl st⟩

theorem Good.trans {a b c : St} (h1 : Good a b) (h2 : Good b c) : Good a c := ⟨h2.1, h1.2.trans h2.2⟩

theorem fold_getData_good (cfg : Cfg) (hd : cfg.direct = false) (r : Nat) :
    ∀ (ks : List String) (st0 st : St), Good st0 st → Good st0 (ks.foldl (fun s k => getData cfg s r k) st)
  | [], _, _, h => h
  | k :: ks, st0, st, h =>
    fold_getData_good cfg hd r ks st0 _ (h.trans (getData_good cfg hd st r k h.1))

theorem replay_good (cfg : Cfg) (hd : cfg.direct = false) (st : St) (id : Nat) (hi : Inv st) :
    Good st (replay cfg st id) := by
  unfold replay
  split
  · exact ⟨hi, Ext.refl st⟩
  · exact fold_getData_good cfg hd _ _ st _ (fetch_good st id hi)

theorem runOp_good (cfg : Cfg) (hd : cfg.direct = false) (st : St) (op : ClientOp) (hi : Inv st) :
    Good st (runOp cfg st op) := by
  cases op with
  | fetch id => exact fetch_good st id hi
  | getData r k => exact getData_good cfg hd st r k hi
  | getMeta r => exact getMeta_good st r hi
  | setData r k a => exact setData_good st r k a hi
  | new t => exact newVal_good st t hi
  | mutate a c => exact mutate_good st a c hi
  | replay id => exact replay_good cfg hd st id hi
  | recordIn k a => exact recordIn_good cfg st k a hi
  | recordOut k args kwl kwa => exact recordOut_good st k args kwl kwa hi
  | recordRaw k a => exact recordRaw_good st k a hi
  | save m => exact save_good st m hi

theorem runClient_good (cfg : Cfg) (hd : cfg.direct = false) :
    ∀ (ops : List ClientOp) (st : St), Inv st → Good st (runClient cfg st ops)
  | [], st, hi => ⟨hi, Ext.refl st⟩
  | op :: ops, st, hi => by
    have h1 := runOp_good cfg hd st op hi
    have h2 := runClient_good cfg hd ops (runOp cfg st op) h1.1
    exact h1.trans h2

theorem inv_init (store : List Saved) : Inv (init store) := by
  refine ⟨by simp [init], by simp [init]⟩

/-- the frame property for every client program: cells of private blocks read the same afterwards -/
theorem reads_stable (cfg : Cfg) (hd : cfg.direct = false) (st : St) (hi : Inv st) (ops : List ClientOp)
    (b : Block) (hb : b ∈ st.owned) (root : Nat) (h1 : b.lo ≤ root) (h2 : root < b.hi) (f : Nat) :
    hread (runClient cfg st ops).heap f root = hread st.heap f root := by
  obtain ⟨_, _, hag, _, _⟩ := runClient_good cfg hd ops st hi
  exact read_agree st.heap _ b.lo b.hi (hi.2 b hb).2.1 (hag b hb) f root h1 h2

/-! ## the frame lemma in terms of reachability -/

theorem hread_frame (h : Heap) (x : Nat) (c : Cell) :
    ∀ (f : Nat) (a : Nat), x ∉ reach h f a → hread (write h x c) f a = hread h f a
  | 0, _, _ => by simp [hread]
  | f + 1, a, hx => by
    rw [reach] at hx
    have hne : x ≠ a := by
      intro heq; subst heq
      cases hc : h[x]? with
      | none => simp [hc] at hx
      | some cell => cases cell <;> simp [hc] at hx
    have hget : (write h x c)[a]? = h[a]? := by simp [write, List.getElem?_set_ne hne]
    rw [hread, hread, hget]
    cases hc : h[a]? with
    | none => rfl
    | some cell =>
      cases cell with
      | atom s => rfl
      | node k ls kids =>
        simp only
        rw [hc] at hx
        simp only [List.mem_cons, List.mem_flatten, List.mem_map, not_or, not_exists, not_and] at hx
        rw [optAll_map_congr kids (hread (write h x c) f) (hread h f)
          (fun y hy => hread_frame h x c f y (fun hmem => hx.2 _ ⟨y, hy, rfl⟩ hmem))]

/-! ## successful reads -/

inductive Forall2 {α β : Type} (R : α → β → Prop) : List α → List β → Prop where
  | nil : Forall2 R [] []
  | cons {a b l1 l2} : R a b → Forall2 R l1 l2 → Forall2 R (a :: l1) (b :: l2)

theorem Forall2.imp {α β : Type} {R S : α → β → Prop} (hRS : ∀ a b, R a b → S a b) :
    ∀ {l1 : List α} {l2 : List β}, Forall2 R l1 l2 → Forall2 S l1 l2
  | _, _, .nil => .nil
  | _, _, .cons h t => .cons (hRS _ _ h) (Forall2.imp hRS t)

/-- `a` reads as `t` with the default fuel -/
def Reads (h : Heap) (a : Nat) (t : Tree) : Prop := ∃ f, f ≤ h.length + 1 ∧ hread h f a = some t

theorem Reads.readD {h : Heap} {a : Nat} {t : Tree} (hr : Reads h a t) : readD h a = t := by
  obtain ⟨f, hf, hr⟩ := hr
  simp [PlaybackModel.Heap.readD, hread_mono h f _ a t hr hf]

theorem Reads.append {h : Heap} {a : Nat} {t : Tree} (hr : Reads h a t) (e : Heap) : Reads (h ++ e) a t := by
  obtain ⟨f, hf, hr⟩ := hr
  exact ⟨f, by simp; omega, hread_append h e f a t hr⟩

mutual
  theorem alloc_len : ∀ (t : Tree) (h : Heap), h.length + t.depth ≤ (alloc h t).1.length
    | .atom s, h => by simp [alloc, Tree.depth]
    | .node k ls kids, h => by
      have := allocList_len kids h
      rw [alloc]
      simp only [Tree.depth, List.length_append, List.length_singleton]
      omega
  theorem allocList_len : ∀ (ts : List Tree) (h : Heap), h.length + depthList ts ≤ (allocList h ts).1.length
    | [], h => by simp [allocList, depthList]
    | t :: ts, h => by
      have h1 := alloc_len t h
      have h2 := allocList_len ts (alloc h t).1
      have h3 : (alloc h t).1.length ≤ (allocList (alloc h t).1 ts).1.length :=
        length_le_of_ext (allocList_ok ts (alloc h t).1).ext
      rw [allocList]
      simp only [depthList]; omega
end

theorem alloc_reads (h : Heap) (t : Tree) : Reads (alloc h t).1 (alloc h t).2 t :=
  ⟨t.depth + 1, by have := alloc_len t h; omega, (alloc_ok t h).rd _ (Nat.lt_succ_self _)⟩

theorem optAll_some_forall {α β : Type} (f : α → Option β) :
    ∀ (l : List α) (ts : List β), optAll (l.map f) = some ts → Forall2 (fun x t => f x = some t) l ts
  | [], ts, h => by simp [optAll] at h; subst h; exact .nil
  | a :: r, ts, h => by
    simp only [List.map_cons] at h
    cases hfa : f a with
    | none => rw [hfa] at h; simp [optAll] at h
    | some y =>
      rw [hfa] at h
      simp only [optAll] at h
      cases hr : optAll (r.map f) with
      | none => rw [hr] at h; simp at h
      | some ys =>
        rw [hr] at h
        simp only [Option.some.injEq] at h
        subst h
        exact .cons hfa (optAll_some_forall f r ys hr)

theorem allocList_reads (h : Heap) (ts : List Tree) :
    Forall2 (fun a t => Reads (allocList h ts).1 a t) (allocList h ts).2 ts := by
  have ok := allocList_ok ts h
  have hl := allocList_len ts h
  have := optAll_some_forall _ _ _ (ok.rd (depthList ts + 1) (Nat.lt_succ_self _))
  refine Forall2.imp ?_ this
  intro a t hat
  exact ⟨depthList ts + 1, by omega, hat⟩

/-! ## what `fetch`, `getData` and `replay` hand out is a function of the cassette's text -/

/-- the text stored for key `k` (first match, like the `lookup` of the live object) -/
def storedTree (sv : Saved) (k : String) : Option Tree := sv.data.lookup k

theorem lookup_zip_reads (H : Heap) (k : String) :
    ∀ (ks : List String) (roots : List Nat) (ts : List Tree), Forall2 (fun a t => Reads H a t) roots ts →
      ks.length = ts.length →
      ((ks.zip roots).lookup k).map (PlaybackModel.Heap.readD H) = (ks.zip ts).lookup k ∧
      ∀ root, (ks.zip roots).lookup k = some root → ∃ t, (ks.zip ts).lookup k = some t ∧ Reads H root t
  | [], _, _, _, _ => by simp
  | k' :: ks, _, _, .nil, hl => by simp at hl
  | k' :: ks, a :: roots, t :: ts, .cons hat hrest, hl => by
    have ih := lookup_zip_reads H k ks roots ts hrest (by simpa using hl)
    simp only [List.zip_cons_cons, List.lookup_cons]
    cases hk : k == k' with
    | true => simp [hat.readD, hat]
    | false => simpa using ih

theorem zip_fst_snd {α β : Type} (l : List (α × β)) : (l.map (·.1)).zip (l.map (·.2)) = l := by
  induction l with
  | nil => rfl
  | cons a r ih => simp [ih]

/-- after a fetch, every key of the new recording object reads as the stored text -/
theorem fetch_view (st : St) (id : Nat) (sv : Saved) (hs : st.store[id]? = some sv) (k : String) :
    viewData (fetch st id) st.recs.length k = storedTree sv k ∧
    (fetch st id).handed = st.handed ∧ (fetch st id).recs.length = st.recs.length + 1 ∧
    ∀ root, rootOf (fetch st id) st.recs.length k = some root →
      ∃ t, storedTree sv k = some t ∧ Reads (fetch st id).heap root t := by
  unfold viewData rootOf fetch storedTree
  simp only [hs, List.getElem?_concat_length, List.length_append, List.length_singleton]
  have hr := allocList_reads st.heap (sv.data.map (·.2))
  generalize allocList st.heap (sv.data.map (·.2)) = r1 at hr
  have ok2 := alloc_ok sv.md r1.1
  generalize alloc r1.1 sv.md = r2 at ok2
  obtain ⟨e2, he2⟩ := ok2.ext
  have hr' : Forall2 (fun a t => Reads r2.1 a t) r1.2 (sv.data.map (·.2)) := by
    refine Forall2.imp ?_ hr
    intro a t hat; rw [he2]; exact hat.append e2
  have := lookup_zip_reads r2.1 k (sv.data.map (·.1)) r1.2 (sv.data.map (·.2)) hr' (by simp)
  rw [zip_fst_snd] at this
  exact ⟨this.1, trivial, trivial, this.2⟩

/-- a (non-direct) `getData` hands out a fresh address that reads as the value under the root; nothing else moves -/
theorem getData_view (cfg : Cfg) (hd : cfg.direct = false) (st : St) (r : Nat) (k : String) (root : Nat) (t : Tree)
    (hroot : rootOf st r k = some root) (hrd : Reads st.heap root t) :
    ∃ e a, (getData cfg st r k).heap = st.heap ++ e ∧ (getData cfg st r k).handed = st.handed ++ [a] ∧
      (getData cfg st r k).recs = st.recs ∧ (getData cfg st r k).store = st.store ∧
      Reads (getData cfg st r k).heap a t := by
  unfold getData
  simp only [hroot, hd]
  unfold copyAt
  rw [hrd.readD]
  obtain ⟨e, he⟩ := (alloc_ok t st.heap).ext
  exact ⟨e, (alloc st.heap t).2, he, rfl, rfl, rfl, alloc_reads st.heap t⟩

theorem fold_getData_view (cfg : Cfg) (hd : cfg.direct = false) (r : Nat) (T : String → Option Tree) :
    ∀ (ks : List String) (st : St),
      (∀ k ∈ ks, ∃ root t, rootOf st r k = some root ∧ T k = some t ∧ Reads st.heap root t) →
      ∃ e hs, (ks.foldl (fun s k => getData cfg s r k) st).heap = st.heap ++ e ∧
        (ks.foldl (fun s k => getData cfg s r k) st).handed = st.handed ++ hs ∧
        (ks.foldl (fun s k => getData cfg s r k) st).store = st.store ∧
        hs.map (fun a => some (PlaybackModel.Heap.readD (ks.foldl (fun s k => getData cfg s r k) st).heap a)) = ks.map T
  | [], st, _ => ⟨[], [], by simp, by simp, rfl, by simp⟩
  | k :: ks, st, hk => by
    obtain ⟨root, t, hroot, hT, hrd⟩ := hk k (by simp)
    obtain ⟨e1, a, h1, h2, h3, h4, h5⟩ := getData_view cfg hd st r k root t hroot hrd
    have hk' : ∀ k' ∈ ks, ∃ root t, rootOf (getData cfg st r k) r k' = some root ∧ T k' = some t ∧
        Reads (getData cfg st r k).heap root t := by
      intro k' hk'
      obtain ⟨root', t', a1, a2, a3⟩ := hk k' (by simp [hk'])
      refine ⟨root', t', ?_, a2, ?_⟩
      · unfold rootOf at a1 ⊢; rw [h3]; exact a1
      · rw [h1]; exact a3.append e1
    obtain ⟨e2, hs, g1, g2, g3, g4⟩ := fold_getData_view cfg hd r T ks (getData cfg st r k) hk'
    refine ⟨e1 ++ e2, a :: hs, ?_, ?_, ?_, ?_⟩
    · simp only [List.foldl_cons]; rw [g1, h1]; simp
    · simp only [List.foldl_cons]; rw [g2, h2]; simp
    · simp only [List.foldl_cons]; rw [g3, h4]
    · simp only [List.foldl_cons, List.map_cons]
      rw [g4]
      congr 1
      rw [g1]
      rw [(h5.append e2).readD, hT]

/-- the values handed out by `play(id)` -/
def storedReplay (S : List Saved) (id : Nat) : List (Option Tree) :=
  match S[id]? with
  | none => []
  | some sv => (sv.data.map (·.1)).map (storedTree sv)

theorem replay_view (cfg : Cfg) (hd : cfg.direct = false) (st : St) (id : Nat) :
    (replayView cfg st id).map some = storedReplay st.store id := by
  unfold replayView storedReplay replay
  cases hs : st.store[id]? with
  | none => simp
  | some sv =>
    simp only
    have hk : ∀ k ∈ sv.data.map (·.1), ∃ root t, rootOf (fetch st id) st.recs.length k = some root ∧
        storedTree sv k = some t ∧ Reads (fetch st id).heap root t := by
      intro k hk
      obtain ⟨hv, _, _, hroots⟩ := fetch_view st id sv hs k
      -- the key is present in the stored text, hence in the new object
      have hpres : ∃ t, storedTree sv k = some t := by
        unfold storedTree
        simp only [List.mem_map] at hk
        obtain ⟨⟨k', t'⟩, hmem, rfl⟩ := hk
        cases hl : sv.data.lookup k' with
        | some t => exact ⟨t, rfl⟩
        | none =>
          rw [List.lookup_eq_none_iff] at hl
          have := hl (k', t') hmem
          simp at this
      obtain ⟨t, ht⟩ := hpres
      unfold viewData at hv
      rw [ht] at hv
      cases hro : rootOf (fetch st id) st.recs.length k with
      | none => rw [hro] at hv; simp at hv
      | some root =>
        obtain ⟨t', ht', hrd⟩ := hroots root hro
        exact ⟨root, t', rfl, ht', hrd⟩
    obtain ⟨e, hsx, g1, g2, g3, g4⟩ :=
      fold_getData_view cfg hd st.recs.length (storedTree sv) (sv.data.map (·.1)) (fetch st id) hk
    rw [g2, (fetch_view st id sv hs "").2.1]
    simp only [List.drop_left, List.map_map] at g4 ⊢
    exact g4

theorem fetchView_eq (st : St) (id : Nat) :
    fetchView st id = match st.store[id]? with
      | none => []
      | some sv => (sv.data.map (·.1)).map (fun k => (k, storedTree sv k)) := by
  unfold fetchView
  cases hs : st.store[id]? with
  | none => rfl
  | some sv =>
    simp only
    apply List.map_congr_left
    intro k _
    rw [(fetch_view st id sv hs k).1]

theorem store_prefix {S e : List Saved} {id : Nat} (h : id < S.length) : (S ++ e)[id]? = S[id]? :=
  List.getElem?_append_left h

/-! ## odds and ends for the property theorems -/

theorem reach_closed (h : Heap) (lo hi : Nat) (hc : Closed h lo hi) :
    ∀ (f : Nat) (a : Nat), lo ≤ a → a < hi → ∀ x ∈ reach h f a, lo ≤ x ∧ x < hi
  | 0, _, _, _, x, hx => by simp [reach] at hx
  | f + 1, a, h1, h2, x, hx => by
    obtain ⟨c, hcell, hp⟩ := hc a h1 h2
    rw [reach, hcell] at hx
    cases c with
    | atom s =>
      simp only [List.mem_singleton] at hx
      subst hx; exact ⟨h1, h2⟩
    | node k ls kids =>
      simp only [List.mem_cons, List.mem_flatten, List.mem_map] at hx
      rcases hx with rfl | ⟨l, ⟨y, hy, rfl⟩, hxl⟩
      · exact ⟨h1, h2⟩
      · exact reach_closed h lo hi hc f y (hp y hy).1 (hp y hy).2 x hxl

theorem lookup_assocSet (l : List (String × Nat)) (k : String) (v : Nat) : (assocSet l k v).lookup k = some v := by
  induction l with
  | nil => simp [assocSet]
  | cons kv r ih =>
    obtain ⟨k', v'⟩ := kv
    unfold assocSet
    split
    · simp [List.lookup]
    · rename_i hne
      have : (k == k') = false := by simpa using fun h => hne h.symm
      simp only [List.lookup, this]
      exact ih

theorem lookup_zip_mem {α : Type} (k : String) :
    ∀ (ks : List String) (vs : List α) (v : α), (ks.zip vs).lookup k = some v → v ∈ vs
  | [], _, _, h => by simp at h
  | _ :: _, [], _, h => by simp at h
  | k' :: ks, a :: vs, v, h => by
    simp only [List.zip_cons_cons, List.lookup_cons] at h
    cases hk : k == k' with
    | true => rw [hk] at h; simp only [Option.some.injEq] at h; subst h; simp
    | false => rw [hk] at h; exact List.mem_cons_of_mem _ (lookup_zip_mem k ks vs v h)

/-- the key roots of a freshly fetched recording object lie in the block that the fetch made private -/
theorem fetch_roots_private (st : St) (id : Nat) (sv : Saved) (hs : st.store[id]? = some sv) (k : String) (root : Nat)
    (hr : rootOf (fetch st id) st.recs.length k = some root) :
    ∃ b ∈ (fetch st id).owned, b.lo ≤ root ∧ root < b.hi := by
  unfold rootOf fetch at hr
  simp only [hs, List.getElem?_concat_length] at hr
  unfold fetch
  simp only [hs]
  have ok := allocList_ok (sv.data.map (·.2)) st.heap
  generalize allocList st.heap (sv.data.map (·.2)) = r1 at ok hr
  refine ⟨⟨st.heap.length, r1.1.length⟩, by simp, ?_⟩
  exact ok.rng root (lookup_zip_mem k _ _ root hr)

theorem readD_stable {h h' : Heap} {a : Nat} {t : Tree} (hr : Reads h a t) (hl : h.length ≤ h'.length)
    (hs : ∀ f, hread h' f a = hread h f a) : readD h' a = t := by
  obtain ⟨f, hf, hrd⟩ := hr
  have : hread h' (h'.length + 1) a = some t := by
    rw [hs]; exact hread_mono h f _ a t hrd (by omega)
  simp [readD, this]

/-! ## the key table of a live recording object changes only through `setData` on that object -/

def touchesRec (r : Nat) : ClientOp → Bool
  | .setData r' _ _ => r' == r
  | _ => false

theorem getData_recs (cfg : Cfg) (st : St) (r : Nat) (k : String) : (getData cfg st r k).recs = st.recs := by
  unfold getData
  split
  · rfl
  · split <;> rfl

theorem fold_getData_recs (cfg : Cfg) (r : Nat) :
    ∀ (ks : List String) (st : St), (ks.foldl (fun s k => getData cfg s r k) st).recs = st.recs
  | [], _ => rfl
  | k :: ks, st => by
    simp only [List.foldl_cons]
    rw [fold_getData_recs cfg r ks, getData_recs]

theorem fetch_recs (st : St) (id : Nat) : ∃ e, (fetch st id).recs = st.recs ++ e := by
  unfold fetch
  split
  · exact ⟨[], by simp⟩
  · exact ⟨_, rfl⟩

theorem runOp_recs (cfg : Cfg) (st : St) (op : ClientOp) (r : Nat) (hr : r < st.recs.length)
    (hop : touchesRec r op = false) :
    (runOp cfg st op).recs[r]? = st.recs[r]? ∧ st.recs.length ≤ (runOp cfg st op).recs.length := by
  cases op with
  | fetch id =>
    obtain ⟨e, he⟩ := fetch_recs st id
    simp only [runOp, he, List.length_append]
    exact ⟨List.getElem?_append_left hr, by omega⟩
  | getData r' k => simp [runOp, getData_recs]
  | getMeta r' =>
    simp only [runOp, getMeta]
    split <;> simp
  | setData r' k a =>
    have hne : r' ≠ r := by simpa [touchesRec] using hop
    simp only [runOp, setData]
    split
    · simp
    · split
      · simp [List.getElem?_set_ne hne]
      · simp
  | new t => simp [runOp, newVal]
  | mutate a c =>
    simp only [runOp, mutate]
    split <;> simp
  | replay id =>
    simp only [runOp, replay]
    split
    · simp
    · rw [fold_getData_recs]
      obtain ⟨e, he⟩ := fetch_recs st id
      rw [he, List.length_append]
      exact ⟨List.getElem?_append_left hr, by omega⟩
  | recordIn k a =>
    simp only [runOp, recordIn]
    split
    · split <;> simp
    · simp
  | recordOut k args kwl kwa =>
    simp only [runOp, recordOut]
    split <;> simp
  | recordRaw k a =>
    simp only [runOp, recordRaw]
    split <;> simp
  | save m => simp [runOp, save]

theorem runClient_recs (cfg : Cfg) (r : Nat) :
    ∀ (ops : List ClientOp) (st : St), r < st.recs.length → (∀ op ∈ ops, touchesRec r op = false) →
      (runClient cfg st ops).recs[r]? = st.recs[r]?
  | [], _, _, _ => rfl
  | op :: ops, st, hr, hops => by
    obtain ⟨h1, h2⟩ := runOp_recs cfg st op r hr (hops op (by simp))
    have := runClient_recs cfg r ops (runOp cfg st op) (by omega) (fun o ho => hops o (by simp [ho]))
    simp only [runClient, List.foldl_cons] at this ⊢
    rw [this, h1]

end PlaybackModel.Heap
