import PlaybackModel.Cassette
import PlaybackProofs.Keys
/-! Helper lemmas about the cassette stores: association lists, object names, what a fetch of a saved blob returns. -/
namespace PlaybackModel.Cassette
open PlaybackModel.Codec

/-! ### stores -/
@[simp] theorem Store.get_set (s : Store) (n m : String) (b : Blob) :
    Store.get (Store.set s n b) m = if m = n then some b else Store.get s m := by
  simp [Store.set, Store.get]

@[simp] theorem Store.get_nil (m : String) : Store.get [] m = none := rfl

/-! ### fields -/
theorem canonF_set (k : String) (v : Val) (hk : isReserved k = false) :
    (fs : Fields) → k ∉ fs.keys → canonF (fs.set k v) = Fields.insert k (canon v) (canonF fs)
  | .nil, _ => by simp [Fields.set, canonF, hk]
  | .cons k' v' fs, h => by
    simp only [Fields.keys, List.mem_cons, not_or] at h
    simp only [Fields.set, h.1, if_false, canonF, canonF_set k v hk fs h.2]
    split
    · rfl
    · exact Fields.insert_comm k' k _ _ (fun e => h.1 e.symm) _

theorem canonF_keys_sub : (fs : Fields) → (x : String) → x ∈ (canonF fs).keys → x ∈ fs.keys
  | .nil, x, h => by simp [canonF, Fields.keys] at h
  | .cons k v fs, x, h => by
    simp only [canonF] at h
    simp only [Fields.keys, List.mem_cons]
    split at h
    · exact Or.inr (canonF_keys_sub fs x h)
    · rw [Fields.keys_insert] at h
      rcases h with h | h
      · exact Or.inl h
      · exact Or.inr (canonF_keys_sub fs x h)

theorem canonF_keys (x : String) : (fs : Fields) → fs.NoReserved → (x ∈ (canonF fs).keys ↔ x ∈ fs.keys)
  | .nil, _ => by simp [canonF]
  | .cons k v fs, h => by
    simp [canonF, h.1, Fields.keys_insert, Fields.keys, canonF_keys x fs h.2]

theorem Fields.pop_insert (k : String) (v : Val) :
    (fs : Fields) → k ∉ fs.keys → Fields.pop k (Fields.insert k v fs) = (some v, fs)
  | .nil, _ => by simp [Fields.insert, Fields.pop]
  | .cons k' v' fs, h => by
    simp only [Fields.keys, List.mem_cons, not_or] at h
    simp only [Fields.insert]
    split
    · simp [Fields.pop]
    · simp [Fields.pop, h.1, Fields.pop_insert k v fs h.2]

theorem Fields.lookup_insert (k x : String) (v : Val) :
    (fs : Fields) → k ∉ fs.keys → (Fields.insert k v fs).lookup x = if x = k then some v else fs.lookup x
  | .nil, _ => by simp [Fields.insert, Fields.lookup]
  | .cons k' v' fs, h => by
    simp only [Fields.keys, List.mem_cons, not_or] at h
    simp only [Fields.insert]
    split
    · simp [Fields.lookup]
    · simp only [Fields.lookup, Fields.lookup_insert k x v fs h.2]
      by_cases e : x = k'
      · simp [e]
        intro e2; exact absurd e2.symm h.1
      · simp [e]

theorem Fields.lookup_none_of_not_mem (x : String) : (fs : Fields) → x ∉ fs.keys → fs.lookup x = none
  | .nil, _ => by simp [Fields.lookup]
  | .cons k v fs, h => by
    simp only [Fields.keys, List.mem_cons, not_or] at h
    simp [Fields.lookup, h.1, Fields.lookup_none_of_not_mem x fs h.2]

/-- each key of a fetched dict carries the round-tripped value that was stored under it -/
theorem canonF_lookup (x : String) :
    (fs : Fields) → fs.NoReserved → fs.DistinctKeys → (canonF fs).lookup x = (fs.lookup x).map canon
  | .nil, _, _ => by simp [canonF, Fields.lookup]
  | .cons k v fs, hr, hd => by
    have hk : k ∉ (canonF fs).keys := fun m => hd.1 (canonF_keys_sub fs k m)
    simp only [canonF, hr.1, Fields.lookup]
    rw [show (if false = true then canonF fs else Fields.insert k (canon v) (canonF fs)) =
      Fields.insert k (canon v) (canonF fs) from by simp]
    rw [Fields.lookup_insert k x _ _ hk, canonF_lookup x fs hr.2 hd.2]
    by_cases e : x = k <;> simp [e]

/-! ### fetching a saved blob -/
theorem canon_recordingVal (r : Recording) :
    canon (recordingVal r) = .obj recordingClass
      (.cons "_closed" (.bool false) (.cons "id" (.str r.id)
        (.cons "recording_data" (.dict (canonF r.data)) (.cons "recording_metadata" (.dict (canonF r.metadata)) .nil)))) := by
  have r1 : isReserved "id" = false := by decide
  have r2 : isReserved "_closed" = false := by decide
  have r3 : isReserved "recording_data" = false := by decide
  have r4 : isReserved "recording_metadata" = false := by decide
  have l1 : "recording_data" < "recording_metadata" := by decide
  have l2 : ¬ "_closed" > "recording_data" := by decide
  have l3 : "_closed" < "recording_data" := by decide
  have l4 : "id" < "recording_data" := by decide
  have l5 : ¬ "id" < "_closed" := by decide
  have l6 : "_closed" < "id" := by decide
  simp [recordingVal, canon, canonF, objCanon, r1, r2, r3, r4, Fields.insert, l1, l3, l4, l5]

theorem decodeObject_enc (r : Recording) : decodeObject (encToks (recordingVal r)) = .ok r.canon := by
  have e1 : ("id" = "_closed") = False := by decide
  have e2 : ("recording_data" = "_closed") = False := by decide
  have e3 : ("recording_data" = "id") = False := by decide
  have e4 : ("recording_metadata" = "_closed") = False := by decide
  have e5 : ("recording_metadata" = "id") = False := by decide
  have e6 : ("recording_metadata" = "recording_data") = False := by decide
  simp [decodeObject, decodeToks_encToks, canon_recordingVal, recordingOfVal, Fields.lookup, Recording.canon,
    e1, e2, e3, e4, e5, e6]

theorem s3_decode_full (z : Zip) (hz : z.Lawful) (r : Recording) (h : "_metadata" ∉ r.data.keys) :
    (match decodeToks (z.decompress (z.compress (encToks (s3FullVal r)))) with
      | some v => s3RecordingOfVal r.id v
      | none => .error .decodeError) = .ok r.canon := by
  have hk : isReserved "_metadata" = false := by decide
  have hm : "_metadata" ∉ (canonF r.data).keys := fun m => h (canonF_keys_sub _ _ m)
  rw [hz, decodeToks_encToks]
  simp [s3FullVal, canon, canonF_set "_metadata" _ hk r.data h, s3RecordingOfVal,
    Fields.pop_insert "_metadata" _ _ hm, Recording.canon]

/-! ### names -/
theorem fullKey_ne_metaKey (kp i j : String) : fullKey kp i ≠ metaKey kp j := by
  intro h
  unfold fullKey metaKey at h
  generalize "tape_recorder_recordings/" = root at h
  generalize normPrefix kp = np at h
  have h' := congrArg String.toList h
  simp only [String.toList_append, List.append_assoc] at h'
  have h2 := List.append_cancel_left (List.append_cancel_left h')
  have e1 : "full/".toList = ['f', 'u', 'l', 'l', '/'] := by decide
  have e2 : "metadata/".toList = ['m', 'e', 't', 'a', 'd', 'a', 't', 'a', '/'] := by decide
  rw [e1, e2] at h2
  simp at h2

theorem fullKey_inj (kp i j : String) (h : fullKey kp i = fullKey kp j) : i = j := by
  unfold fullKey at h
  generalize "tape_recorder_recordings/" ++ normPrefix kp ++ "full/" = p at h
  have h' := congrArg String.toList h
  simp only [String.toList_append] at h'
  exact String.toList_inj.mp (List.append_cancel_left h')

theorem metaKey_inj (kp i j : String) (h : metaKey kp i = metaKey kp j) : i = j := by
  unfold metaKey at h
  generalize "tape_recorder_recordings/" ++ normPrefix kp ++ "metadata/" = p at h
  have h' := congrArg String.toList h
  simp only [String.toList_append] at h'
  exact String.toList_inj.mp (List.append_cancel_left h')

theorem replaceSlash_noSlash : (cs : List Char) → '/' ∉ cs → replaceSlash cs = cs
  | [], _ => rfl
  | c :: cs, h => by
    simp only [List.mem_cons, not_or] at h
    have hc : c ≠ '/' := fun e => h.1 e.symm
    have := replaceSlash_noSlash cs h.2
    simp only [replaceSlash] at this
    simp [replaceSlash, hc, this]

theorem replaceSlash_idwf (cat u : List Char) (h1 : '/' ∉ cat) (h2 : '/' ∉ u) :
    replaceSlash (cat ++ '/' :: u) = cat ++ '_' :: u := by
  have a := replaceSlash_noSlash cat h1
  have b := replaceSlash_noSlash u h2
  simp only [replaceSlash] at a b
  simp [replaceSlash, a, b]

theorem fileName_inj (i j : String) (hi : IdWF i) (hj : IdWF j) (h : fileName i = fileName j) : i = j := by
  obtain ⟨c1, u1, e1, n1, m1, l1⟩ := hi
  obtain ⟨c2, u2, e2, n2, m2, l2⟩ := hj
  have h' := congrArg String.toList h
  simp only [fileName, String.toList_append, String.toList_ofList] at h'
  have h2 := List.append_cancel_right h'
  rw [e1, e2, replaceSlash_idwf c1 u1 n1 m1, replaceSlash_idwf c2 u2 n2 m2] at h2
  have hl : ('_' :: u1).length = ('_' :: u2).length := by simp [l1, l2]
  obtain ⟨a, b⟩ := List.append_inj' h2 hl
  apply String.toList_inj.mp
  rw [e1, e2, a]
  simp only [List.cons.injEq, true_and] at b
  rw [b]

/-- the condition under which a save of `rid` leaves the objects of `id` alone -/
def Apart (c : Kind) (id rid : String) : Prop :=
  id ≠ rid ∧ match c with
    | .file => IdWF id ∧ IdWF rid
    | _ => True

theorem get_save_frame (z : Zip) (c : Kind) (s : Store) (r : Recording) (id : String) (h : Apart c id r.id) :
    get z c (save z c s r) id = get z c s id := by
  cases c with
  | memory => simp [get, save, h.1]
  | file =>
    have : fileName id ≠ fileName r.id := fun e => h.1 (fileName_inj _ _ h.2.1 h.2.2 e)
    simp [get, save, this]
  | s3 kp =>
    have a : fullKey kp id ≠ metaKey kp r.id := fullKey_ne_metaKey kp id r.id
    have b : fullKey kp id ≠ fullKey kp r.id := fun e => h.1 (fullKey_inj kp _ _ e)
    simp [get, save, a, b]

theorem getMetadata_save_frame (z : Zip) (c : Kind) (s : Store) (r : Recording) (id : String) (h : Apart c id r.id) :
    getMetadata z c (save z c s r) id = getMetadata z c s id := by
  cases c with
  | memory => simp [getMetadata, get_save_frame z .memory s r id h]
  | file => simp [getMetadata, get_save_frame z .file s r id h]
  | s3 kp =>
    have a : metaKey kp id ≠ fullKey kp r.id := fun e => fullKey_ne_metaKey kp r.id id e.symm
    have b : metaKey kp id ≠ metaKey kp r.id := fun e => h.1 (metaKey_inj kp _ _ e)
    simp [getMetadata, save, a, b]

theorem get_saveAll_frame (z : Zip) (c : Kind) (id : String) :
    (rs : List Recording) → (s : Store) → (∀ r ∈ rs, Apart c id r.id) → get z c (saveAll z c s rs) id = get z c s id
  | [], s, _ => rfl
  | r :: rs, s, h => by
    simp only [saveAll]
    rw [get_saveAll_frame z c id rs _ (fun r' hr' => h r' (List.mem_cons_of_mem _ hr')),
      get_save_frame z c s r id (h r (List.mem_cons_self ..))]

theorem getMetadata_saveAll_frame (z : Zip) (c : Kind) (id : String) :
    (rs : List Recording) → (s : Store) → (∀ r ∈ rs, Apart c id r.id) →
    getMetadata z c (saveAll z c s rs) id = getMetadata z c s id
  | [], s, _ => rfl
  | r :: rs, s, h => by
    simp only [saveAll]
    rw [getMetadata_saveAll_frame z c id rs _ (fun r' hr' => h r' (List.mem_cons_of_mem _ hr')),
      getMetadata_save_frame z c s r id (h r (List.mem_cons_self ..))]

theorem get_save_same (z : Zip) (hz : z.Lawful) (c : Kind) (s : Store) (r : Recording)
    (h : match c with | .s3 _ => "_metadata" ∉ r.data.keys | _ => True) :
    get z c (save z c s r) r.id = .ok r.canon := by
  cases c with
  | memory => simp [get, save, decodeObject_enc]
  | file => simp [get, save, decodeObject_enc]
  | s3 kp =>
    have a : fullKey kp r.id ≠ metaKey kp r.id := fullKey_ne_metaKey kp r.id r.id
    simp only [get, save, Store.get_set, a, if_false, if_true]
    exact s3_decode_full z hz r h

theorem getMetadata_save_same (z : Zip) (hz : z.Lawful) (c : Kind) (s : Store) (r : Recording) :
    getMetadata z c (save z c s r) r.id = .ok (canonF r.metadata) := by
  cases c with
  | memory => simp [getMetadata, get_save_same z hz .memory s r trivial, Except.map, Recording.canon]
  | file => simp [getMetadata, get_save_same z hz .file s r trivial, Except.map, Recording.canon]
  | s3 kp => simp [getMetadata, save, decodeToks_encToks, canon]

end PlaybackModel.Cassette
