import PlaybackProofs.RecorderC01
/-! The replay decision table (C02), one row per lemma, and "no body runs during replay". -/
namespace PlaybackModel.Recorder

/-- a replaying recorder: answering interceptions from `r`, outside any interception, nothing being recorded -/
structure Replaying (r : Recording) (t : St) : Prop where
  playback : t.playback = some r
  inInt : t.inInt = false
  active : t.active = none

theorem Replaying.intercept {r t} (h : Replaying r t) : shouldIntercept t = true :=
  shouldIntercept_replay h.playback h.inInt

theorem firstPresent_spec (d : Data) : ∀ (ks : List Key) (k : Key), firstPresent d ks = some k →
    k ∈ ks ∧ hasKey d k = true ∧ ∀ pre post, ks = pre ++ k :: post → k ∉ pre → ∀ k' ∈ pre, hasKey d k' = false := by
  intro ks
  induction ks with
  | nil => intro k h; simp [firstPresent] at h
  | cons x xs ih =>
    intro k h
    simp only [firstPresent] at h
    split at h
    · rename_i hx
      injection h with h
      subst h
      refine ⟨List.mem_cons_self, hx, ?_⟩
      intro pre post hsplit hnot k' hk'
      cases pre with
      | nil => cases hk'
      | cons p ps =>
        simp only [List.cons_append, List.cons.injEq] at hsplit
        exact absurd (by rw [hsplit.1]; exact List.mem_cons_self) hnot
    · rename_i hx
      obtain ⟨h1, h2, h3⟩ := ih k h
      refine ⟨List.mem_cons_of_mem _ h1, h2, ?_⟩
      intro pre post hsplit hnot k' hk'
      cases pre with
      | nil =>
        simp only [List.nil_append, List.cons.injEq] at hsplit
        rw [hsplit.1] at hx
        rw [h2] at hx
        exact absurd rfl hx
      | cons p ps =>
        simp only [List.cons_append, List.cons.injEq] at hsplit
        cases hk' with
        | head => rw [← hsplit.1]; simpa using hx
        | tail _ hm => exact h3 ps post hsplit.2 (fun hm' => hnot (List.mem_cons_of_mem _ hm')) k' hm

theorem firstPresent_none (d : Data) : ∀ ks : List Key, firstPresent d ks = none ↔ ∀ k ∈ ks, hasKey d k = false := by
  intro ks
  induction ks with
  | nil => simp [firstPresent]
  | cons x xs ih =>
    simp only [firstPresent]
    split
    · rename_i hx; simp [hx]
    · rename_i hx
      rw [ih]
      simp only [List.mem_cons, forall_eq_or_imp]
      constructor
      · intro h; exact ⟨by simpa using hx, h⟩
      · intro h; exact h.2

/-! ### inputs -/
theorem replay_in_key_error {r t} (h : Replaying r t) (cfg : InCfg) (args body k) (hk : cfg.keys args = none) :
    exec t (.callIn cfg args body k) = exec t (k (.exc "InputInterceptionKeyCreationError")) := by
  rw [exec]; simp [h.intercept, hk, inPlaybackMode, h.playback]

theorem replay_in_recorded {r t} (h : Replaying r t) (cfg : InCfg) (args body k) (k0 : Key) (fb : List Key) (key : Key)
    (hk : cfg.keys args = some (k0, fb)) (hf : firstPresent r.data (k0 :: fb) = some key) :
    exec t (.callIn cfg args body k)
      = exec t (k (envelopeOut (cfg.restore args) ((getD r.data key).getD (.raw (.atom ""))))) := by
  rw [exec]; simp [h.intercept, hk, h.playback, hf]

theorem replay_in_substitute {r t} (h : Replaying r t) (cfg : InCfg) (args body k) (k0 : Key) (fb : List Key)
    (f : Args → Out) (hk : cfg.keys args = some (k0, fb)) (hf : firstPresent r.data (k0 :: fb) = none)
    (hro : cfg.runOriginal = false) (hs : cfg.substitute = some f) :
    exec t (.callIn cfg args body k) = exec t (k (f args)) := by
  rw [exec]; simp [h.intercept, hk, h.playback, hf, hro, hs]

theorem replay_in_missing {r t} (h : Replaying r t) (cfg : InCfg) (args body k) (k0 : Key) (fb : List Key)
    (hk : cfg.keys args = some (k0, fb)) (hf : firstPresent r.data (k0 :: fb) = none)
    (hro : cfg.runOriginal = false) (hs : cfg.substitute = none) :
    exec t (.callIn cfg args body k) = exec t (k (.exc "RecordingKeyError")) := by
  rw [exec]; simp [h.intercept, hk, h.playback, hf, hro, hs]

/-- run-original: the body runs (journalled first), without the interception flag -/
theorem replay_in_run_original {r t} (h : Replaying r t) (cfg : InCfg) (args body k) (k0 : Key) (fb : List Key)
    (hk : cfg.keys args = some (k0, fb)) (hf : firstPresent r.data (k0 :: fb) = none) (hro : cfg.runOriginal = true) :
    ∃ ext, (exec t (.callIn cfg args body k)).1.journal = t.journal ++ (cfg.name, args) :: ext := by
  rw [exec]
  simp only [h.intercept, Bool.not_true, Bool.false_eq_true, if_false, hk, h.playback, hf, hro, if_true]
  have hmono : ∀ (p : Prog) (s : St), ∃ ext, (exec s p).1.journal = s.journal ++ ext := by
    intro p s
    have := exec_preserves (fun u => ∃ ext, u.journal = s.journal ++ ext)
      (by intro u e ⟨ext, hu⟩; exact ⟨ext ++ [e], by simp [hu]⟩)
      (by intro u b hu; simpa using hu) (by intro u hu; simpa using hu) (by intro u hu; simpa using hu)
      (by intro u key v hu; simpa using hu) (by intro u cfg n a hu _; simpa using hu)
      (by intro cfg a k0 u o hu; simpa using hu) (by intro al n u o hu; simpa using hu)
      (by intro u b hu; simpa using hu) p s ⟨[], by simp⟩
    exact this
  obtain ⟨e1, h1⟩ := hmono body (addJournal t (cfg.name, args))
  generalize exec (addJournal t (cfg.name, args)) body = rb at h1
  obtain ⟨s1, eb⟩ := rb
  simp only at h1
  cases eb with
  | interrupt i => exact ⟨e1, by simp [h1]⟩
  | out o =>
    obtain ⟨e2, h2⟩ := hmono (k o) s1
    exact ⟨e1 ++ e2, by simp [h2, h1]⟩

/-! ### outputs -/
theorem replay_out_state {r t} (h : Replaying r t) (cfg : OutCfg) (args : Args) :
    Replaying r (recordOutput (bump t cfg.alias) cfg (cnt t.counter cfg.alias + 1) args) ∧
    (recordOutput (bump t cfg.alias) cfg (cnt t.counter cfg.alias + 1) args).playbackOutputs =
      t.playbackOutputs ++ (match outValue cfg args with
        | some v => [(.outArgs cfg.alias (cnt t.counter cfg.alias + 1), v)]
        | none => []) := by
  have hb : (bump t cfg.alias).active = none := by simpa using h.active
  unfold recordOutput
  cases hv : outValue cfg args with
  | none =>
    simp only
    rw [doDiscard_inactive hb]
    exact ⟨⟨by simpa using h.playback, by simpa using h.inInt, hb⟩, by simp⟩
  | some v =>
    have : inPlaybackMode (bump t cfg.alias) = true := by simp [inPlaybackMode, h.playback]
    simp only [this, if_true]
    exact ⟨⟨by simpa using h.playback, by simpa using h.inInt, by simpa using h.active⟩, by simp [pushPlayback]⟩

theorem replay_out_recorded {r t} (h : Replaying r t) (cfg : OutCfg) (args body k) (rv : RVal)
    (hg : getD r.data (.outRes cfg.alias (cnt t.counter cfg.alias + 1)) = some rv) :
    exec t (.callOut cfg args body k)
      = exec (recordOutput (bump t cfg.alias) cfg (cnt t.counter cfg.alias + 1) args) (k (envelopeOut Out.ret rv)) := by
  have h1 := (replay_out_state h cfg args).1
  rw [exec]; simp [h.intercept, h1.intercept, h.playback, hg]

theorem replay_out_missing_fail {r t} (h : Replaying r t) (cfg : OutCfg) (args body k)
    (hg : getD r.data (.outRes cfg.alias (cnt t.counter cfg.alias + 1)) = none) (hf : cfg.failOnMissing = true) :
    exec t (.callOut cfg args body k)
      = exec (recordOutput (bump t cfg.alias) cfg (cnt t.counter cfg.alias + 1) args) (k (.exc "RecordingKeyError")) := by
  have h1 := (replay_out_state h cfg args).1
  rw [exec]; simp [h.intercept, h1.intercept, h.playback, hg, hf]

theorem replay_out_missing_default {r t} (h : Replaying r t) (cfg : OutCfg) (args body k)
    (hg : getD r.data (.outRes cfg.alias (cnt t.counter cfg.alias + 1)) = none) (hf : cfg.failOnMissing = false) :
    exec t (.callOut cfg args body k)
      = exec (recordOutput (bump t cfg.alias) cfg (cnt t.counter cfg.alias + 1) args) (k (.ret cfg.default)) := by
  have h1 := (replay_out_state h cfg args).1
  rw [exec]; simp [h.intercept, h1.intercept, h.playback, hg, hf]

/-! ### no body runs during replay unless a site opted in with run-original -/
theorem replay_no_bodies (r : Recording) : ∀ (p : Prog),
    p.All (fun cfg _ _ => cfg.runOriginal = false) (fun _ _ _ => True) →
    ∀ t, Replaying r t → (exec t p).1.journal = t.journal ∧ Replaying r (exec t p).1 := by
  intro p
  induction p with
  | done e => intro _ t h; exact ⟨rfl, h⟩
  | discard k ih => intro hq t h; rw [exec, doDiscard_inactive h.active]; exact ih hq t h
  | force k ih => intro hq t h; rw [exec, doForce_inactive h.active]; exact ih hq t h
  | recordData key v k ih => intro hq t h; rw [exec, doRecordData_inactive _ _ h.active]; exact ih hq t h
  | setEnabled b k ih =>
    intro hq t h
    rw [exec]
    have h' : Replaying r (doSetEnabled t b) :=
      ⟨by simpa using h.playback, by simpa using h.inInt, doSetEnabled_active_none b h.active⟩
    simpa using ih hq _ h'
  | playData key k ih => intro hq t h; rw [exec]; exact ih _ (hq _) t h
  | callIn cfg args body k _ ihk =>
    intro hq t h
    obtain ⟨hro, _, hqk⟩ := hq
    cases hk : cfg.keys args with
    | none => rw [replay_in_key_error h cfg args body k hk]; exact ihk _ (hqk _) t h
    | some kf =>
      obtain ⟨k0, fb⟩ := kf
      cases hf : firstPresent r.data (k0 :: fb) with
      | some key => rw [replay_in_recorded h cfg args body k k0 fb key hk hf]; exact ihk _ (hqk _) t h
      | none =>
        cases hs : cfg.substitute with
        | none => rw [replay_in_missing h cfg args body k k0 fb hk hf hro hs]; exact ihk _ (hqk _) t h
        | some f => rw [replay_in_substitute h cfg args body k k0 fb f hk hf hro hs]; exact ihk _ (hqk _) t h
  | callOut cfg args body k _ ihk =>
    intro hq t h
    obtain ⟨_, _, hqk⟩ := hq
    obtain ⟨h1, _⟩ := replay_out_state h cfg args
    have hj : (recordOutput (bump t cfg.alias) cfg (cnt t.counter cfg.alias + 1) args).journal = t.journal := by simp
    cases hg : getD r.data (.outRes cfg.alias (cnt t.counter cfg.alias + 1)) with
    | some rv =>
      rw [replay_out_recorded h cfg args body k rv hg]
      have := ihk (envelopeOut Out.ret rv) (hqk _) _ h1
      exact ⟨by rw [this.1, hj], this.2⟩
    | none =>
      cases hf : cfg.failOnMissing with
      | true =>
        rw [replay_out_missing_fail h cfg args body k hg hf]
        have := ihk (.exc "RecordingKeyError") (hqk _) _ h1
        exact ⟨by rw [this.1, hj], this.2⟩
      | false =>
        rw [replay_out_missing_default h cfg args body k hg hf]
        have := ihk (.ret cfg.default) (hqk _) _ h1
        exact ⟨by rw [this.1, hj], this.2⟩

end PlaybackModel.Recorder
