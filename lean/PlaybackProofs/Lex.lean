import PlaybackProofs.Escape
import PlaybackProofs.Codec
import PlaybackProofs.Keys
import Std.Data.String.ToInt
/-! A character-level lexer for the text `render` produces, and the proof that it recovers the tokens: rendered token
streams are uniquely decodable, so equal key / blob TEXTS mean equal token streams. -/
namespace PlaybackModel.Codec

theorem takeNum_append (ns rest : List Char) (hn : ∀ c ∈ ns, isNumChar c = true)
    (hr : ∀ c, rest.head? = some c → isNumChar c = false) : takeNum (ns ++ rest) = (ns, rest) := by
  induction ns with
  | nil =>
    cases rest with
    | nil => rfl
    | cons c r => simp [takeNum, hr c rfl]
  | cons c r ih =>
    have hc := hn c List.mem_cons_self
    have := ih (fun x hx => hn x (List.mem_cons_of_mem _ hx))
    simp [takeNum, hc, this]

theorem escL_not_quote (c : Char) (rest : List Char) (t : List Char) : escL c ++ rest ≠ '"' :: t := by
  intro h
  have hd := dec_esc c rest
  rw [h] at hd
  have : dec ('"' :: t) = some ('"', t) := by simp [dec]
  rw [this] at hd
  simp only [Option.some.injEq, Prod.mk.injEq] at hd
  obtain ⟨hc, ht⟩ := hd
  subst hc; subst ht
  have e : escL '"' = ['\\', '"'] := by decide
  rw [e] at h
  simp at h

theorem lexStr_body (cs : List Char) : ∀ (f : Nat) (acc rest : List Char), cs.length < f →
    lexStr f (cs.flatMap escL ++ '"' :: rest) acc = some (String.ofList (acc.reverse ++ cs), rest) := by
  induction cs with
  | nil =>
    intro f acc rest hf
    cases f with
    | zero => omega
    | succ f => simp [lexStr]
  | cons c r ih =>
    intro f acc rest hf
    cases f with
    | zero => simp at hf
    | succ f =>
      simp only [List.flatMap_cons, List.append_assoc]
      have hne := escL_not_quote c (r.flatMap escL ++ '"' :: rest)
      have hd := dec_esc c (r.flatMap escL ++ '"' :: rest)
      cases hl : escL c ++ (r.flatMap escL ++ '"' :: rest) with
      | nil => exact absurd hl (escL_ne_nil c _)
      | cons x t =>
        rw [hl] at hd
        have hx : x ≠ '"' := by
          intro hxx; subst hxx; exact hne t hl
        simp only [lexStr, hx, if_false, hd]
        rw [ih f (c :: acc) rest (by simp at hf; omega)]
        simp


theorem numStart_not_special (c : Char) (h : numStart c = true) :
    c ≠ '[' ∧ c ≠ ']' ∧ c ≠ '{' ∧ c ≠ '}' ∧ c ≠ ',' ∧ c ≠ ':' ∧ c ≠ 'n' ∧ c ≠ 't' ∧ c ≠ 'f' ∧ c ≠ '"' := by
  refine ⟨?_, ?_, ?_, ?_, ?_, ?_, ?_, ?_, ?_, ?_⟩ <;> (intro hc; subst hc; revert h; decide)

theorem lexOne_num (f : Nat) (c : Char) (r : List Char) (h : numStart c = true) : lexOne f (c :: r) = lexNum (c :: r) := by
  obtain ⟨h1, h2, h3, h4, h5, h6, h7, h8, h9, h10⟩ := numStart_not_special c h
  simp [lexOne, h1, h2, h3, h4, h5, h6, h7, h8, h9, h10]


theorem digit_facts (c : Char) (h : c.isDigit = true) : isNumChar c = true ∧ numStart c = true ∧ (c == '.' || c == 'e') = false := by
  refine ⟨by simp [isNumChar, h], by simp [numStart, h], ?_⟩
  have : c ≠ '.' ∧ c ≠ 'e' := by
    constructor <;> (intro hc; subst hc; revert h; decide)
  simp [this.1, this.2]

theorem nat_repr_text (m : Nat) :
    m.repr.toList ≠ [] ∧ (∀ c ∈ m.repr.toList, c.isDigit = true) := by
  rw [Nat.toList_repr]
  exact ⟨Nat.toDigits_ne_nil, fun c hc => Nat.isDigit_of_mem_toDigits (by omega) (by omega) hc⟩

/-- the text of an integer literal: sign and digits, no point, no exponent -/
theorem int_text (n : Int) :
    (toString n).toList ≠ [] ∧ (∀ c ∈ (toString n).toList, isNumChar c = true) ∧ hasFloatMark (toString n).toList = false ∧
    (∀ c, (toString n).toList.head? = some c → numStart c = true) := by
  have e : toString n = Int.repr n := rfl
  rw [e]
  cases n with
  | ofNat m =>
    obtain ⟨h1, h2⟩ := nat_repr_text m
    simp only [Int.repr]
    refine ⟨h1, fun c hc => (digit_facts c (h2 c hc)).1, ?_, ?_⟩
    · simp only [hasFloatMark, List.any_eq_false]
      intro c hc; simpa using (digit_facts c (h2 c hc)).2.2
    · intro c hc
      have : c ∈ m.repr.toList := List.mem_of_mem_head? hc
      exact (digit_facts c (h2 c this)).2.1
  | negSucc m =>
    obtain ⟨h1, h2⟩ := nat_repr_text m.succ
    simp only [Int.repr, String.toList_append]
    have hm : ("-" : String).toList = ['-'] := by decide
    rw [hm]
    simp only [List.cons_append, List.nil_append]
    refine ⟨by simp, ?_, ?_, ?_⟩
    · intro c hc
      simp only [List.mem_cons] at hc
      rcases hc with hc | hc
      · subst hc; decide
      · exact (digit_facts c (h2 c hc)).1
    · simp only [hasFloatMark, List.any_cons, Bool.or_eq_false_iff, List.any_eq_false]
      refine ⟨by decide, ?_⟩
      intro c hc; simpa using (digit_facts c (h2 c hc)).2.2
    · intro c hc
      simp only [List.head?_cons, Option.some.injEq] at hc
      subst hc; decide


theorem lexNum_text (l rest : List Char) (hne : l ≠ []) (hall : ∀ c ∈ l, isNumChar c = true)
    (hr : ∀ c, rest.head? = some c → isNumChar c = false) :
    lexNum (l ++ rest) =
      if hasFloatMark l then some (.flt (String.ofList l), rest)
      else (String.ofList l).toInt?.map (fun n => (Tok.num n, rest)) := by
  unfold lexNum
  rw [takeNum_append l rest hall hr]
  have : l.isEmpty = false := by cases l with
    | nil => exact absurd rfl hne
    | cons _ _ => rfl
  simp [this]

theorem lexOne_tok (f : Nat) (t : Tok) (rest : List Char) (hwf : t.WF)
    (hnum : t.isNumeric = true → ∀ c, rest.head? = some c → isNumChar c = false)
    (hstr : ∀ s, t = .str s → s.toList.length < f) :
    lexOne f ((tokText t).toList ++ rest) = some (t, rest) := by
  cases t with
  | lb => have e : (tokText .lb).toList = ['['] := by decide
          rw [e]; simp [lexOne]
  | rb => have e : (tokText .rb).toList = [']'] := by decide
          rw [e]; simp [lexOne]
  | lc => have e : (tokText .lc).toList = ['{'] := by decide
          rw [e]; simp [lexOne]
  | rc => have e : (tokText .rc).toList = ['}'] := by decide
          rw [e]; simp [lexOne]
  | comma => have e : (tokText .comma).toList = [',', ' '] := by decide
             rw [e]; simp [lexOne]
  | colon => have e : (tokText .colon).toList = [':', ' '] := by decide
             rw [e]; simp [lexOne]
  | null => have e : (tokText .null).toList = ['n', 'u', 'l', 'l'] := by decide
            rw [e]; simp [lexOne]
  | tt => have e : (tokText .tt).toList = ['t', 'r', 'u', 'e'] := by decide
          rw [e]; simp [lexOne]
  | ff => have e : (tokText .ff).toList = ['f', 'a', 'l', 's', 'e'] := by decide
          rw [e]; simp [lexOne]
  | num n =>
    obtain ⟨h1, h2, h3, h4⟩ := int_text n
    have hr := hnum rfl
    simp only [tokText]
    cases hl : (toString n).toList with
    | nil => exact absurd hl h1
    | cons c r =>
      have hc : numStart c = true := h4 c (by rw [hl]; rfl)
      rw [List.cons_append, lexOne_num f c _ hc, ← List.cons_append, ← hl]
      rw [lexNum_text _ rest h1 h2 hr, h3]
      simp only [Bool.false_eq_true, if_false, String.ofList_toList]
      have : (toString n).toInt? = some n := Int.toInt?_repr n
      rw [this]; rfl
  | flt r =>
    obtain ⟨h1, h2, h3, h4⟩ := hwf
    have hr := hnum rfl
    simp only [tokText]
    cases hl : r.toList with
    | nil => exact absurd hl h1
    | cons c rr =>
      have hc : numStart c = true := by rw [hl] at h4; simpa using h4
      rw [List.cons_append, lexOne_num f c _ hc, ← List.cons_append, ← hl]
      rw [lexNum_text _ rest h1 h2 hr, h3]
      simp [String.ofList_toList]
  | str s =>
    have hf := hstr s rfl
    simp only [tokText, String.toList_append]
    have hq : ("\"" : String).toList = ['"'] := by decide
    rw [hq, escString_toList]
    simp only [List.cons_append, List.nil_append, List.append_assoc]
    have hb := lexStr_body s.toList f [] rest hf
    simp only [lexOne]
    simp only [show ('"' : Char) ≠ '[' from by decide, show ('"' : Char) ≠ ']' from by decide,
      show ('"' : Char) ≠ '{' from by decide, show ('"' : Char) ≠ '}' from by decide, show ('"' : Char) ≠ ',' from by decide,
      show ('"' : Char) ≠ ':' from by decide, show ('"' : Char) ≠ 'n' from by decide, show ('"' : Char) ≠ 't' from by decide,
      show ('"' : Char) ≠ 'f' from by decide, if_false, if_true]
    rw [hb]
    simp [String.ofList_toList]


theorem render_toList_aux (ts : List Tok) : ∀ acc : String,
    (ts.foldl (fun acc t => acc ++ tokText t) acc).toList = acc.toList ++ ts.flatMap txt := by
  induction ts with
  | nil => intro acc; simp
  | cons t rest ih => intro acc; simp [List.foldl_cons, ih, String.toList_append, txt, List.append_assoc]

theorem render_toList (ts : List Tok) : (render ts).toList = ts.flatMap txt := by
  unfold render
  simpa using render_toList_aux ts ""

theorem txt_ne_nil (t : Tok) (hwf : t.WF) : txt t ≠ [] := by
  cases t with
  | num n => exact (int_text n).1
  | flt r => exact hwf.1
  | str s =>
    simp only [txt, tokText, String.toList_append]
    have hq : ("\"" : String).toList = ['"'] := by decide
    rw [hq]; simp
  | _ => simp only [txt]; decide

theorem head_nonnumeric (t : Tok) (hn : t.isNumeric = false) : ∀ c, (txt t).head? = some c → isNumChar c = false := by
  cases t with
  | num n => simp [Tok.isNumeric] at hn
  | flt r => simp [Tok.isNumeric] at hn
  | str s =>
    intro c hc
    simp only [txt, tokText, String.toList_append] at hc
    have hq : ("\"" : String).toList = ['"'] := by decide
    rw [hq] at hc
    simp only [List.cons_append, List.nil_append, List.append_assoc, List.head?_cons, Option.some.injEq] at hc
    subst hc; decide
  | _ => simp only [txt]; decide

theorem lex_render (ts : List Tok) : ∀ (n f : Nat), (∀ t ∈ ts, t.WF) → Sep ts → ts.length ≤ n →
    (∀ s, Tok.str s ∈ ts → s.toList.length < f) → lexAll n f (ts.flatMap txt) = some ts := by
  induction ts with
  | nil => intro n f _ _ _ _; cases n <;> rfl
  | cons t r ih =>
    intro n f hwf hsep hn hf
    cases n with
    | zero => simp at hn
    | succ n =>
      have hwt := hwf t List.mem_cons_self
      simp only [List.flatMap_cons]
      have hnum : t.isNumeric = true → ∀ c, (r.flatMap txt).head? = some c → isNumChar c = false := by
        intro hnm c hc
        cases r with
        | nil => simp at hc
        | cons t' r' =>
          have hn' := hsep.1 hnm t' rfl
          have hne := txt_ne_nil t' (hwf t' (by simp))
          simp only [List.flatMap_cons] at hc
          cases hx : txt t' with
          | nil => exact absurd hx hne
          | cons x xs =>
            rw [hx] at hc
            simp only [List.cons_append, List.head?_cons, Option.some.injEq] at hc
            subst hc
            exact head_nonnumeric t' hn' x (by rw [hx]; rfl)
      have hone := lexOne_tok f t (r.flatMap txt) hwt hnum (fun s hs => hf s (by rw [hs]; exact List.mem_cons_self))
      have hne := txt_ne_nil t hwt
      cases hx : txt t ++ r.flatMap txt with
      | nil =>
        have : txt t = [] := (List.append_eq_nil_iff.mp hx).1
        exact absurd this hne
      | cons c rr =>
        simp only [txt] at hx hone
        rw [hx] at hone
        simp only [lexAll, hone]
        rw [ih n f (fun t' ht' => hwf t' (List.mem_cons_of_mem _ ht')) hsep.2 (by simp at hn; omega)
          (fun s hs => hf s (List.mem_cons_of_mem _ hs))]
        rfl

/-- **Rendered token streams are uniquely decodable**: equal texts, equal tokens. -/
theorem render_injective (ts ts' : List Tok) (hwf : ∀ t ∈ ts, t.WF) (hwf' : ∀ t ∈ ts', t.WF) (hsep : Sep ts) (hsep' : Sep ts')
    (h : render ts = render ts') : ts = ts' := by
  have h2 : ts.flatMap txt = ts'.flatMap txt := by rw [← render_toList, ← render_toList, h]
  -- fuel large enough for both
  let n := ts.length + ts'.length
  let f := (ts.flatMap txt).length + 1
  have hf : ∀ (l : List Tok) (s : String), Tok.str s ∈ l → s.toList.length ≤ (l.flatMap txt).length := by
    intro l s hs
    induction l with
    | nil => simp at hs
    | cons t r ih =>
      simp only [List.flatMap_cons, List.length_append]
      rcases List.mem_cons.mp hs with hst | hsr
      · subst hst
        simp only [txt, tokText, String.toList_append, List.length_append, escString_toList]
        have : s.toList.length ≤ (s.toList.flatMap escL).length := by
          induction s.toList with
          | nil => simp
          | cons c cs ihc =>
            simp only [List.flatMap_cons, List.length_append, List.length_cons]
            have : 1 ≤ (escL c).length := by
              cases he : escL c with
              | nil => exact absurd (by rw [he]; rfl : escL c ++ [] = []) (escL_ne_nil c [])
              | cons _ _ => simp
            omega
        omega
      · have := ih hsr; omega
  have l1 := lex_render ts n f hwf hsep (by omega) (fun s hs => by have := hf ts s hs; omega)
  have l2 := lex_render ts' n f hwf' hsep' (by omega) (fun s hs => by have := hf ts' s hs; rw [← h2] at this; omega)
  rw [h2] at l1
  rw [l1] at l2
  exact Option.some.inj l2

end PlaybackModel.Codec

namespace PlaybackModel.Codec

theorem sep_cons_nonnum (t : Tok) (r : List Tok) (ht : t.isNumeric = false) (hr : Sep r) : Sep (t :: r) := by
  refine ⟨fun h => ?_, hr⟩
  rw [ht] at h; cases h

mutual
  /-- JSON printing never puts two numbers next to each other -/
  theorem sep_pr : (j : J) → (rest : List Tok) → Sep rest → HeadNonNum rest → Sep (pr j ++ rest)
    | .null, rest, hs, _ => by simp only [pr, List.cons_append, List.nil_append]; exact sep_cons_nonnum _ _ rfl hs
    | .bool true, rest, hs, _ => by simp only [pr, List.cons_append, List.nil_append]; exact sep_cons_nonnum _ _ rfl hs
    | .bool false, rest, hs, _ => by simp only [pr, List.cons_append, List.nil_append]; exact sep_cons_nonnum _ _ rfl hs
    | .num n, rest, hs, hh => by
        simp only [pr, List.cons_append, List.nil_append]
        exact ⟨fun _ t' ht' => hh t' ht', hs⟩
    | .flt r, rest, hs, hh => by
        simp only [pr, List.cons_append, List.nil_append]
        exact ⟨fun _ t' ht' => hh t' ht', hs⟩
    | .str s, rest, hs, _ => by simp only [pr, List.cons_append, List.nil_append]; exact sep_cons_nonnum _ _ rfl hs
    | .arr xs, rest, hs, _ => by
        simp only [pr, List.cons_append]
        exact sep_cons_nonnum _ _ rfl (sep_prs xs rest hs)
    | .obj fs, rest, hs, _ => by
        simp only [pr, List.cons_append]
        exact sep_cons_nonnum _ _ rfl (sep_prf fs rest hs)
  theorem sep_prs : (xs : Js) → (rest : List Tok) → Sep rest → Sep (prs xs ++ rest)
    | .nil, rest, hs => by simp only [prs, List.cons_append, List.nil_append]; exact sep_cons_nonnum _ _ rfl hs
    | .cons x .nil, rest, hs => by
        simp only [prs, List.append_assoc, List.cons_append, List.nil_append]
        exact sep_pr x (.rb :: rest) (sep_cons_nonnum _ _ rfl hs) (by intro t ht; cases ht; rfl)
    | .cons x (.cons y ys), rest, hs => by
        simp only [prs, List.append_assoc, List.cons_append]
        exact sep_pr x (.comma :: (prs (.cons y ys) ++ rest)) (sep_cons_nonnum _ _ rfl (sep_prs (.cons y ys) rest hs))
          (by intro t ht; cases ht; rfl)
  theorem sep_prf : (fs : JFs) → (rest : List Tok) → Sep rest → Sep (prf fs ++ rest)
    | .nil, rest, hs => by simp only [prf, List.cons_append, List.nil_append]; exact sep_cons_nonnum _ _ rfl hs
    | .cons k v .nil, rest, hs => by
        simp only [prf, List.append_assoc, List.cons_append, List.nil_append]
        refine sep_cons_nonnum _ _ rfl (sep_cons_nonnum _ _ rfl ?_)
        exact sep_pr v (.rc :: rest) (sep_cons_nonnum _ _ rfl hs) (by intro t ht; cases ht; rfl)
    | .cons k v (.cons k' v' fs), rest, hs => by
        simp only [prf, List.append_assoc, List.cons_append]
        refine sep_cons_nonnum _ _ rfl (sep_cons_nonnum _ _ rfl ?_)
        exact sep_pr v (.comma :: (prf (.cons k' v' fs) ++ rest))
          (sep_cons_nonnum _ _ rfl (sep_prf (.cons k' v' fs) rest hs)) (by intro t ht; cases ht; rfl)
end

theorem sep_encToks (v : Val) : Sep (encToks v) := by
  have := sep_pr (flatten v) [] trivial (by intro t ht; cases ht)
  simpa [encToks] using this

/-- **Text level**: two values whose float texts are well formed and whose encoded TEXTS are equal have equal token
streams (to which the token-level theorems - round trip, injectivity up to dict order - apply). -/
theorem encodeText_injective (v v' : Val) (hw : ∀ t ∈ encToks v, t.WF) (hw' : ∀ t ∈ encToks v', t.WF)
    (h : encodeText v = encodeText v') : encToks v = encToks v' :=
  render_injective _ _ hw hw' (sep_encToks v) (sep_encToks v') h

end PlaybackModel.Codec

namespace PlaybackModel.Codec

theorem escL_length_pos (c : Char) : 1 ≤ (escL c).length := by
  cases he : escL c with
  | nil => exact absurd (by rw [he]; rfl : escL c ++ [] = []) (escL_ne_nil c [])
  | cons _ _ => simp

theorem str_len_le_text (l : List Tok) (s : String) (hs : Tok.str s ∈ l) : s.toList.length ≤ (l.flatMap txt).length := by
  induction l with
  | nil => simp at hs
  | cons t r ih =>
    simp only [List.flatMap_cons, List.length_append]
    rcases List.mem_cons.mp hs with hst | hsr
    · subst hst
      simp only [txt, tokText, String.toList_append, List.length_append, escString_toList]
      have : s.toList.length ≤ (s.toList.flatMap escL).length := by
        induction s.toList with
        | nil => simp
        | cons c cs ihc =>
          simp only [List.flatMap_cons, List.length_append, List.length_cons]
          have := escL_length_pos c
          omega
      omega
    · have := ih hsr; omega

theorem tokens_le_text (l : List Tok) (hwf : ∀ t ∈ l, t.WF) : l.length ≤ (l.flatMap txt).length := by
  induction l with
  | nil => simp
  | cons t r ih =>
    simp only [List.flatMap_cons, List.length_append, List.length_cons]
    have h1 : 1 ≤ (txt t).length := by
      cases hx : txt t with
      | nil => exact absurd hx (txt_ne_nil t (hwf t List.mem_cons_self))
      | cons _ _ => simp
    have := ih (fun t' ht' => hwf t' (List.mem_cons_of_mem _ ht'))
    omega

/-- reading the written text back is reading the tokens back: the lexer recovers exactly the encoded token stream -/
theorem decodeText_eq_decodeToks (v : Val) (hfl : ∀ t ∈ encToks v, t.WF) :
    decodeText (encodeText v) = decodeToks (encToks v) := by
  unfold decodeText encodeText
  rw [render_toList]
  have hl := lex_render (encToks v) ((encToks v).flatMap txt).length (((encToks v).flatMap txt).length + 1) hfl (sep_encToks v)
    (tokens_le_text _ hfl) (fun s hs => by have := str_len_le_text _ s hs; omega)
  rw [hl]
  rfl

/-- **Text-level round trip**: decoding the text of an encoded value gives the value back (faithful values in the form
`decode` returns; float texts well formed). -/
theorem decodeText_encodeText (v : Val) (hw : v.WF) (hc : v.Canonical) (hfl : ∀ t ∈ encToks v, t.WF) :
    decodeText (encodeText v) = some v := by
  unfold decodeText encodeText
  rw [render_toList]
  have hl := lex_render (encToks v) ((encToks v).flatMap txt).length (((encToks v).flatMap txt).length + 1) hfl (sep_encToks v)
    (tokens_le_text _ hfl) (fun s hs => by have := str_len_le_text _ s hs; omega)
  rw [hl]
  simp only [Option.bind_some, decodeToks]
  have := decToks_encToks v []
  simp only [List.append_nil] at this
  rw [this, canon_id v hw hc]

end PlaybackModel.Codec

namespace PlaybackModel.Codec

theorem lexMax_text (ts : List Tok) : ∀ (n f : Nat) (junk : List Char), (∀ t ∈ ts, t.WF) → Sep ts →
    (∀ t, ts.getLast? = some t → t.isNumeric = false) → lexOne f junk = none → ts.length ≤ n →
    (∀ s, Tok.str s ∈ ts → s.toList.length < f) → lexMax n f (ts.flatMap txt ++ junk) = (ts, junk) := by
  induction ts with
  | nil =>
    intro n f junk _ _ _ hj _ _
    cases n with
    | zero => rfl
    | succ n => simp [lexMax, hj]
  | cons t r ih =>
    intro n f junk hwf hsep hlast hj hn hf
    cases n with
    | zero => simp at hn
    | succ n =>
      have hwt := hwf t List.mem_cons_self
      simp only [List.flatMap_cons, List.append_assoc]
      have hnum : t.isNumeric = true → ∀ c, (r.flatMap txt ++ junk).head? = some c → isNumChar c = false := by
        intro hnm c hc
        cases r with
        | nil =>
          have := hlast t rfl
          rw [this] at hnm; cases hnm
        | cons t' r' =>
          have hn' := hsep.1 hnm t' rfl
          have hne := txt_ne_nil t' (hwf t' (by simp))
          simp only [List.flatMap_cons, List.append_assoc] at hc
          cases hx : txt t' with
          | nil => exact absurd hx hne
          | cons x xs =>
            rw [hx] at hc
            simp only [List.cons_append, List.head?_cons, Option.some.injEq] at hc
            subst hc
            exact head_nonnumeric t' hn' x (by rw [hx]; rfl)
      have hone := lexOne_tok f t (r.flatMap txt ++ junk) hwt hnum (fun s hs => hf s (by rw [hs]; exact List.mem_cons_self))
      simp only [txt] at hone ⊢
      simp only [lexMax, hone]
      have hl' : ∀ t', r.getLast? = some t' → t'.isNumeric = false := by
        intro t' ht'
        apply hlast t'
        cases r with
        | nil => simp at ht'
        | cons a b => simpa [List.getLast?_cons_cons] using ht'
      have := ih n f junk (fun t' ht' => hwf t' (List.mem_cons_of_mem _ ht')) hsep.2 hl' hj (by simp at hn; omega)
        (fun s hs => hf s (List.mem_cons_of_mem _ hs))
      rw [this]


theorem lexOne_k (f : Nat) (rest : List Char) : lexOne f ('k' :: rest) = none := by
  have h : isNumChar 'k' = false := by decide
  simp [lexOne, lexNum, takeNum, h]

theorem getLast?_append_single {α : Type} (l : List α) (x : α) : (l ++ [x]).getLast? = some x := by simp

/-- the `args=` part and the `kwargs=` part of a key text are delimited: the argument text is the rendering of ONE complete
JSON value, the lexer reads exactly its tokens and the comma, and stops at `kwargs=` -/
theorem args_kwargs_split (a a' : Val) (k k' : String) (hf : ∀ t ∈ encToks a, t.WF) (hf' : ∀ t ∈ encToks a', t.WF)
    (h : encodeText a ++ ", kwargs=" ++ k = encodeText a' ++ ", kwargs=" ++ k') :
    encodeText a = encodeText a' ∧ k = k' := by
  have h2 := congrArg String.toList h
  simp only [String.toList_append, encodeText, render_toList] at h2
  have hs : (", kwargs=" : String).toList = [',', ' ', 'k', 'w', 'a', 'r', 'g', 's', '='] := by decide
  rw [hs] at h2
  have hc : txt Tok.comma = [',', ' '] := by decide
  have e1 : ∀ (v : Val) (kt : List Char), (encToks v).flatMap txt ++ [',', ' ', 'k', 'w', 'a', 'r', 'g', 's', '='] ++ kt =
      (encToks v ++ [Tok.comma]).flatMap txt ++ 'k' :: (['w', 'a', 'r', 'g', 's', '='] ++ kt) := by
    intro v kt; simp [List.flatMap_append, hc]
  rw [e1 a, e1 a'] at h2
  have facts : ∀ (v : Val), (∀ t ∈ encToks v, t.WF) → ∀ (n f : Nat) (junk : List Char), (encToks v ++ [Tok.comma]).length ≤ n →
      (∀ s, Tok.str s ∈ encToks v ++ [Tok.comma] → s.toList.length < f) →
      lexMax n f ((encToks v ++ [Tok.comma]).flatMap txt ++ 'k' :: junk) = (encToks v ++ [Tok.comma], 'k' :: junk) := by
    intro v hv n f junk hn hfs
    apply lexMax_text _ n f _ _ _ _ (lexOne_k f junk) hn hfs
    · intro t ht
      rcases List.mem_append.mp ht with h1 | h1
      · exact hv t h1
      · simp at h1; subst h1; trivial
    · have := sep_pr (flatten v) [Tok.comma] (sep_cons_nonnum _ _ rfl trivial) (by intro t ht; cases ht; rfl)
      simpa [encToks] using this
    · intro t ht; rw [getLast?_append_single] at ht; cases ht; rfl
  let L := ((encToks a ++ [Tok.comma]).flatMap txt ++ 'k' :: (['w', 'a', 'r', 'g', 's', '='] ++ k.toList)).length
  have wf1 : ∀ t ∈ encToks a ++ [Tok.comma], t.WF := by
    intro t ht
    rcases List.mem_append.mp ht with h1 | h1
    · exact hf t h1
    · simp at h1; subst h1; trivial
  have wf2 : ∀ t ∈ encToks a' ++ [Tok.comma], t.WF := by
    intro t ht
    rcases List.mem_append.mp ht with h1 | h1
    · exact hf' t h1
    · simp at h1; subst h1; trivial
  have l1 := facts a hf L (L + 1) (['w', 'a', 'r', 'g', 's', '='] ++ k.toList)
    (by have := tokens_le_text _ wf1; simp only [L, List.length_append] at *; omega)
    (fun s hs => by have := str_len_le_text _ s hs; simp only [L, List.length_append] at *; omega)
  have l2 := facts a' hf' L (L + 1) (['w', 'a', 'r', 'g', 's', '='] ++ k'.toList)
    (by have := tokens_le_text _ wf2
        have hlen := congrArg List.length h2
        simp only [L, List.length_append, List.length_cons] at *; omega)
    (fun s hs => by
        have := str_len_le_text _ s hs
        have hlen := congrArg List.length h2
        simp only [L, List.length_append, List.length_cons] at *; omega)
  rw [h2] at l1
  rw [l1] at l2
  simp only [Prod.mk.injEq, List.cons.injEq, true_and] at l2
  obtain ⟨ht, hk⟩ := l2
  have ht' := List.append_cancel_right ht
  refine ⟨?_, String.toList_inj.mp (List.append_cancel_left hk)⟩
  simp only [encodeText, ht']


end PlaybackModel.Codec
