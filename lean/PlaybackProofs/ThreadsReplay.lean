import PlaybackModel.ThreadsReplay
/-! Helper lemmas for the thread-level record / replay model (C01, threads clause). -/
namespace PlaybackModel.ThreadsReplay

@[simp] theorem get_nil (k : Key) : get [] k = none := rfl
@[simp] theorem get_cons (k' : Key) (v : String) (d : Data) (k : Key) :
    get ((k', v) :: d) k = if k' = k then some v else get d k := rfl

theorem get_append_single (d : Data) (k' : Key) (v : String) (k : Key) :
    get (d ++ [(k', v)]) k = match get d k with
      | some x => some x
      | none => if k' = k then some v else none := by
  induction d with
  | nil => simp
  | cons h rest ih =>
    obtain ⟨hk, hv⟩ := h
    simp only [List.cons_append, get_cons]
    by_cases e : hk = k
    · simp [e]
    · simp [e, ih]

@[simp] theorem upd_same {α : Type} (f : Nat → α) (t : Nat) (v : α) : upd f t v t = v := by simp [upd]
theorem upd_other {α : Type} (f : Nat → α) (t x : Nat) (v : α) (h : x ≠ t) : upd f t v x = f x := by simp [upd, h]

/-! ### per-thread program facts -/
theorem take_succ_of_get {l : List TCall} {i : Nat} {c : TCall} (h : l[i]? = some c) :
    l.take (i + 1) = l.take i ++ [c] := by
  rw [List.take_add_one, h]; rfl

theorem lt_of_get {l : List TCall} {i : Nat} {c : TCall} (h : l[i]? = some c) : i < l.length := by
  rcases Nat.lt_or_ge i l.length with h' | h'
  · exact h'
  · rw [List.getElem?_eq_none h'] at h; cases h

theorem ordOf_append_single (l : List TCall) (c : TCall) (a : String) :
    ordOf (l ++ [c]) a = ordOf l a + (if isOutOf a c then 1 else 0) := by
  unfold ordOf
  rw [List.filter_append]
  by_cases h : isOutOf a c = true <;> simp [List.filter, h]

theorem specSeen_append_single (w : String → String) (l : List TCall) (c : TCall) :
    specSeen w (l ++ [c]) = specSeen w l ++ [if c.isIn then w c.name else c.res] := by
  simp [specSeen]

theorem nthOut_mid (A B : List TCall) (c : TCall) (a : String) (hc : isOutOf a c = true) :
    nthOut (A ++ c :: B) a (ordOf A a + 1) = some c := by
  unfold nthOut ordOf
  simp only [Nat.add_one_ne_zero, if_false, Nat.add_sub_cancel]
  rw [List.filter_append, List.filter_cons, hc]
  simp

/-- the call at position `i`, when it is an output on `a`, is the `(ordOf (take i) a + 1)`-th output on `a` -/
theorem nthOut_at {l : List TCall} {i : Nat} {c : TCall} {a : String} (h : l[i]? = some c) (hc : isOutOf a c = true) :
    nthOut l a (ordOf (l.take i) a + 1) = some c := by
  have hi := lt_of_get h
  have hl : l.take i ++ c :: l.drop (i + 1) = l := by
    have hc' : l[i] = c := by
      have := List.getElem?_eq_getElem hi
      rw [this] at h; exact Option.some.inj h
    rw [← hc', List.getElem_cons_drop hi, List.take_append_drop]
  have := nthOut_mid (l.take i) (l.drop (i + 1)) c a hc
  rw [hl] at this
  exact this

/-- no output on `a` beyond the count -/
theorem nthOut_none_of_gt (l : List TCall) (a : String) (n : Nat) (h : ordOf l a < n) : nthOut l a n = none := by
  unfold nthOut
  split
  · rfl
  · apply List.getElem?_eq_none
    unfold ordOf at h
    omega

end PlaybackModel.ThreadsReplay

namespace PlaybackModel.ThreadsReplay

/-! ### the record run: an invariant of every schedule prefix -/
structure RecInv (w : String → String) (prog : Nat → List TCall) (s : St) : Prop where
  pc_le : ∀ t, s.pc t ≤ (prog t).length
  seen_eq : ∀ t, s.seen t = (specSeen w ((prog t).take (s.pc t))).reverse
  cnt_eq : ∀ t a, s.cnt t a = ordOf ((prog t).take (s.pc t)) a
  args_eq : ∀ t a n, get s.data (.outArgs t a n) =
    if 1 ≤ n ∧ n ≤ s.cnt t a then (nthOut (prog t) a n).map (·.arg) else none
  res_eq : ∀ t a n, get s.data (.outRes t a n) =
    if 1 ≤ n ∧ n ≤ s.cnt t a then (nthOut (prog t) a n).map (·.res) else none
  inp_val : ∀ k v, get s.data (.inp k) = some v → v = w k
  inp_done : ∀ t i c, i < s.pc t → (prog t)[i]? = some c → c.isIn = true → get s.data (.inp c.name) = some (w c.name)

theorem recInv_init (w : String → String) (prog : Nat → List TCall) : RecInv w prog init := by
  refine ⟨?_, ?_, ?_, ?_, ?_, ?_, ?_⟩ <;> simp [init, specSeen, ordOf]
  all_goals (intros; omega)

theorem isOutOf_in (a : String) (c : TCall) (h : c.isIn = true) : isOutOf a c = false := by simp [isOutOf, h]
theorem isOutOf_out (a : String) (c : TCall) (h : c.isIn = false) : isOutOf a c = (c.name == a) := by simp [isOutOf, h]

theorem recInv_step (w : String → String) (prog : Nat → List TCall) (s : St) (t0 : Nat) (h : RecInv w prog s) :
    RecInv w prog (stepRecord w prog s t0) := by
  unfold stepRecord
  cases hc : (prog t0)[s.pc t0]? with
  | none => exact h
  | some c =>
    have hlt := lt_of_get hc
    have htake := take_succ_of_get hc
    by_cases hin : c.isIn = true
    · -- an input
      simp only [hin, if_true]
      refine ⟨?_, ?_, ?_, ?_, ?_, ?_, ?_⟩
      · intro t
        by_cases e : t = t0
        · subst e; simp; omega
        · simp only [upd_other _ _ _ _ e]; exact h.pc_le t
      · intro t
        by_cases e : t = t0
        · subst e
          simp only [upd_same, htake, specSeen_append_single, hin, if_true, List.reverse_append, List.reverse_cons,
            List.reverse_nil, List.nil_append, List.cons_append]
          rw [h.seen_eq t]
        · simp only [upd_other _ _ _ _ e]; exact h.seen_eq t
      · intro t a
        by_cases e : t = t0
        · subst e
          simp only [upd_same, htake, ordOf_append_single, isOutOf_in a c hin]
          simpa using h.cnt_eq t a
        · simp only [upd_other _ _ _ _ e]; exact h.cnt_eq t a
      · intro t a n; simpa using h.args_eq t a n
      · intro t a n; simpa using h.res_eq t a n
      · intro k v hv
        simp only [get_cons] at hv
        by_cases e : c.name = k
        · subst e; simp at hv; exact hv.symm
        · have : Key.inp c.name ≠ Key.inp k := fun hh => e (Key.inp.inj hh)
          simp [this] at hv
          exact h.inp_val k v hv
      · intro t i c' hi hci hcin
        simp only [get_cons]
        by_cases e : c.name = c'.name
        · simp [e]
        · have : Key.inp c.name ≠ Key.inp c'.name := fun hh => e (Key.inp.inj hh)
          simp only [this, if_false]
          by_cases et : t = t0
          · subst et
            simp only [upd_same] at hi
            rcases Nat.lt_or_ge i (s.pc t) with hlt' | hge
            · exact h.inp_done t i c' hlt' hci hcin
            · have : i = s.pc t := by omega
              subst this
              rw [hc] at hci
              exact absurd (congrArg TCall.name (Option.some.inj hci)) e
          · simp only [upd_other _ _ _ _ et] at hi
            exact h.inp_done t i c' hi hci hcin
    · -- an output on alias `c.name`
      have hout : c.isIn = false := by simpa using hin
      simp only [hout, Bool.false_eq_true, if_false]
      have hn0 : s.cnt t0 c.name + 1 = ordOf ((prog t0).take (s.pc t0)) c.name + 1 := by rw [h.cnt_eq]
      have hnth : nthOut (prog t0) c.name (s.cnt t0 c.name + 1) = some c := by
        rw [hn0]; exact nthOut_at hc (by simp [isOutOf, hout])
      refine ⟨?_, ?_, ?_, ?_, ?_, ?_, ?_⟩
      · intro t
        by_cases e : t = t0
        · subst e; simp; omega
        · simp only [upd_other _ _ _ _ e]; exact h.pc_le t
      · intro t
        by_cases e : t = t0
        · subst e
          simp only [upd_same, htake, specSeen_append_single, hout, Bool.false_eq_true, if_false, List.reverse_append,
            List.reverse_cons, List.reverse_nil, List.nil_append, List.cons_append]
          rw [h.seen_eq t]
        · simp only [upd_other _ _ _ _ e]; exact h.seen_eq t
      · intro t a
        by_cases e : t = t0
        · subst e
          simp only [upd_same, htake, ordOf_append_single, isOutOf_out a c hout]
          by_cases ea : a = c.name
          · subst ea; simp [h.cnt_eq]
          · have : (c.name == a) = false := by simpa using fun hh => ea hh.symm
            simp [ea, this, h.cnt_eq]
        · simp only [upd_other _ _ _ _ e]; exact h.cnt_eq t a
      · intro t a n
        simp only [get_cons]
        have hne : Key.outRes t0 c.name (s.cnt t0 c.name + 1) ≠ Key.outArgs t a n := by intro hh; cases hh
        simp only [hne, if_false]
        by_cases e : t = t0 ∧ a = c.name ∧ n = s.cnt t0 c.name + 1
        · obtain ⟨e1, e2, e3⟩ := e
          subst e1; subst e2; subst e3
          simp [hnth]
        · have hk : Key.outArgs t0 c.name (s.cnt t0 c.name + 1) ≠ Key.outArgs t a n := by
            intro hh; injection hh with h1 h2 h3; exact e ⟨h1.symm, h2.symm, h3.symm⟩
          simp only [hk, if_false]
          rw [h.args_eq t a n]
          by_cases et : t = t0
          · subst et
            simp only [upd_same]
            by_cases ea : a = c.name
            · subst ea
              have hn : n ≠ s.cnt t c.name + 1 := fun hh => e ⟨rfl, rfl, hh⟩
              have : (1 ≤ n ∧ n ≤ s.cnt t c.name + 1) ↔ (1 ≤ n ∧ n ≤ s.cnt t c.name) := by omega
              simp [this]
            · simp [ea]
          · simp only [upd_other _ _ _ _ et]
      · intro t a n
        simp only [get_cons]
        by_cases e : t = t0 ∧ a = c.name ∧ n = s.cnt t0 c.name + 1
        · obtain ⟨e1, e2, e3⟩ := e
          subst e1; subst e2; subst e3
          simp [hnth]
        · have hk : Key.outRes t0 c.name (s.cnt t0 c.name + 1) ≠ Key.outRes t a n := by
            intro hh; injection hh with h1 h2 h3; exact e ⟨h1.symm, h2.symm, h3.symm⟩
          have hne : Key.outArgs t0 c.name (s.cnt t0 c.name + 1) ≠ Key.outRes t a n := by intro hh; cases hh
          simp only [hk, hne, if_false]
          rw [h.res_eq t a n]
          by_cases et : t = t0
          · subst et
            simp only [upd_same]
            by_cases ea : a = c.name
            · subst ea
              have hn : n ≠ s.cnt t c.name + 1 := fun hh => e ⟨rfl, rfl, hh⟩
              have : (1 ≤ n ∧ n ≤ s.cnt t c.name + 1) ↔ (1 ≤ n ∧ n ≤ s.cnt t c.name) := by omega
              simp [this]
            · simp [ea]
          · simp only [upd_other _ _ _ _ et]
      · intro k v hv
        simp only [get_cons] at hv
        have h1 : Key.outRes t0 c.name (s.cnt t0 c.name + 1) ≠ Key.inp k := by intro hh; cases hh
        have h2 : Key.outArgs t0 c.name (s.cnt t0 c.name + 1) ≠ Key.inp k := by intro hh; cases hh
        simp only [h1, h2, if_false] at hv
        exact h.inp_val k v hv
      · intro t i c' hi hci hcin
        simp only [get_cons]
        have h1 : Key.outRes t0 c.name (s.cnt t0 c.name + 1) ≠ Key.inp c'.name := by intro hh; cases hh
        have h2 : Key.outArgs t0 c.name (s.cnt t0 c.name + 1) ≠ Key.inp c'.name := by intro hh; cases hh
        simp only [h1, h2, if_false]
        by_cases et : t = t0
        · subst et
          simp only [upd_same] at hi
          rcases Nat.lt_or_ge i (s.pc t) with hlt' | hge
          · exact h.inp_done t i c' hlt' hci hcin
          · have : i = s.pc t := by omega
            subst this
            rw [hc] at hci
            have := Option.some.inj hci
            subst this
            rw [hout] at hcin; cases hcin
        · simp only [upd_other _ _ _ _ et] at hi
          exact h.inp_done t i c' hi hci hcin

theorem recInv_run (w : String → String) (prog : Nat → List TCall) (sched : List Nat) :
    RecInv w prog (runRecord w prog sched) := by
  unfold runRecord
  have : ∀ s, RecInv w prog s → RecInv w prog (sched.foldl (stepRecord w prog) s) := by
    induction sched with
    | nil => intro s h; exact h
    | cons t rest ih => intro s h; exact ih _ (recInv_step w prog s t h)
  exact this _ (recInv_init w prog)

end PlaybackModel.ThreadsReplay

namespace PlaybackModel.ThreadsReplay

/-! ### the replay run -/
/-- what the replayed recording must hold for the program `prog` (true of the data of any completed record run) -/
structure Holds (w : String → String) (prog : Nat → List TCall) (R : Key → Option String) : Prop where
  inp : ∀ t c, c ∈ prog t → c.isIn = true → R (.inp c.name) = some (w c.name)
  res : ∀ t a n, 1 ≤ n → n ≤ ordOf (prog t) a → R (.outRes t a n) = (nthOut (prog t) a n).map (·.res)

structure RepInv (w : String → String) (prog : Nat → List TCall) (s : St) : Prop where
  pc_le : ∀ t, s.pc t ≤ (prog t).length
  seen_eq : ∀ t, s.seen t = (specSeen w ((prog t).take (s.pc t))).reverse
  cnt_eq : ∀ t a, s.cnt t a = ordOf ((prog t).take (s.pc t)) a
  pb_eq : ∀ t a n, get s.pb (.outArgs t a n) =
    if 1 ≤ n ∧ n ≤ s.cnt t a then (nthOut (prog t) a n).map (·.arg) else none

theorem repInv_init (w : String → String) (prog : Nat → List TCall) : RepInv w prog init := by
  refine ⟨?_, ?_, ?_, ?_⟩ <;> simp [init, specSeen, ordOf]
  all_goals (intros; omega)

theorem mem_of_get {l : List TCall} {i : Nat} {c : TCall} (h : l[i]? = some c) : c ∈ l := by
  have hi := lt_of_get h
  have := List.getElem?_eq_getElem hi
  rw [this] at h
  rw [← Option.some.inj h]
  exact List.getElem_mem hi

theorem repInv_step (w : String → String) (prog : Nat → List TCall) (R : Key → Option String) (hR : Holds w prog R)
    (s : St) (t0 : Nat) (h : RepInv w prog s) : RepInv w prog (stepReplay R prog s t0) := by
  unfold stepReplay
  cases hc : (prog t0)[s.pc t0]? with
  | none => exact h
  | some c =>
    have hlt := lt_of_get hc
    have htake := take_succ_of_get hc
    by_cases hin : c.isIn = true
    · simp only [hin, if_true]
      have hval : (R (.inp c.name)).getD missing = w c.name := by
        rw [hR.inp t0 c (mem_of_get hc) hin]; rfl
      refine ⟨?_, ?_, ?_, ?_⟩
      · intro t
        by_cases e : t = t0
        · subst e; simp; omega
        · simp only [upd_other _ _ _ _ e]; exact h.pc_le t
      · intro t
        by_cases e : t = t0
        · subst e
          simp only [upd_same, htake, specSeen_append_single, hin, if_true, List.reverse_append, List.reverse_cons,
            List.reverse_nil, List.nil_append, List.cons_append, hval]
          rw [h.seen_eq t]
        · simp only [upd_other _ _ _ _ e]; exact h.seen_eq t
      · intro t a
        by_cases e : t = t0
        · subst e
          simp only [upd_same, htake, ordOf_append_single, isOutOf_in a c hin]
          simpa using h.cnt_eq t a
        · simp only [upd_other _ _ _ _ e]; exact h.cnt_eq t a
      · intro t a n; exact h.pb_eq t a n
    · have hout : c.isIn = false := by simpa using hin
      simp only [hout, Bool.false_eq_true, if_false]
      have hn0 : s.cnt t0 c.name + 1 = ordOf ((prog t0).take (s.pc t0)) c.name + 1 := by rw [h.cnt_eq]
      have hnth : nthOut (prog t0) c.name (s.cnt t0 c.name + 1) = some c := by
        rw [hn0]; exact nthOut_at hc (by simp [isOutOf, hout])
      have hle : s.cnt t0 c.name + 1 ≤ ordOf (prog t0) c.name := by
        rcases Nat.lt_or_ge (ordOf (prog t0) c.name) (s.cnt t0 c.name + 1) with hl | hl
        · rw [nthOut_none_of_gt _ _ _ hl] at hnth; cases hnth
        · exact hl
      have hval : (R (.outRes t0 c.name (s.cnt t0 c.name + 1))).getD missing = c.res := by
        rw [hR.res t0 c.name _ (by omega) hle, hnth]; rfl
      refine ⟨?_, ?_, ?_, ?_⟩
      · intro t
        by_cases e : t = t0
        · subst e; simp; omega
        · simp only [upd_other _ _ _ _ e]; exact h.pc_le t
      · intro t
        by_cases e : t = t0
        · subst e
          simp only [upd_same, htake, specSeen_append_single, hout, Bool.false_eq_true, if_false, List.reverse_append,
            List.reverse_cons, List.reverse_nil, List.nil_append, List.cons_append, hval]
          rw [h.seen_eq t]
        · simp only [upd_other _ _ _ _ e]; exact h.seen_eq t
      · intro t a
        by_cases e : t = t0
        · subst e
          simp only [upd_same, htake, ordOf_append_single, isOutOf_out a c hout]
          by_cases ea : a = c.name
          · subst ea; simp [h.cnt_eq]
          · have : (c.name == a) = false := by simpa using fun hh => ea hh.symm
            simp [ea, this, h.cnt_eq]
        · simp only [upd_other _ _ _ _ e]; exact h.cnt_eq t a
      · intro t a n
        rw [get_append_single, h.pb_eq t a n]
        by_cases e : t = t0 ∧ a = c.name ∧ n = s.cnt t0 c.name + 1
        · obtain ⟨e1, e2, e3⟩ := e
          subst e1; subst e2; subst e3
          have : ¬ (s.cnt t c.name + 1 ≤ s.cnt t c.name) := by omega
          simp [this, hnth]
        · have hk : Key.outArgs t0 c.name (s.cnt t0 c.name + 1) ≠ Key.outArgs t a n := by
            intro hh; injection hh with h1 h2 h3; exact e ⟨h1.symm, h2.symm, h3.symm⟩
          have hsame : (1 ≤ n ∧ n ≤ (upd s.cnt t0 (fun b => if b = c.name then s.cnt t0 c.name + 1 else s.cnt t0 b)) t a)
              ↔ (1 ≤ n ∧ n ≤ s.cnt t a) := by
            by_cases et : t = t0
            · subst et
              simp only [upd_same]
              by_cases ea : a = c.name
              · subst ea
                have hn : n ≠ s.cnt t c.name + 1 := fun hh => e ⟨rfl, rfl, hh⟩
                simp only [if_true]; omega
              · simp [ea]
            · simp only [upd_other _ _ _ _ et]
          simp only [hk, if_false]
          by_cases hr : 1 ≤ n ∧ n ≤ s.cnt t a
          · have hr' := hsame.mpr hr
            simp only [hr, hr', and_self, if_true]
            cases nthOut (prog t) a n <;> rfl
          · have hr' : ¬ _ := fun x => hr (hsame.mp x)
            simp only [hr, hr', if_false]

theorem repInv_run (w : String → String) (prog : Nat → List TCall) (R : Key → Option String) (hR : Holds w prog R)
    (sched : List Nat) : RepInv w prog (runReplay R prog sched) := by
  unfold runReplay
  have : ∀ s, RepInv w prog s → RepInv w prog (sched.foldl (stepReplay R prog) s) := by
    induction sched with
    | nil => intro s h; exact h
    | cons t rest ih => intro s h; exact ih _ (repInv_step w prog R hR s t h)
  exact this _ (repInv_init w prog)

/-- the data of a completed record run holds everything a replay of the same program asks for -/
theorem holds_of_complete (w : String → String) (prog : Nat → List TCall) (s : St) (h : RecInv w prog s)
    (hc : Complete prog s) : Holds w prog (get s.data) := by
  refine ⟨?_, ?_⟩
  · intro t c hmem hin
    obtain ⟨i, hi, hget⟩ := List.getElem_of_mem hmem
    have hi' : i < s.pc t := by rw [hc t]; exact hi
    exact h.inp_done t i c hi' (by rw [List.getElem?_eq_getElem hi, hget]) hin
  · intro t a n h1 hn
    rw [h.res_eq t a n]
    have : s.cnt t a = ordOf (prog t) a := by rw [h.cnt_eq t a, hc t, List.take_length]
    simp [h1, this, hn]

end PlaybackModel.ThreadsReplay
