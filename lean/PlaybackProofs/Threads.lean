import PlaybackModel.Threads
/-! The repaired interception never fails and hands back the body's outcome under EVERY schedule. -/
namespace PlaybackModel.Threads

/-- the calls a worker was given, as the outcomes its wrapped bodies produce -/
def Worker.plan (w : Worker) : List Out := w.results.reverse ++ w.todo.map (·.body)

theorem finishCall_plan (w : Worker) (c : Call) (rest : List Call) (h : w.todo = c :: rest) :
    (finishCall w c.body).plan = w.plan := by
  simp [Worker.plan, finishCall, h]

/-- a micro-step of the repaired code never raises and never changes what the worker will have been handed -/
theorem stepWorker_ok (s : Shared) (w : Worker) :
    ∃ s' w', stepWorker s w = .ok (s', w') ∧ w'.plan = w.plan := by
  unfold stepWorker
  cases htodo : w.todo with
  | nil => exact ⟨s, w, rfl, rfl⟩
  | cons c rest =>
    simp only
    have hfin := finishCall_plan w c rest htodo
    have hsame : ∀ (f : Worker), f.todo = w.todo → f.results = w.results → f.plan = w.plan := by
      intro f h1 h2; simp [Worker.plan, h1, h2]
    cases hpc : w.pc with
    | start =>
      simp only
      split
      · split <;> exact ⟨_, _, rfl, hsame _ (by simp [htodo]) rfl⟩
      · exact ⟨_, _, rfl, hsame _ (by simp [htodo]) rfl⟩
    | plain => exact ⟨_, _, rfl, hfin⟩
    | readRec => exact ⟨_, _, rfl, hsame _ (by simp [htodo]) rfl⟩
    | readPar => exact ⟨_, _, rfl, hsame _ (by simp [htodo]) rfl⟩
    | body =>
      simp only
      split
      · exact ⟨_, _, rfl, hsame _ (by simp [htodo]) rfl⟩
      · split <;> exact ⟨_, _, rfl, hsame _ (by simp [htodo]) rfl⟩
    | write =>
      simp only
      split <;> exact ⟨_, _, rfl, hfin⟩
    | discard1 =>
      simp only
      split
      · exact ⟨_, _, rfl, hsame _ (by simp [htodo]) rfl⟩
      · exact ⟨_, _, rfl, hfin⟩
    | discard2 =>
      simp only
      split <;> exact ⟨_, _, rfl, hsame _ (by simp [htodo]) rfl⟩
    | reset n =>
      match n with
      | 0 => exact ⟨_, _, rfl, hsame _ (by simp [htodo]) rfl⟩
      | 1 => exact ⟨_, _, rfl, hsame _ (by simp [htodo]) rfl⟩
      | 2 => exact ⟨_, _, rfl, hsame _ (by simp [htodo]) rfl⟩
      | n + 3 => exact ⟨_, _, rfl, hfin⟩

def Sys.plans (sys : Sys) : List (List Out) := sys.workers.map Worker.plan

theorem setWorker_plans (ws : List Worker) (i : Nat) (w w' : Worker) (hi : ws[i]? = some w) (hp : w'.plan = w.plan) :
    (setWorker ws i w').map Worker.plan = ws.map Worker.plan := by
  apply List.ext_getElem?
  intro j
  simp only [setWorker, List.getElem?_map, List.getElem?_mapIdx]
  by_cases hj : j = i
  · subst hj
    cases hq : ws[j]? with
    | none => rfl
    | some x =>
      rw [hi] at hq
      cases hq
      simp [hp]
  · cases hq : ws[j]? with
    | none => rfl
    | some x => simp [hj]

theorem stepSys_ok (sys : Sys) (tid : Nat) :
    ∃ sys', stepSys stepWorker sys tid = .ok sys' ∧ sys'.plans = sys.plans := by
  unfold stepSys
  cases tid with
  | zero => exact ⟨_, rfl, rfl⟩
  | succ i =>
    simp only
    cases hw : sys.workers[i]? with
    | none => exact ⟨sys, rfl, rfl⟩
    | some w =>
      obtain ⟨s', w', h1, h2⟩ := stepWorker_ok sys.shared w
      simp only [h1]
      exact ⟨_, rfl, by simpa [Sys.plans] using setWorker_plans sys.workers i w w' hw h2⟩

theorem runSched_ok (sched : List Nat) : ∀ sys : Sys,
    ∃ sys', runSched stepWorker sys sched = .ok sys' ∧ sys'.plans = sys.plans := by
  induction sched with
  | nil => intro sys; exact ⟨sys, rfl, rfl⟩
  | cons t rest ih =>
    intro sys
    obtain ⟨s1, h1, p1⟩ := stepSys_ok sys t
    obtain ⟨s2, h2, p2⟩ := ih s1
    exact ⟨s2, by simp [runSched, h1, h2], by rw [p2, p1]⟩

end PlaybackModel.Threads
