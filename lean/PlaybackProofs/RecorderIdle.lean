import PlaybackProofs.RecorderOp
/-! Pass-through and replay runs: what they leave untouched; the recorder is idle after every run (C09, C02, C04). -/
namespace PlaybackModel.Recorder

theorem doDiscard_inactive {t : St} (h : t.active = none) : doDiscard t = t := by simp [doDiscard, h]
theorem doForce_inactive {t : St} (h : t.active = none) : doForce t = t := by simp [doForce, h]
theorem write_inactive {t : St} (k v) (h : t.active = none) : write t k v = t := by simp [write, h]
theorem doRecordData_inactive {t : St} (key v) (h : t.active = none) : doRecordData t key v = t := by
  simp [doRecordData, inRecordingMode, h]
theorem afterInput_inactive {t : St} (cfg args k0 o) (h : t.active = none) : afterInput cfg args k0 t o = t := by
  unfold afterInput
  split
  · exact write_inactive _ _ h
  · exact doDiscard_inactive h
theorem afterOutput_inactive {t : St} (a n o) (h : t.active = none) : afterOutput a n t o = t := by
  unfold afterOutput; split <;> exact write_inactive _ _ h

/-- with no active recording nothing reaches the cassette and the sampling flag cannot be set -/
theorem exec_inactive (p : Prog) (s : St) (ha : s.active = none) (hf : s.forced = false) :
    (exec s p).1.active = none ∧ (exec s p).1.forced = false ∧ (exec s p).1.log = s.log := by
  have := exec_preserves (fun t => t.active = none ∧ t.forced = false ∧ t.log = s.log)
    (by intro t e h; simpa using h) (by intro t b h; simpa using h)
    (by intro t h; rw [doDiscard_inactive h.1]; exact h)
    (by intro t h; rw [doForce_inactive h.1]; exact h)
    (by intro t key v h; rw [doRecordData_inactive _ _ h.1]; exact h)
    (by
      intro t cfg n args h _
      have hb : (bump t cfg.alias).active = none := by simpa using h.1
      unfold recordOutput
      split
      · rw [doDiscard_inactive hb]; simpa using h
      · split
        · simpa using h
        · rw [write_inactive _ _ hb]; simpa using h)
    (by intro cfg args k0 t o h; rw [afterInput_inactive _ _ _ _ h.1]; exact h)
    (by intro a n t o h; rw [afterOutput_inactive _ _ _ h.1]; exact h)
    (by intro t b h; rw [doSetEnabled_inactive b h.1]; simpa using h)
    p s ⟨ha, hf, rfl⟩
  exact this

/-- outside replay and with no active recording, the per-alias counter and the playback outputs stay put as well -/
theorem exec_passthrough (p : Prog) (s : St) (ha : s.active = none) (hp : s.playback = none) :
    (exec s p).1.counter = s.counter ∧ (exec s p).1.playbackOutputs = s.playbackOutputs := by
  have := exec_preserves (fun t => t.active = none ∧ t.playback = none ∧ t.counter = s.counter ∧
      t.playbackOutputs = s.playbackOutputs)
    (by intro t e h; simpa using h) (by intro t b h; simpa using h)
    (by intro t h; rw [doDiscard_inactive h.1]; exact h)
    (by intro t h; rw [doForce_inactive h.1]; exact h)
    (by intro t key v h; rw [doRecordData_inactive _ _ h.1]; exact h)
    (by
      intro t cfg n args h hi
      simp [shouldIntercept, inRecordingMode, inPlaybackMode, h.1, h.2.1] at hi)
    (by intro cfg args k0 t o h; rw [afterInput_inactive _ _ _ _ h.1]; exact h)
    (by intro a n t o h; rw [afterOutput_inactive _ _ _ h.1]; exact h)
    (by intro t b h; rw [doSetEnabled_inactive b h.1]; simpa using h)
    p s ⟨ha, hp, rfl, rfl⟩
  exact ⟨this.2.2.1, this.2.2.2⟩

/-- flipping the switch of an idle recorder changes the switch and nothing else -/
theorem idle_doSetEnabled {s : St} (b : Bool) (h : s.Idle) : (doSetEnabled s b).Idle := by
  obtain ⟨h1, h2, h3, h4, h5, h6⟩ := h
  rw [doSetEnabled_inactive b h1]
  exact ⟨h1, h2, h3, h4, h5, h6⟩

theorem Idle.mk' {s : St} (h1 : s.active = none) (h2 : s.forced = false) (h3 : s.counter = []) (h4 : s.playback = none)
    (h5 : s.playbackOutputs = []) (h6 : s.inInt = false) : s.Idle := ⟨h1, h2, h3, h4, h5, h6⟩

/-- `_execute_operation_func` touches only the recording (or the playback outputs) after the program ran -/
theorem execOperationFunc_fields (s : St) (p : Prog) :
    (execOperationFunc s p).1.forced = (exec s p).1.forced ∧ (execOperationFunc s p).1.log = (exec s p).1.log ∧
    (execOperationFunc s p).1.inInt = (exec s p).1.inInt ∧ (execOperationFunc s p).1.store = (exec s p).1.store ∧
    (execOperationFunc s p).1.playback = (exec s p).1.playback ∧
    (execOperationFunc s p).1.journal = (exec s p).1.journal ∧
    (execOperationFunc s p).1.enabled = (exec s p).1.enabled ∧
    ((exec s p).1.active = none → (execOperationFunc s p).1.active = none) := by
  unfold execOperationFunc
  generalize exec s p = r
  obtain ⟨s1, e⟩ := r
  cases e with
  | interrupt i => simp
  | out o =>
    cases o with
    | ret v =>
      simp only
      split
      · simp
      · refine ⟨by simp, by simp, by simp, by simp, by simp, by simp, by simp, ?_⟩
        intro h; rw [write_inactive _ _ h]; exact h
    | exc t =>
      simp only
      split
      · simp
      · split
        · simp
        · refine ⟨by simp, by simp, by simp, by simp, by simp, by simp, by simp, ?_⟩
          intro h; rw [write_inactive _ _ h]; exact h

/-- C02 + C09 for `play()`: whatever the replayed program does, nothing is created, saved or aborted in the cassette
(one `get`), the stored recordings are untouched, and the recorder is idle afterwards. -/
theorem runPlay_spec (ao : AliasOracle) (cfg : OpCfg) (s : St) (id : Nat) (p : Prog) (h : s.Idle) :
    (runPlay ao cfg s id p).1.Idle ∧ (runPlay ao cfg s id p).1.log = s.log ++ [.get id] ∧
    (runPlay ao cfg s id p).1.store = s.store ∧ (p.NoSwitch → (runPlay ao cfg s id p).1.enabled = s.enabled) := by
  obtain ⟨h1, h2, h3, h4, h5, h6⟩ := h
  unfold runPlay
  cases hf : fetch s.store id with
  | none =>
    simp only
    exact ⟨⟨by simpa using h1, by simpa using h2, by simpa using h3, by simpa using h4, by simpa using h5,
      by simpa using h6⟩, by simp [addLog], by simp, fun _ => by simp⟩
  | some r =>
    simp only
    have ht := tick_fields (addLog s (.get id))
    generalize tick (addLog s (.get id)) = q at ht
    obtain ⟨sa, _⟩ := q
    obtain ⟨t1, t2, t3, t4, t5, t6, t7, t8, t9, t10, _⟩ := ht
    simp only at t1 t2 t3 t4 t5 t6 t7 t8 t9 t10
    -- the replaying state
    have hmode : inPlaybackMode { sa with playback := some r } = true := rfl
    have hro : runOperation ao cfg { sa with playback := some r } p = execOperationFunc { sa with playback := some r } p := by
      unfold runOperation; simp [hmode]
    rw [hro]
    have hin := exec_inactive p { sa with playback := some r } (by simpa using t1.trans (by simpa using h1))
      (by simpa using t2.trans (by simpa using h2))
    have hfr := exec_frame p { sa with playback := some r }
    have hii := exec_inInt p { sa with playback := some r }
    have hef := execOperationFunc_fields { sa with playback := some r } p
    generalize execOperationFunc { sa with playback := some r } p = res at hef
    obtain ⟨sb, e⟩ := res
    obtain ⟨e1, e2, e3, e4, e5, e6, e8, e7⟩ := hef
    simp only at e1 e2 e3 e4 e5 e6 e7 e8
    have ht2 := tick_fields sb
    generalize tick sb = q2 at ht2
    obtain ⟨sc, _⟩ := q2
    obtain ⟨u1, u2, u3, u4, u5, u6, u7, u8, u9, u10, _⟩ := ht2
    simp only at u1 u2 u3 u4 u5 u6 u7 u8 u9 u10
    have hlog : sc.log = s.log ++ [.get id] := by
      rw [u7, e2, hin.2.2]; simpa [addLog] using t7
    have hstore : sc.store = s.store := by
      rw [u9, e4, hfr.2.1]; simpa using t9
    have hen : p.NoSwitch → sc.enabled = s.enabled := by
      intro hns
      rw [u10, e8, exec_enabled_noSwitch p hns]; simpa using t10
    have hidle : St.Idle { sc with playback := none, playbackOutputs := [], counter := [] } := by
      refine ⟨?_, ?_, rfl, rfl, rfl, ?_⟩
      · simp only; rw [u1]; exact e7 hin.1
      · simp only; rw [u2, e1]; exact hin.2.1
      · simp only; rw [u6, e3, hii]; simpa using t6.trans (by simpa using h6)
    cases e with
    | interrupt i => exact ⟨hidle, by simpa using hlog, by simpa using hstore, fun hns => by simpa using hen hns⟩
    | out o =>
      cases o with
      | ret v => exact ⟨hidle, by simpa using hlog, by simpa using hstore, fun hns => by simpa using hen hns⟩
      | exc t =>
        simp only
        split <;> exact ⟨hidle, by simpa using hlog, by simpa using hstore, fun hns => by simpa using hen hns⟩

end PlaybackModel.Recorder
