import PlaybackModel.Lexer
import Std.Data.String.ToNat
/-! String literals are rendered injectively: `escString` (json.dumps' ESCAPE_ASCII as modelled in Codec.lean) can be decoded
character by character, so two different strings never have the same literal text. -/
namespace PlaybackModel.Codec

theorem escString_toList_aux (l : List Char) : ∀ acc : String,
    (l.foldl (fun acc c => acc ++ escChar c) acc).toList = acc.toList ++ l.flatMap escL := by
  induction l with
  | nil => intro acc; simp
  | cons c rest ih => intro acc; simp [List.foldl_cons, ih, String.toList_append, escL, List.append_assoc]

theorem escString_toList (s : String) : (escString s).toList = s.toList.flatMap escL := by
  unfold escString
  simpa using escString_toList_aux s.toList ""

theorem hexVal_hexDigit : ∀ d, d < 16 → hexVal (hexDigit d) = some d := by decide


theorem hex4_toList (n : Nat) :
    (hex4 n).toList = [hexDigit (n / 4096 % 16), hexDigit (n / 256 % 16), hexDigit (n / 16 % 16), hexDigit (n % 16)] := by
  simp [hex4]

theorem hex4Val_hex4 (n : Nat) (h : n < 65536) (rest : List Char) :
    hex4Val ((hex4 n).toList ++ rest) = some (n, rest) := by
  rw [hex4_toList]
  simp only [List.cons_append, List.nil_append, hex4Val]
  rw [hexVal_hexDigit _ (Nat.mod_lt _ (by decide)), hexVal_hexDigit _ (Nat.mod_lt _ (by decide)),
    hexVal_hexDigit _ (Nat.mod_lt _ (by decide)), hexVal_hexDigit _ (Nat.mod_lt _ (by decide))]
  simp only [Option.some.injEq, Prod.mk.injEq, and_true]
  omega


theorem char_eq_of_toNat (c : Char) (n : Nat) (h : c.toNat = n) : c = Char.ofNat n := by
  rw [← h, Char.ofNat_toNat]

theorem char_valid_nat (c : Char) : c.toNat < 55296 ∨ (57343 < c.toNat ∧ c.toNat < 1114112) := c.valid

theorem dec_simple (x y c : Char) (rest : List Char) (hx : x = '\\') (hy : simpleUnesc y = some c) (hu : y ≠ 'u') :
    dec (x :: y :: rest) = some (c, rest) := by
  subst hx
  simp [dec, hu, hy]

theorem esc_quote : (escChar '"').toList = ['\\', '"'] := by decide
theorem esc_bs : (escChar '\\').toList = ['\\', '\\'] := by decide
theorem esc_n : (escChar '\n').toList = ['\\', 'n'] := by decide
theorem esc_r : (escChar '\r').toList = ['\\', 'r'] := by decide
theorem esc_t : (escChar '\t').toList = ['\\', 't'] := by decide
theorem esc_b : (escChar (Char.ofNat 8)).toList = ['\\', 'b'] := by decide
theorem esc_f : (escChar (Char.ofNat 12)).toList = ['\\', 'f'] := by decide
theorem u_toList : ("\\u" : String).toList = ['\\', 'u'] := by decide

theorem escChar_other (c : Char) (h1 : c ≠ '"') (h2 : c ≠ '\\') (h3 : c ≠ '\n') (h4 : c ≠ '\r') (h5 : c ≠ '\t')
    (h6 : c.toNat ≠ 8) (h7 : c.toNat ≠ 12) :
    escChar c =
      if c.toNat < 32 ∨ c.toNat > 126 then
        if c.toNat < 65536 then "\\u" ++ hex4 c.toNat
        else "\\u" ++ hex4 (55296 + (c.toNat - 65536) / 1024 % 1024) ++ "\\u" ++ hex4 (56320 + (c.toNat - 65536) % 1024)
      else String.singleton c := by
  unfold escChar
  simp only [h1, h2, h3, h4, h5, h6, h7, if_false]

theorem dec_bmp (n : Nat) (hb : n < 65536) (hns : ¬ (55296 ≤ n ∧ n < 56320)) (rest : List Char) :
    dec ('\\' :: 'u' :: ((hex4 n).toList ++ rest)) = some (Char.ofNat n, rest) := by
  have hx := hex4Val_hex4 n hb rest
  simp [dec, hx, hns]

theorem dec_astral (hi lo : Nat) (hhi : hi < 65536) (hlo : lo < 65536) (hs : 55296 ≤ hi ∧ hi < 56320) (rest : List Char) :
    dec ('\\' :: 'u' :: ((hex4 hi).toList ++ '\\' :: 'u' :: ((hex4 lo).toList ++ rest))) =
      some (Char.ofNat (65536 + (hi - 55296) * 1024 + (lo - 56320)), rest) := by
  have hx := hex4Val_hex4 hi hhi ('\\' :: 'u' :: ((hex4 lo).toList ++ rest))
  have hy := hex4Val_hex4 lo hlo rest
  simp [dec, hx, hy, hs]

theorem dec_plain (c : Char) (h2 : c ≠ '\\') (rest : List Char) : dec (c :: rest) = some (c, rest) := by
  simp [dec, h2]

theorem bmp_not_surrogate (n : Nat) (hv : n < 55296 ∨ (57343 < n ∧ n < 1114112)) (hb : n < 65536) :
    ¬ (55296 ≤ n ∧ n < 56320) := by omega

theorem astral_facts (n : Nat) (hv : n < 55296 ∨ (57343 < n ∧ n < 1114112)) (hb : ¬ n < 65536) :
    55296 + (n - 65536) / 1024 % 1024 < 65536 ∧ 56320 + (n - 65536) % 1024 < 65536 ∧
    (55296 ≤ 55296 + (n - 65536) / 1024 % 1024 ∧ 55296 + (n - 65536) / 1024 % 1024 < 56320) ∧
    65536 + (55296 + (n - 65536) / 1024 % 1024 - 55296) * 1024 + (56320 + (n - 65536) % 1024 - 56320) = n := by
  refine ⟨by omega, by omega, by omega, by omega⟩

theorem dec_esc_astral (n : Nat) (hv : n < 55296 ∨ (57343 < n ∧ n < 1114112)) (hb : ¬ n < 65536) (rest : List Char) :
    dec (("\\u" ++ hex4 (55296 + (n - 65536) / 1024 % 1024) ++ "\\u" ++ hex4 (56320 + (n - 65536) % 1024)).toList ++ rest)
      = some (Char.ofNat n, rest) := by
  obtain ⟨a1, a2, a3, a4⟩ := astral_facts n hv hb
  generalize 55296 + (n - 65536) / 1024 % 1024 = hi at a1 a3 a4 ⊢
  generalize 56320 + (n - 65536) % 1024 = lo at a2 a4 ⊢
  rw [String.toList_append, String.toList_append, String.toList_append, u_toList]
  rw [List.append_assoc, List.append_assoc, List.append_assoc]
  show dec ('\\' :: 'u' :: ((hex4 hi).toList ++ ('\\' :: 'u' :: ((hex4 lo).toList ++ rest)))) = _
  rw [dec_astral hi lo a1 a2 a3 rest, a4]

theorem dec_esc_other (c : Char) (rest : List Char) (h1 : c ≠ '"') (h2 : c ≠ '\\') (h3 : c ≠ '\n') (h4 : c ≠ '\r')
    (h5 : c ≠ '\t') (h6 : c.toNat ≠ 8) (h7 : c.toNat ≠ 12) : dec ((escChar c).toList ++ rest) = some (c, rest) := by
  have he := escChar_other c h1 h2 h3 h4 h5 h6 h7
  have hv := char_valid_nat c
  by_cases hout : c.toNat < 32 ∨ c.toNat > 126
  · by_cases hb : c.toNat < 65536
    · have hval : escChar c = "\\u" ++ hex4 c.toNat := by rw [he, if_pos hout, if_pos hb]
      rw [hval, String.toList_append, u_toList]
      exact (dec_bmp c.toNat hb (bmp_not_surrogate _ hv hb) rest).trans (by rw [Char.ofNat_toNat])
    · have hval : escChar c = "\\u" ++ hex4 (55296 + (c.toNat - 65536) / 1024 % 1024) ++ "\\u" ++
          hex4 (56320 + (c.toNat - 65536) % 1024) := by rw [he, if_pos hout, if_neg hb]
      rw [hval, dec_esc_astral c.toNat hv hb rest, Char.ofNat_toNat]
  · have hval : escChar c = String.singleton c := by rw [he, if_neg hout]
    rw [hval]
    have : (String.singleton c).toList = [c] := by simp
    rw [this]
    exact dec_plain c h2 rest


theorem dec_esc (c : Char) (rest : List Char) : dec (escL c ++ rest) = some (c, rest) := by
  unfold escL
  by_cases h1 : c = '"'
  · subst h1; rw [esc_quote]; exact dec_simple _ _ _ _ rfl (by decide) (by decide)
  by_cases h2 : c = '\\'
  · subst h2; rw [esc_bs]; exact dec_simple _ _ _ _ rfl (by decide) (by decide)
  by_cases h3 : c = '\n'
  · subst h3; rw [esc_n]; exact dec_simple _ _ _ _ rfl (by decide) (by decide)
  by_cases h4 : c = '\r'
  · subst h4; rw [esc_r]; exact dec_simple _ _ _ _ rfl (by decide) (by decide)
  by_cases h5 : c = '\t'
  · subst h5; rw [esc_t]; exact dec_simple _ _ _ _ rfl (by decide) (by decide)
  by_cases h6 : c.toNat = 8
  · have := char_eq_of_toNat c 8 h6; subst this; rw [esc_b]; exact dec_simple _ _ _ _ rfl (by decide) (by decide)
  by_cases h7 : c.toNat = 12
  · have := char_eq_of_toNat c 12 h7; subst this; rw [esc_f]; exact dec_simple _ _ _ _ rfl (by decide) (by decide)
  exact dec_esc_other c rest h1 h2 h3 h4 h5 h6 h7

end PlaybackModel.Codec

namespace PlaybackModel.Codec

theorem escL_ne_nil (c : Char) (rest : List Char) : escL c ++ rest ≠ [] := by
  intro h
  have := dec_esc c rest
  rw [h] at this
  simp [dec] at this

/-- the bodies of two string literals are equal only if the strings are -/
theorem flatMap_escL_injective : ∀ l l' : List Char, l.flatMap escL = l'.flatMap escL → l = l'
  | [], [], _ => rfl
  | [], c' :: r', h => by
    simp only [List.flatMap_nil, List.flatMap_cons] at h
    exact absurd h.symm (escL_ne_nil c' _)
  | c :: r, [], h => by
    simp only [List.flatMap_nil, List.flatMap_cons] at h
    exact absurd h (escL_ne_nil c _)
  | c :: r, c' :: r', h => by
    simp only [List.flatMap_cons] at h
    have h1 := dec_esc c (r.flatMap escL)
    have h2 := dec_esc c' (r'.flatMap escL)
    rw [h, h2] at h1
    simp only [Option.some.injEq, Prod.mk.injEq] at h1
    obtain ⟨hc, hr⟩ := h1
    rw [hc.symm, flatMap_escL_injective r r' hr.symm]

theorem escString_injective (s s' : String) (h : escString s = escString s') : s = s' := by
  have := congrArg String.toList h
  rw [escString_toList, escString_toList] at this
  exact String.toList_inj.mp (flatMap_escL_injective _ _ this)

end PlaybackModel.Codec

/-! Integer literals are rendered injectively (`toString (n : Int)`). -/
namespace PlaybackModel.CodecNum

theorem repr_no_minus (m : Nat) : m.repr.toList.head? ≠ some '-' := by
  have h := (String.isNat_iff.mp (Nat.isNat_repr m))
  obtain ⟨hne, hall, _⟩ := h
  intro hh
  cases hl : m.repr.toList with
  | nil => rw [hl] at hh; cases hh
  | cons c rest =>
    rw [hl] at hh
    simp only [List.head?_cons, Option.some.injEq] at hh
    have := hall c (by rw [hl]; exact List.mem_cons_self)
    subst hh
    rcases this with h1 | h1
    · revert h1; decide
    · revert h1; decide

theorem int_toString_injective (a b : Int) (h : toString a = toString b) : a = b := by
  change Int.repr a = Int.repr b at h
  cases a with
  | ofNat m =>
    cases b with
    | ofNat n => simp only [Int.repr] at h; rw [Nat.repr_injective h]
    | negSucc n =>
      simp only [Int.repr] at h
      have := repr_no_minus m
      rw [h] at this
      simp [String.toList_append] at this
  | negSucc m =>
    cases b with
    | ofNat n =>
      simp only [Int.repr] at h
      have := repr_no_minus n
      rw [← h] at this
      simp [String.toList_append] at this
    | negSucc n =>
      simp only [Int.repr] at h
      have h2 := congrArg String.toList h
      simp only [String.toList_append, List.append_cancel_left_eq] at h2
      have := Nat.repr_injective (String.toList_inj.mp h2)
      simp only [Nat.succ_eq_add_one, Nat.add_right_cancel_iff] at this
      rw [this]

end PlaybackModel.CodecNum
