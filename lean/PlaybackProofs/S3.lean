import PlaybackModel.S3
import PlaybackProofs.SourceAtomsS3
import PlaybackProofs.MetaFilter
/-! Helper lemmas for the S3 cassette model (C15, C16, C10). -/
namespace PlaybackModel.S3
open PlaybackModel.MetaFilter

/-! ### strings -/

theorem startsWith_iff {s p : String} : startsWith s p = true ↔ p.toList <+: s.toList := by
  unfold startsWith; exact List.isPrefixOf_iff_prefix

theorem startsWith_append (p t : String) : startsWith (p ++ t) p = true := by
  rw [startsWith_iff, String.toList_append]; exact List.prefix_append _ _

theorem startsWith_trans {s p q : String} (h1 : startsWith s p = true) (h2 : startsWith p q = true) :
    startsWith s q = true := by
  rw [startsWith_iff] at *; exact List.IsPrefix.trans h2 h1

theorem startsWith_iff_exists {s p : String} : startsWith s p = true ↔ ∃ t, s = p ++ t := by
  rw [startsWith_iff]
  constructor
  · rintro ⟨t, ht⟩
    exact ⟨String.ofList t, String.ext (by rw [String.toList_append, String.toList_ofList, ht])⟩
  · rintro ⟨t, rfl⟩
    rw [String.toList_append]; exact List.prefix_append _ _

/-- two prefixes of one string are comparable -/
theorem startsWith_comparable {s p q : String} (h1 : startsWith s p = true) (h2 : startsWith s q = true) :
    startsWith p q = true ∨ startsWith q p = true := by
  rw [startsWith_iff] at h1 h2
  rcases List.prefix_or_prefix_of_prefix h1 h2 with h | h
  · exact Or.inr (startsWith_iff.2 h)
  · exact Or.inl (startsWith_iff.2 h)

theorem dropChars_append (p t : String) : dropChars p.toList.length (p ++ t) = t := by
  unfold dropChars
  rw [String.toList_append, List.drop_left, String.ofList_toList]

theorem append_left_cancel {p a b : String} (h : p ++ a = p ++ b) : a = b := by
  have := congrArg String.toList h
  rw [String.toList_append, String.toList_append] at this
  exact String.ext (List.append_cancel_left this)

/-! ### bucket -/

theorem insertSorted_perm (e : String × Obj) (b : Bucket) : (insertSorted e b).Perm (e :: b) := by
  unfold insertSorted
  have h := @List.takeWhile_append_dropWhile _ (fun x : String × Obj => decide (x.1 < e.1)) b
  calc (List.takeWhile _ b ++ e :: List.dropWhile _ b).Perm (e :: (List.takeWhile _ b ++ List.dropWhile _ b)) :=
        List.perm_middle
    _ = e :: b := by rw [h]

theorem mem_putObj {b : Bucket} {k : String} {o : Obj} {x : String × Obj} :
    x ∈ putObj b k o ↔ x = (k, o) ∨ (x ∈ b ∧ x.1 ≠ k) := by
  unfold putObj
  rw [(insertSorted_perm _ _).mem_iff]
  simp [List.mem_filter]

theorem mem_deleteKey {b : Bucket} {k : String} {x : String × Obj} :
    x ∈ deleteKey b k ↔ x ∈ b ∧ x.1 ≠ k := by
  simp [deleteKey, List.mem_filter]

theorem hasKey_iff {b : Bucket} {k : String} : hasKey b k = true ↔ ∃ o, (k, o) ∈ b := by
  unfold hasKey
  rw [List.any_eq_true]
  constructor
  · rintro ⟨⟨k', o⟩, hm, hk⟩
    have : k' = k := by simpa using hk
    subst this; exact ⟨o, hm⟩
  · rintro ⟨o, hm⟩; exact ⟨(k, o), hm, by simp⟩

theorem hasKey_putObj (b : Bucket) (k : String) (o : Obj) (k' : String) :
    hasKey (putObj b k o) k' = (k == k' || hasKey b k') := by
  rw [Bool.eq_iff_iff, Bool.or_eq_true, hasKey_iff, hasKey_iff]
  constructor
  · rintro ⟨o', hm⟩
    rcases mem_putObj.1 hm with h | ⟨h, _⟩
    · left; simp at h; simp [h.1]
    · right; exact ⟨o', h⟩
  · rintro (h | ⟨o', hm⟩)
    · have : k = k' := by simpa using h
      subst this; exact ⟨o, mem_putObj.2 (Or.inl rfl)⟩
    · by_cases hk : k' = k
      · subst hk; exact ⟨o, mem_putObj.2 (Or.inl rfl)⟩
      · exact ⟨o', mem_putObj.2 (Or.inr ⟨hm, hk⟩)⟩

/-- the keys of a bucket are pairwise distinct (an invariant of `putObj` / deletion from the empty bucket) -/
def KeysNodup (b : Bucket) : Prop := (b.map (·.1)).Nodup

theorem keysNodup_filter {b : Bucket} (p : String × Obj → Bool) (h : KeysNodup b) : KeysNodup (b.filter p) := by
  unfold KeysNodup at *
  exact (List.filter_sublist.map _).nodup h

theorem keysNodup_putObj {b : Bucket} (k : String) (o : Obj) (h : KeysNodup b) : KeysNodup (putObj b k o) := by
  unfold KeysNodup putObj
  have hp := (insertSorted_perm (k, o) (b.filter (fun x => x.1 != k))).map (·.1)
  rw [hp.nodup_iff, List.map_cons, List.nodup_cons]
  refine ⟨?_, keysNodup_filter _ h⟩
  simp [List.mem_filter]

theorem keysNodup_applyMutations {b : Bucket} (ms : List Mutation) (h : KeysNodup b) :
    KeysNodup (applyMutations b ms) := by
  induction ms generalizing b with
  | nil => exact h
  | cons m ms ih =>
    unfold applyMutations; rw [List.foldl_cons]
    apply ih
    cases m with
    | put k o => exact keysNodup_putObj k o h
    | delete k => exact keysNodup_filter _ h

/-! ### key layout -/

theorem full_toList : "full/".toList = ['f', 'u', 'l', 'l', '/'] := by decide
theorem metadata_toList : "metadata/".toList = ['m', 'e', 't', 'a', 'd', 'a', 't', 'a', '/'] := by decide

theorem fullRoot_under_root (c : Cfg) : startsWith (fullRoot c) (root c) = true := startsWith_append _ _
theorem metaRoot_under_root (c : Cfg) : startsWith (metaRoot c) (root c) = true := startsWith_append _ _
theorem fullKey_under_fullRoot (c : Cfg) (id : String) : startsWith (fullKey c id) (fullRoot c) = true :=
  startsWith_append _ _
theorem metaKey_under_metaRoot (c : Cfg) (id : String) : startsWith (metaKey c id) (metaRoot c) = true :=
  startsWith_append _ _
theorem fullKey_under_root (c : Cfg) (id : String) : startsWith (fullKey c id) (root c) = true :=
  startsWith_trans (fullKey_under_fullRoot c id) (fullRoot_under_root c)
theorem metaKey_under_root (c : Cfg) (id : String) : startsWith (metaKey c id) (root c) = true :=
  startsWith_trans (metaKey_under_metaRoot c id) (metaRoot_under_root c)

/-- nothing is both under `…full/` and under `…metadata/` of the same cassette -/
theorem not_full_and_meta (c : Cfg) (k : String) (h1 : startsWith k (fullRoot c) = true)
    (h2 : startsWith k (metaRoot c) = true) : False := by
  obtain ⟨t1, rfl⟩ := startsWith_iff_exists.1 h1
  obtain ⟨t2, h⟩ := startsWith_iff_exists.1 h2
  have := congrArg String.toList h
  simp only [fullRoot, metaRoot, String.toList_append, List.append_assoc, full_toList, metadata_toList] at this
  have := List.append_cancel_left this
  simp at this

theorem fullKey_ne_metaKey (c : Cfg) (id id' : String) : fullKey c id ≠ metaKey c id' := by
  intro h
  exact not_full_and_meta c (fullKey c id) (fullKey_under_fullRoot c id) (h ▸ metaKey_under_metaRoot c id')

theorem metaKey_inj {c : Cfg} {id id' : String} (h : metaKey c id = metaKey c id') : id = id' :=
  append_left_cancel h
theorem fullKey_inj {c : Cfg} {id id' : String} (h : fullKey c id = fullKey c id') : id = id' :=
  append_left_cancel h

theorem idOfKey_metaKey (c : Cfg) (id : String) : idOfKey c (metaKey c id) = id := dropChars_append _ _

/-! ### one operation -/

variable (glob : String → String → Bool) (dayStr : Nat → String)

theorem St.apply_nil (st : St) (c : Cfg) : st.apply c [] = st := by
  cases st; simp [St.apply, applyMutations]

theorem closeBucket_readOnly {c : Cfg} (b : Bucket) (h : c.readOnly = true) : closeBucket c b = b := by
  simp [closeBucket, h]
theorem closeSteps_readOnly {c : Cfg} (b : Bucket) (h : c.readOnly = true) : closeSteps c b = [] := by
  simp [closeSteps, h]

/-- a read-only cassette changes nothing, whatever the operation -/
theorem step_readOnly {c : Cfg} (h : c.readOnly = true) (st : St) (op : Op) : (step glob dayStr c st op).1 = st := by
  cases op <;> simp only [step, h, if_true]
  · split <;> rfl
  · split <;> rfl
  · split <;> rfl
  · rw [closeBucket_readOnly _ h, closeSteps_readOnly _ h]; cases st; simp
  · rw [closeBucket_readOnly _ h, closeSteps_readOnly _ h]; cases st; simp

/-- the mutations one operation performs -/
def stepMutations (c : Cfg) (b : Bucket) : Op → List Mutation
  | .save r t => if c.readOnly then [] else saveSteps c t r
  | .saveCrash r t k => if c.readOnly then [] else (saveSteps c t r).take k
  | .close => closeSteps c b
  | .exit => closeSteps c b
  | .create _ _ _ => []
  | .get _ => []
  | .getMeta _ => []
  | .list _ => []

/-- the log grows by exactly the operation's mutations, tagged with the acting cassette -/
theorem step_log (c : Cfg) (st : St) (op : Op) :
    (step glob dayStr c st op).1.log = st.log ++ (stepMutations c st.bucket op).map (fun m => (c, m)) := by
  cases op <;> simp only [step, stepMutations]
  · split <;> simp
  · split <;> simp [St.apply]
  · split <;> simp [St.apply]
  · split <;> simp
  · split <;> simp
  · split <;> simp

theorem mem_deleteSteps {b : Bucket} {p : String} {m : Mutation} (h : m ∈ deleteSteps b p) :
    startsWith m.key p = true ∧ m.isPut = false := by
  unfold deleteSteps at h
  obtain ⟨e, he, rfl⟩ := List.mem_map.1 h
  exact ⟨(List.mem_filter.1 he).2, rfl⟩

theorem mem_saveSteps {c : Cfg} {t : Nat} {r : SaveReq} {m : Mutation} (h : m ∈ saveSteps c t r) :
    m.key = fullKey c r.id ∨ m.key = metaKey c r.id := by
  simp [saveSteps] at h
  rcases h with rfl | rfl
  · exact Or.inl rfl
  · exact Or.inr rfl

/-- every mutation of an operation is on a key under the cassette's own `full/` or `metadata/` root -/
theorem stepMutations_own (c : Cfg) (b : Bucket) (op : Op) {m : Mutation} (h : m ∈ stepMutations c b op) :
    startsWith m.key (fullRoot c) = true ∨ startsWith m.key (metaRoot c) = true := by
  have save : ∀ {t r m}, m ∈ saveSteps c t r →
      startsWith m.key (fullRoot c) = true ∨ startsWith m.key (metaRoot c) = true := by
    intro t r m hm
    rcases mem_saveSteps hm with h | h
    · left; rw [h]; exact fullKey_under_fullRoot _ _
    · right; rw [h]; exact metaKey_under_metaRoot _ _
  have close : ∀ {m}, m ∈ closeSteps c b →
      startsWith m.key (fullRoot c) = true ∨ startsWith m.key (metaRoot c) = true := by
    intro m hm
    unfold closeSteps at hm
    split at hm
    · cases hm
    · rcases List.mem_append.1 hm with h | h
      · exact Or.inl (mem_deleteSteps h).1
      · exact Or.inr (mem_deleteSteps h).1
  cases op <;> simp only [stepMutations] at h
  · cases h
  · split at h
    · cases h
    · exact save h
  · split at h
    · cases h
    · exact save (List.mem_of_mem_take h)
  · cases h
  · cases h
  · cases h
  · exact close h
  · exact close h

theorem stepMutations_root (c : Cfg) (b : Bucket) (op : Op) {m : Mutation} (h : m ∈ stepMutations c b op) :
    startsWith m.key (root c) = true := by
  rcases stepMutations_own c b op h with h | h
  · exact startsWith_trans h (fullRoot_under_root c)
  · exact startsWith_trans h (metaRoot_under_root c)

theorem stepMutations_readOnly {c : Cfg} (h : c.readOnly = true) (b : Bucket) (op : Op) :
    stepMutations c b op = [] := by
  cases op <;> simp [stepMutations, h, closeSteps]

/-! ### frame: what an operation cannot touch -/

theorem mem_applyMutation_of_ne {b : Bucket} {m : Mutation} {x : String × Obj} (h : x.1 ≠ m.key) :
    x ∈ applyMutation b m ↔ x ∈ b := by
  cases m with
  | put k o =>
    simp only [applyMutation, mem_putObj, Mutation.key] at *
    constructor
    · rintro (rfl | ⟨hx, _⟩)
      · exact absurd rfl h
      · exact hx
    · intro hx; exact Or.inr ⟨hx, h⟩
  | delete k =>
    simp only [applyMutation, mem_deleteKey, Mutation.key] at *
    exact ⟨fun hx => hx.1, fun hx => ⟨hx, h⟩⟩

theorem mem_applyMutations_of_ne {ms : List Mutation} {b : Bucket} {x : String × Obj}
    (h : ∀ m ∈ ms, x.1 ≠ m.key) : x ∈ applyMutations b ms ↔ x ∈ b := by
  induction ms generalizing b with
  | nil => exact Iff.rfl
  | cons m ms ih =>
    unfold applyMutations; rw [List.foldl_cons]
    exact (ih (b := applyMutation b m) (fun m' hm' => h m' (List.mem_cons_of_mem _ hm'))).trans
      (mem_applyMutation_of_ne (h m (List.mem_cons_self ..)))

theorem mem_closeBucket {c : Cfg} {b : Bucket} {x : String × Obj} (hw : c.readOnly = false) (ht : c.transient = true) :
    x ∈ closeBucket c b ↔ x ∈ b ∧ startsWith x.1 (fullRoot c) = false ∧ startsWith x.1 (metaRoot c) = false := by
  simp only [closeBucket, hw, ht, deletePrefix, List.mem_filter, Bool.or_self, Bool.not_true,
    Bool.false_eq_true, if_false, Bool.not_eq_true', and_assoc]

theorem closeBucket_idle {c : Cfg} (b : Bucket) (h : c.readOnly = true ∨ c.transient = false) : closeBucket c b = b := by
  rcases h with h | h <;> simp [closeBucket, h]

/-- the bucket after one operation -/
theorem step_bucket (c : Cfg) (st : St) (op : Op) :
    (step glob dayStr c st op).1.bucket =
      match op with
      | .close => closeBucket c st.bucket
      | .exit => closeBucket c st.bucket
      | op => applyMutations st.bucket (stepMutations c st.bucket op) := by
  cases op <;> simp only [step, stepMutations]
  · split <;> rfl
  · split <;> simp [St.apply, applyMutations]
  · split <;> simp [St.apply, applyMutations]
  · split <;> rfl
  · split <;> rfl
  · split <;> rfl

/-- an object whose key is outside the cassette's own `full/` and `metadata/` roots is untouched by any operation -/
theorem step_frame (c : Cfg) (st : St) (op : Op) (x : String × Obj)
    (h1 : startsWith x.1 (fullRoot c) = false) (h2 : startsWith x.1 (metaRoot c) = false) :
    x ∈ (step glob dayStr c st op).1.bucket ↔ x ∈ st.bucket := by
  have hne : ∀ m ∈ stepMutations c st.bucket op, x.1 ≠ m.key := by
    intro m hm heq
    rcases stepMutations_own c st.bucket op hm with h | h
    · rw [← heq, h1] at h; cases h
    · rw [← heq, h2] at h; cases h
  have hclose : x ∈ closeBucket c st.bucket ↔ x ∈ st.bucket := by
    by_cases hw : c.readOnly = true
    · rw [closeBucket_idle _ (Or.inl hw)]
    · by_cases ht : c.transient = true
      · rw [mem_closeBucket (by simpa using hw) ht]; exact ⟨fun h => h.1, fun h => ⟨h, h1, h2⟩⟩
      · rw [closeBucket_idle _ (Or.inr (by simpa using ht))]
  rw [step_bucket]
  cases op <;> first | exact hclose | exact mem_applyMutations_of_ne hne

/-! ### sequences -/

theorem runShared_append (st : St) (a b : List (Cfg × Op)) :
    runShared glob dayStr st (a ++ b) = runShared glob dayStr (runShared glob dayStr st a) b := by
  induction a generalizing st with
  | nil => rfl
  | cons x a ih => obtain ⟨c, op⟩ := x; simp only [List.cons_append, runShared]; exact ih _

/-- an invariant of the log that every step preserves holds after any interleaving -/
theorem runShared_log_inv (P : Cfg × Mutation → Prop)
    (hstep : ∀ (c : Cfg) (b : Bucket) (op : Op), ∀ m ∈ stepMutations c b op, P (c, m))
    (ops : List (Cfg × Op)) (st : St) (h0 : ∀ e ∈ st.log, P e) :
    ∀ e ∈ (runShared glob dayStr st ops).log, P e := by
  induction ops generalizing st with
  | nil => exact h0
  | cons x ops ih =>
    obtain ⟨c, op⟩ := x
    simp only [runShared]
    apply ih
    intro e he
    rw [step_log] at he
    rcases List.mem_append.1 he with he | he
    · exact h0 e he
    · obtain ⟨m, hm, rfl⟩ := List.mem_map.1 he
      exact hstep c st.bucket op m hm

/-! ### complete-before-visible -/

/-- every recording lookup can discover through `c` is fetchable through `c` -/
def Complete (c : Cfg) (b : Bucket) : Prop := ∀ id, discoverable c b id = true → fetchable c b id = true

theorem complete_put_full {c : Cfg} {b : Bucket} (id : String) (o : Obj) (h : Complete c b) :
    Complete c (putObj b (fullKey c id) o) := by
  intro id' hd
  unfold discoverable fetchable at *
  rw [hasKey_putObj] at hd ⊢
  rw [Bool.or_eq_true] at hd
  rcases hd with hd | hd
  · exact absurd (by simpa using hd) (fullKey_ne_metaKey c id id')
  · have hf' : hasKey b (fullKey c id') = true := h id' hd
    simp [hf']

theorem complete_put_meta {c : Cfg} {b : Bucket} (id : String) (o : Obj) (h : Complete c b)
    (hf : fetchable c b id = true) : Complete c (putObj b (metaKey c id) o) := by
  intro id' hd
  unfold discoverable fetchable at *
  rw [hasKey_putObj] at hd ⊢
  rw [Bool.or_eq_true] at hd
  rcases hd with hd | hd
  · have : id = id' := metaKey_inj (by simpa using hd)
    subst this; simp [hf]
  · have hf' : hasKey b (fullKey c id') = true := h id' hd
    simp [hf']

/-- a mutation on a key that is no `full/` or `metadata/` key of `c` (another cassette, a foreign writer) -/
theorem complete_other {c : Cfg} {b : Bucket} (m : Mutation) (h : Complete c b)
    (h1 : startsWith m.key (fullRoot c) = false) (h2 : startsWith m.key (metaRoot c) = false) :
    Complete c (applyMutation b m) := by
  have key : ∀ k, (startsWith k (fullRoot c) = true ∨ startsWith k (metaRoot c) = true) →
      hasKey (applyMutation b m) k = hasKey b k := by
    intro k hk
    have hne : k ≠ m.key := by
      intro heq; rw [heq, h1, h2] at hk; simp at hk
    rw [Bool.eq_iff_iff, hasKey_iff, hasKey_iff]
    exact exists_congr fun o => mem_applyMutation_of_ne (x := (k, o)) hne
  intro id hd
  unfold discoverable fetchable at *
  rw [key _ (Or.inr (metaKey_under_metaRoot c id))] at hd
  rw [key _ (Or.inl (fullKey_under_fullRoot c id))]
  exact h id hd

/-- what happens to the bucket between two observations: a save through a cassette with `c`'s key prefix, or a single
mutation by anybody else outside `c`'s `full/` and `metadata/` roots -/
inductive Event where
  | save (r : SaveReq) (t : Nat)
  | other (m : Mutation)

def eventSteps (c : Cfg) : Event → List Mutation
  | .save r t => saveSteps c t r
  | .other m => [m]

def Event.ok (c : Cfg) : Event → Prop
  | .save _ _ => True
  | .other m => startsWith m.key (fullRoot c) = false ∧ startsWith m.key (metaRoot c) = false

theorem fetchable_put_full (c : Cfg) (b : Bucket) (id : String) (o : Obj) :
    fetchable c (putObj b (fullKey c id) o) id = true := by
  unfold fetchable; rw [hasKey_putObj]; simp

theorem complete_events (c : Cfg) (hist : List Event) (hok : ∀ e ∈ hist, e.ok c) (j : Nat) (b0 : Bucket)
    (h0 : Complete c b0) : Complete c (applyMutations b0 ((hist.flatMap (eventSteps c)).take j)) := by
  induction hist generalizing b0 j with
  | nil => simpa [applyMutations] using h0
  | cons e rest ih =>
    have hrest : ∀ e ∈ rest, e.ok c := fun e he => hok e (List.mem_cons_of_mem _ he)
    cases e with
    | save r t =>
      match j with
      | 0 => simpa [applyMutations] using h0
      | 1 =>
        simp only [List.flatMap_cons, eventSteps, saveSteps, List.cons_append, List.take_succ_cons, List.take_zero,
          applyMutations, List.foldl_cons, List.foldl_nil, applyMutation]
        exact complete_put_full _ _ h0
      | n + 2 =>
        simp only [List.flatMap_cons, eventSteps, saveSteps, List.cons_append, List.nil_append, List.take_succ_cons,
          applyMutations, List.foldl_cons, applyMutation]
        exact ih hrest n _ (complete_put_meta _ _ (complete_put_full _ _ h0) (fetchable_put_full _ _ _ _))
    | other m =>
      match j with
      | 0 => simpa [applyMutations] using h0
      | n + 1 =>
        have hm := hok (.other m) (List.mem_cons_self ..)
        simp only [List.flatMap_cons, eventSteps, List.cons_append, List.nil_append, List.take_succ_cons,
          applyMutations, List.foldl_cons]
        exact ih hrest n _ (complete_other m h0 hm.1 hm.2)

/-! ### prefix-unrelated roots -/

/-- neither string is a prefix of the other: no key lies under both -/
def Unrelated (a b : String) : Prop := startsWith a b = false ∧ startsWith b a = false

instance (a b : String) : Decidable (Unrelated a b) := inferInstanceAs (Decidable (_ ∧ _))

theorem Unrelated.symm {a b : String} (h : Unrelated a b) : Unrelated b a := ⟨h.2, h.1⟩

theorem Unrelated.not_both {a b : String} (h : Unrelated a b) {k : String} (ha : startsWith k a = true) :
    startsWith k b = false := by
  cases hb : startsWith k b with
  | false => rfl
  | true =>
    rcases startsWith_comparable ha hb with h' | h'
    · rw [h.1] at h'; cases h'
    · rw [h.2] at h'; cases h'

/-- two segments terminated by the same separator that does not occur inside them: a prefix relation between the
terminated strings forces the segments to be equal -/
theorem prefix_sep {s : Char} : ∀ {x y : List Char}, s ∉ x → s ∉ y → ∀ {t u : List Char},
    x ++ s :: t <+: y ++ s :: u → x = y ∧ t <+: u
  | [], [], _, _, t, u, h => by
    simp only [List.nil_append, List.cons_prefix_cons] at h; exact ⟨rfl, h.2⟩
  | [], c :: y, _, hy, t, u, h => by
    simp only [List.nil_append, List.cons_append, List.cons_prefix_cons] at h
    exact absurd (h.1 ▸ List.mem_cons_self ..) hy
  | a :: x, [], hx, _, t, u, h => by
    simp only [List.nil_append, List.cons_append, List.cons_prefix_cons] at h
    exact absurd (h.1 ▸ List.mem_cons_self ..) hx
  | a :: x, c :: y, hx, hy, t, u, h => by
    simp only [List.cons_append, List.cons_prefix_cons] at h
    obtain ⟨hxy, htu⟩ := prefix_sep (fun hm => hx (List.mem_cons_of_mem _ hm)) (fun hm => hy (List.mem_cons_of_mem _ hm)) h.2
    exact ⟨by rw [h.1, hxy], htu⟩

theorem slash_toList : "/".toList = ['/'] := by decide

/-- `startsWith (a ++ "/" ++ t) (a' ++ "/" ++ t')` with slash-free `a`, `a'` -/
theorem startsWith_sep {a a' t t' : String} (ha : noChar '/' a) (ha' : noChar '/' a')
    (h : startsWith (a ++ "/" ++ t) (a' ++ "/" ++ t') = true) : a = a' ∧ startsWith t t' = true := by
  rw [startsWith_iff] at h
  simp only [String.toList_append, slash_toList, List.append_assoc, List.singleton_append] at h
  obtain ⟨h1, h2⟩ := prefix_sep ha' ha h
  exact ⟨(String.ext h1).symm, startsWith_iff.2 h2⟩

theorem startsWith_append_left {p s t : String} : startsWith (p ++ s) (p ++ t) = startsWith s t := by
  rw [Bool.eq_iff_iff, startsWith_iff, startsWith_iff, String.toList_append, String.toList_append]
  exact List.prefix_append_right_inj _

theorem startsWith_empty (s : String) : startsWith s "" = true := by
  rw [startsWith_iff]; exact List.nil_prefix

theorem normPrefix_ne {p : String} (h : p ≠ "") : normPrefix p = p ++ "/" := by simp [normPrefix, h]

/-- distinct non-empty slash-free prefixes give prefix-unrelated roots (`a` vs `ab`: thanks to the trailing slash) -/
theorem roots_unrelated {p p' : String} (ro tr ro' tr' : Bool) (hne : p ≠ p') (hp : noChar '/' p) (hp' : noChar '/' p')
    (h0 : p ≠ "") (h0' : p' ≠ "") : Unrelated (root (mkCfg p ro tr)) (root (mkCfg p' ro' tr')) := by
  have key : ∀ {q q' : String}, q ≠ q' → noChar '/' q → noChar '/' q' →
      startsWith (base ++ (q ++ "/")) (base ++ (q' ++ "/")) = false := by
    intro q q' hq hn hn'
    cases hs : startsWith (base ++ (q ++ "/")) (base ++ (q' ++ "/")) with
    | false => rfl
    | true =>
      rw [startsWith_append_left] at hs
      have : startsWith (q ++ "/" ++ "") (q' ++ "/" ++ "") = true := by simpa using hs
      exact absurd (startsWith_sep hn hn' this).1 hq
  unfold Unrelated root mkCfg
  simp only [normPrefix_ne h0, normPrefix_ne h0']
  exact ⟨key hne hp hp', key (Ne.symm hne) hp' hp⟩

/-- the default (empty) prefix next to a non-empty slash-free prefix other than `full` / `metadata` -/
theorem default_unrelated {p' : String} (ro tr ro' tr' : Bool) (hp' : noChar '/' p') (h0' : p' ≠ "")
    (hf : p' ≠ "full") (hm : p' ≠ "metadata") :
    Unrelated (fullRoot (mkCfg "" ro tr)) (root (mkCfg p' ro' tr')) ∧
    Unrelated (metaRoot (mkCfg "" ro tr)) (root (mkCfg p' ro' tr')) := by
  have key : ∀ {q : String}, q ≠ p' → noChar '/' q →
      Unrelated (base ++ "" ++ (q ++ "/")) (base ++ (p' ++ "/")) := by
    intro q hq hn
    constructor
    · cases hs : startsWith (base ++ "" ++ (q ++ "/")) (base ++ (p' ++ "/")) with
      | false => rfl
      | true =>
        rw [String.append_assoc, startsWith_append_left] at hs
        have : startsWith (q ++ "/" ++ "") (p' ++ "/" ++ "") = true := by simpa using hs
        exact absurd (startsWith_sep hn hp' this).1 hq
    · cases hs : startsWith (base ++ (p' ++ "/")) (base ++ "" ++ (q ++ "/")) with
      | false => rfl
      | true =>
        rw [String.append_assoc, startsWith_append_left] at hs
        have : startsWith (p' ++ "/" ++ "") (q ++ "/" ++ "") = true := by simpa using hs
        exact absurd (startsWith_sep hp' hn this).1 (Ne.symm hq)
  unfold fullRoot metaRoot root mkCfg
  simp only [normPrefix_ne h0', show normPrefix "" = "" from rfl]
  exact ⟨key (q := "full") (Ne.symm hf) (by decide), key (q := "metadata") (Ne.symm hm) (by decide)⟩

/-! ### `filterE`, `mapE`, `takeOpt` -/

/-- the answer of a predicate that may raise, as a Boolean (`True` only for `ok true`) -/
def okTrue {ε : Type} : Except ε Bool → Bool
  | .ok true => true
  | .ok false => false
  | .error _ => false

theorem filterE_total {ε α : Type} (p : α → Except ε Bool) (l : List α) (h : ∀ x ∈ l, ∃ b, p x = .ok b) :
    filterE p l = .ok (l.filter (fun x => okTrue (p x))) := by
  induction l with
  | nil => rfl
  | cons x xs ih =>
    obtain ⟨b, hb⟩ := h x (List.mem_cons_self ..)
    rw [filterE, hb, ih (fun y hy => h y (List.mem_cons_of_mem _ hy))]
    cases b <;> simp [hb, okTrue]

theorem mapE_total {ε α β : Type} (g : α → Except ε β) (g' : α → β) (l : List α) (h : ∀ x ∈ l, g x = .ok (g' x)) :
    mapE g l = .ok (l.map g') := by
  induction l with
  | nil => rfl
  | cons x xs ih =>
    rw [mapE, h x (List.mem_cons_self ..), ih (fun y hy => h y (List.mem_cons_of_mem _ hy))]
    rfl

/-- how many ids a lookup with limit `lim` returns when `n` match -/
def limLen : Option Nat → Nat → Nat
  | none, n => n
  | some k, n => min k n

theorem takeOpt_length {α : Type} (lim : Option Nat) (l : List α) : (takeOpt lim l).length = limLen lim l.length := by
  cases lim <;> simp [takeOpt, limLen]

theorem takeOpt_append_rest {α : Type} (lim : Option Nat) (l : List α) : ∃ rest, takeOpt lim l ++ rest = l := by
  cases lim with
  | none => exact ⟨[], by simp [takeOpt]⟩
  | some n => exact ⟨l.drop n, by simp [takeOpt]⟩

/-! ### the merge of the day iterators -/

theorem total_nil {α : Type} : total ([] : List (List α)) = 0 := rfl
theorem total_cons {α : Type} (it : List α) (r : List (List α)) : total (it :: r) = it.length + total r := by
  simp [total]

theorem pick_lt {α : Type} : ∀ (i : Nat) (its : List (List α)), i < its.length → ∃ r, pick i its = some r
  | _, [], h => by simp at h
  | 0, [] :: r, _ => ⟨_, rfl⟩
  | 0, (x :: xs) :: r, _ => ⟨_, rfl⟩
  | i + 1, it :: r, h => by
    obtain ⟨⟨hd, r'⟩, hr⟩ := pick_lt i r (by simpa using h)
    exact ⟨_, by rw [pick, hr]⟩

theorem pick_some_spec {α : Type} : ∀ (i : Nat) (its its' : List (List α)) (x : α), pick i its = some (some x, its') →
    (x :: its'.flatten).Perm its.flatten ∧ total its' + 1 = total its ∧ its'.length = its.length
  | _, [], _, _, h => by simp [pick] at h
  | 0, [] :: r, _, _, h => by simp [pick] at h
  | 0, (y :: ys) :: r, its', x, h => by
    simp only [pick, Option.some.injEq, Prod.mk.injEq] at h
    obtain ⟨hx, rfl⟩ := h
    cases hx
    refine ⟨by simp, by simp [total_cons]; omega, rfl⟩
  | i + 1, it :: r, its', x, h => by
    rw [pick] at h
    cases hp : pick i r with
    | none => rw [hp] at h; cases h
    | some res =>
      obtain ⟨hd, r'⟩ := res
      rw [hp] at h
      simp only [Option.some.injEq, Prod.mk.injEq] at h
      obtain ⟨rfl, rfl⟩ := h
      obtain ⟨h1, h2, h3⟩ := pick_some_spec i r r' x hp
      refine ⟨?_, by simp [total_cons]; omega, by simp [h3]⟩
      simp only [List.flatten_cons]
      exact (List.perm_middle.symm).trans (List.Perm.append_left it h1)

theorem pick_none_spec {α : Type} : ∀ (i : Nat) (its its' : List (List α)), pick i its = some (none, its') →
    its'.flatten = its.flatten ∧ total its' = total its ∧ its'.length + 1 = its.length
  | _, [], _, h => by simp [pick] at h
  | 0, [] :: r, its', h => by
    simp only [pick, Option.some.injEq, Prod.mk.injEq, true_and] at h
    subst h
    exact ⟨by simp, by simp [total_cons], rfl⟩
  | 0, (y :: ys) :: r, _, h => by simp [pick] at h
  | i + 1, it :: r, its', h => by
    rw [pick] at h
    cases hp : pick i r with
    | none => rw [hp] at h; cases h
    | some res =>
      obtain ⟨hd, r'⟩ := res
      rw [hp] at h
      simp only [Option.some.injEq, Prod.mk.injEq] at h
      obtain ⟨rfl, rfl⟩ := h
      obtain ⟨h1, h2, h3⟩ := pick_none_spec i r r' hp
      exact ⟨by simp [h1], by simp [total_cons, h2], by simp [h3]⟩

/-- The merge loop, for EVERY choice stream (round robin is `ch = id`): what it yields is a sub-multiset of the
iterators' contents, and it yields `min (limit - count) total` elements (all of them without a limit). -/
theorem mergeAux_spec {α : Type} (ch : Nat → Nat) (lim : Option Nat) :
    ∀ (fuel : Nat) (its : List (List α)) (step count : Nat), total its + its.length < fuel →
      (∀ n, lim = some n → count ≤ n) →
      (∃ rest, (mergeAux ch lim fuel its step count ++ rest).Perm its.flatten) ∧
      (mergeAux ch lim fuel its step count).length =
        (match lim with
         | none => total its
         | some n => min (n - count) (total its)) := by
  intro fuel
  induction fuel with
  | zero => intro its step count h; omega
  | succ fuel ih =>
    intro its step count hfuel hcount
    rw [mergeAux]
    by_cases hl : lim = some count
    · subst hl; simp only [if_true]; exact ⟨⟨its.flatten, by simp⟩, by simp⟩
    · rw [if_neg hl]
      cases its with
      | nil => cases lim <;> simp [total_nil]
      | cons it0 r0 =>
        rw [if_neg (by simp)]
        obtain ⟨⟨hd, its'⟩, hp⟩ := pick_lt (ch step % (it0 :: r0).length) (it0 :: r0) (Nat.mod_lt _ (by simp))
        rw [hp]
        cases hd with
        | none =>
          obtain ⟨h1, h2, h3⟩ := pick_none_spec _ _ _ hp
          obtain ⟨⟨rest, hr⟩, hlen⟩ := ih its' (step + 1) count (by omega) hcount
          refine ⟨⟨rest, ?_⟩, ?_⟩
          · rw [← h1]; exact hr
          · rw [hlen, h2]
        | some x =>
          obtain ⟨h1, h2, h3⟩ := pick_some_spec _ _ _ _ hp
          have hcount' : ∀ n, lim = some n → count + 1 ≤ n := by
            intro n hn
            have := hcount n hn
            have : n ≠ count := fun h => hl (by rw [hn, h])
            omega
          obtain ⟨⟨rest, hr⟩, hlen⟩ := ih its' (step + 1) (count + 1) (by omega) hcount'
          refine ⟨⟨rest, ?_⟩, ?_⟩
          · exact (List.Perm.cons x hr).trans h1
          · simp only [List.length_cons, hlen]
            cases lim with
            | none => simp only; omega
            | some n =>
              have := hcount' n rfl
              simp only; omega

theorem merge_spec {α : Type} (ch : Nat → Nat) (lim : Option Nat) (its : List (List α)) :
    (∃ rest, (merge ch lim its ++ rest).Perm its.flatten) ∧ (merge ch lim its).length = limLen lim (total its) := by
  have h := mergeAux_spec ch lim (total its + its.length + 1) its 0 0 (by omega) (fun n _ => Nat.zero_le n)
  refine ⟨h.1, ?_⟩
  unfold merge
  rw [h.2]
  cases lim <;> simp [limLen]

/-- without a limit the merge is a permutation of everything the day iterators hold: no iterator is dropped while
non-empty, nothing is yielded twice -/
theorem merge_perm {α : Type} (ch : Nat → Nat) (its : List (List α)) : (merge ch none its).Perm its.flatten := by
  obtain ⟨⟨rest, hr⟩, hlen⟩ := merge_spec ch none its
  have : rest = [] := by
    have h := hr.length_eq
    rw [List.length_append, hlen, List.length_flatten] at h
    simp only [limLen, total] at h
    exact List.eq_nil_of_length_eq_zero (by omega)
  simpa [this] using hr

/-! ### `iter_keys` / `iter_recording_ids` never raise and what they return -/

theorem limLen_total_takeOpt {α : Type} (lim : Option Nat) (L : List (List α)) :
    limLen lim (total (L.map (takeOpt lim))) = limLen lim (total L) := by
  cases lim with
  | none =>
    have : (takeOpt (none : Option Nat) : List α → List α) = id := by funext l; rfl
    simp [limLen, this]
  | some k =>
    simp only [limLen]
    induction L with
    | nil => rfl
    | cons l L ih =>
      simp only [List.map_cons, total_cons, takeOpt, List.length_take]
      omega

theorem flatten_takeOpt {α : Type} (lim : Option Nat) (L : List (List α)) :
    ∃ rest, ((L.map (takeOpt lim)).flatten ++ rest).Perm L.flatten := by
  induction L with
  | nil => exact ⟨[], by simp⟩
  | cons l L ih =>
    obtain ⟨rest, hr⟩ := ih
    obtain ⟨r0, h0⟩ := takeOpt_append_rest lim l
    refine ⟨r0 ++ rest, ?_⟩
    simp only [List.map_cons, List.flatten_cons]
    have : (takeOpt lim l ++ (L.map (takeOpt lim)).flatten ++ (r0 ++ rest)).Perm
        ((takeOpt lim l ++ r0) ++ ((L.map (takeOpt lim)).flatten ++ rest)) := by
      simp only [List.append_assoc]
      refine List.Perm.append_left _ ?_
      rw [← List.append_assoc, ← List.append_assoc]
      exact List.Perm.append_right _ List.perm_append_comm
    rw [h0] at this
    exact this.trans (List.Perm.append_left l hr)

/-- per-iterator limit + global limit: a sub-multiset of everything that matches, of size `min limit matches` -/
theorem merge_takeOpt_spec {α : Type} (ch : Nat → Nat) (lim : Option Nat) (L : List (List α)) :
    (∃ rest, (merge ch lim (L.map (takeOpt lim)) ++ rest).Perm L.flatten) ∧
    (merge ch lim (L.map (takeOpt lim))).length = limLen lim L.flatten.length := by
  obtain ⟨⟨r1, h1⟩, hlen⟩ := merge_spec ch lim (L.map (takeOpt lim))
  obtain ⟨r2, h2⟩ := flatten_takeOpt lim L
  refine ⟨⟨r1 ++ r2, ?_⟩, ?_⟩
  · rw [← List.append_assoc]
    exact (List.Perm.append_right r2 h1).trans h2
  · rw [hlen, limLen_total_takeOpt, List.length_flatten]; rfl

/-- the Boolean reading of `relevant` with the cassette's content filter -/
def relevantB (glob : String → String → Bool) (s e : Option Nat) (f : Meta) (x : String × Obj) : Bool :=
  windowPred s e x.2.lm && (f.isEmpty || okTrue (matchMeta glob f (jsonViewFields x.2.md)))

theorem relevant_total (s e : Option Nat) (f : Meta) (x : String × Obj) :
    relevant s e (contentFilter glob f) x = .ok (relevantB glob s e f x) := by
  unfold relevant relevantB contentFilter
  cases hw : windowPred s e x.2.lm
  · simp
  · cases hf : f.isEmpty
    · obtain ⟨b, hb⟩ := matchMeta_total glob f (jsonViewFields x.2.md)
      simp only [if_true, Bool.false_eq_true, if_false, hb, Bool.true_and, Bool.false_or]
      cases b <;> rfl
    · simp

/-- all keys one day iterator could yield (before its limit) -/
def dayKeys (c : Cfg) (b : Bucket) (s e : Option Nat) (f : Meta) (shuf : Bucket → Bucket) (p : String) : List String :=
  ((shuf (listPrefix b (metaKey c p))).filter (relevantB glob s e f)).map (·.1)

theorem iterKeys_ok (b : Bucket) (c : Cfg) (p : String) (s e : Option Nat) (f : Meta) (lim : Option Nat)
    (shuf : Bucket → Bucket) :
    iterKeys b (metaKey c p) s e (contentFilter glob f) lim shuf = .ok (takeOpt lim (dayKeys glob c b s e f shuf p)) := by
  unfold iterKeys dayKeys
  rw [filterE_total _ _ (fun x _ => ⟨_, relevant_total glob s e f x⟩)]
  simp only [relevant_total, okTrue]
  congr 3
  apply List.filter_congr
  intro x _
  cases relevantB glob s e f x <;> rfl

/-- `iter_recording_ids` never raises; its result is, for EVERY choice stream and shuffle, a sub-multiset of all the
matching keys of all enumerated day folders, of size `min limit matches` -/
theorem iterRecordingIds_spec (days : Nat → Nat → List Nat) (c : Cfg) (b : Bucket) (cat : String) (s e : Option Nat)
    (now : Nat) (f : Meta) (lim : Option Nat) (random : Bool) (ch : Nat → Nat) (shuf : Bucket → Bucket) :
    ∃ keys : List String, iterRecordingIds glob dayStr days c b cat s e now f lim random ch shuf = .ok (keys.map (idOfKey c)) ∧
      (∃ rest, (keys ++ rest).Perm
        ((idPrefixes dayStr days cat s e now).map (dayKeys glob c b s e f (if random then shuf else id))).flatten) ∧
      keys.length = limLen lim
        ((idPrefixes dayStr days cat s e now).map (dayKeys glob c b s e f (if random then shuf else id))).flatten.length := by
  unfold iterRecordingIds
  rw [mapE_total _ (fun p => takeOpt lim (dayKeys glob c b s e f (if random then shuf else id) p)) _
    (fun p _ => iterKeys_ok glob b c p s e f lim _)]
  refine ⟨_, rfl, ?_⟩
  have := merge_takeOpt_spec (if random then ch else id) lim
    ((idPrefixes dayStr days cat s e now).map (dayKeys glob c b s e f (if random then shuf else id)))
  rw [List.map_map] at this
  exact this

/-! ### time windows: the recordings a bucket holds, and which of them a window lookup returns -/

theorem day_mem_prefixDays {s e t : Nat} (h1 : s ≤ t) (h2 : t ≤ e) : day t ∈ prefixDays s e := by
  unfold prefixDays day
  have : ¬ e / 86400 < s / 86400 := by omega
  rw [if_neg this]
  simp only [List.mem_map, List.mem_range]
  exact ⟨t / 86400 - s / 86400, by omega, by omega⟩

theorem mem_prefixDays {s e d : Nat} (h : d ∈ prefixDays s e) : day s ≤ d ∧ d ≤ day e := by
  unfold prefixDays at h
  split at h
  · cases h
  · simp only [List.mem_map, List.mem_range] at h
    obtain ⟨i, hi, rfl⟩ := h
    omega

/-- a recording created and saved at the instant `t` -/
structure TRec where
  cat : String
  uid : String
  t : Nat
  md : Meta
  deriving Repr, Inhabited

/-- `RECORDING_ID.format(category, day=today().strftime(DAY_FORMAT), id=uuid)` -/
def TRec.id (dayStr : Nat → String) (r : TRec) : String := r.cat ++ "/" ++ dayStr (day r.t) ++ "/" ++ r.uid

/-- under `c`'s metadata root the bucket holds exactly one object per recording of `recs`, carrying its metadata and
stamped with its instant (created and saved at the same instant, process clock in UTC) -/
def Holds (dayStr : Nat → String) (c : Cfg) (b : Bucket) (recs : List TRec) : Prop :=
  ((listPrefix b (metaRoot c)).map (fun e => (e.1, e.2.md, e.2.lm))).Perm
    (recs.map (fun r => (metaKey c (r.id dayStr), r.md, r.t)))

theorem Holds.of_mem {c : Cfg} {b : Bucket} {recs : List TRec} (H : Holds dayStr c b recs) {k : String} {o : Obj}
    (hm : (k, o) ∈ b) (hk : startsWith k (metaRoot c) = true) :
    ∃ r ∈ recs, k = metaKey c (r.id dayStr) ∧ o.md = r.md ∧ o.lm = r.t := by
  have h1 : (k, o.md, o.lm) ∈ (listPrefix b (metaRoot c)).map (fun e => (e.1, e.2.md, e.2.lm)) :=
    List.mem_map.2 ⟨(k, o), List.mem_filter.2 ⟨hm, hk⟩, rfl⟩
  obtain ⟨r, hr, heq⟩ := List.mem_map.1 (H.mem_iff.1 h1)
  simp only [Prod.mk.injEq] at heq
  exact ⟨r, hr, heq.1.symm, heq.2.1.symm, heq.2.2.symm⟩

theorem Holds.to_mem {c : Cfg} {b : Bucket} {recs : List TRec} (H : Holds dayStr c b recs) {r : TRec} (hr : r ∈ recs) :
    ∃ o, (metaKey c (r.id dayStr), o) ∈ b ∧ o.md = r.md ∧ o.lm = r.t := by
  have h1 : (metaKey c (r.id dayStr), r.md, r.t) ∈ recs.map (fun r => (metaKey c (r.id dayStr), r.md, r.t)) :=
    List.mem_map.2 ⟨r, hr, rfl⟩
  obtain ⟨⟨k, o⟩, he, heq⟩ := List.mem_map.1 (H.mem_iff.2 h1)
  simp only [Prod.mk.injEq] at heq
  obtain ⟨rfl, h2, h3⟩ := heq
  exact ⟨o, (List.mem_filter.1 he).1, h2, h3⟩

theorem mem_dayKeys {c : Cfg} {b : Bucket} {s e : Option Nat} {f : Meta} {shuf : Bucket → Bucket}
    (hshuf : ∀ l, (shuf l).Perm l) {p k : String} :
    k ∈ dayKeys glob c b s e f shuf p ↔
      ∃ o, (k, o) ∈ b ∧ startsWith k (metaKey c p) = true ∧ relevantB glob s e f (k, o) = true := by
  unfold dayKeys
  simp only [List.mem_map, List.mem_filter, (hshuf _).mem_iff, listPrefix]
  constructor
  · rintro ⟨⟨k', o⟩, ⟨⟨hm, hp⟩, hr⟩, rfl⟩; exact ⟨o, hm, hp, hr⟩
  · rintro ⟨o, hm, hp, hr⟩; exact ⟨(k, o), ⟨⟨hm, hp⟩, hr⟩, rfl⟩

/-- `id ++ "/" ++ …` shape: a recording id starts with `cat/D/` iff its category is `cat` and its day folder is `D`
(no `/` inside categories and day folders) -/
theorem id_startsWith_iff {dayStr : Nat → String} (hns : ∀ d, noChar '/' (dayStr d)) {r : TRec} {cat : String} {d : Nat}
    (hr : noChar '/' r.cat) (hc : noChar '/' cat) :
    startsWith (r.id dayStr) (cat ++ "/" ++ dayStr d ++ "/") = true ↔ r.cat = cat ∧ dayStr (day r.t) = dayStr d := by
  unfold TRec.id
  constructor
  · intro h
    have h' : startsWith (r.cat ++ "/" ++ (dayStr (day r.t) ++ "/" ++ r.uid)) (cat ++ "/" ++ (dayStr d ++ "/" ++ "")) = true := by
      simpa [String.append_assoc] using h
    obtain ⟨h1, h2⟩ := startsWith_sep hr hc h'
    exact ⟨h1, (startsWith_sep (hns _) (hns _) h2).1⟩
  · rintro ⟨h1, h2⟩
    rw [h1, h2]
    exact startsWith_append _ _

/-- Which recordings a window lookup without limit returns, for ANY day enumeration `days`, choice stream and shuffle. -/
theorem window_mem (days : Nat → Nat → List Nat) (hinj : ∀ d d', dayStr d = dayStr d' → d = d')
    (hns : ∀ d, noChar '/' (dayStr d)) (c : Cfg) (b : Bucket) (recs : List TRec) (H : Holds dayStr c b recs)
    (hcat : ∀ r ∈ recs, noChar '/' r.cat) (cat : String) (hq : noChar '/' cat) (s : Nat) (e : Option Nat) (now : Nat)
    (f : Meta) (random : Bool) (ch : Nat → Nat) (shuf : Bucket → Bucket) (hshuf : ∀ l, (shuf l).Perm l) :
    ∃ l, iterRecordingIds glob dayStr days c b cat (some s) e now f none random ch shuf = .ok l ∧
      ∀ id, id ∈ l ↔ ∃ r ∈ recs, r.id dayStr = id ∧ r.cat = cat ∧ day r.t ∈ days s (e.getD now) ∧
        windowPred (some s) e r.t = true ∧
        (f.isEmpty || okTrue (matchMeta glob f (jsonViewFields r.md))) = true := by
  obtain ⟨keys, hok, ⟨rest, hperm⟩, hlen⟩ :=
    iterRecordingIds_spec glob dayStr days c b cat (some s) e now f none random ch shuf
  refine ⟨_, hok, ?_⟩
  have hrest : rest = [] := by
    have h := hperm.length_eq
    rw [List.length_append, hlen] at h
    simp only [limLen] at h
    exact List.eq_nil_of_length_eq_zero (by omega)
  subst hrest
  rw [List.append_nil] at hperm
  have hsh : ∀ l, ((if random then shuf else id) l).Perm l := by
    intro l; cases random
    · exact List.Perm.refl _
    · exact hshuf l
  intro id
  simp only [List.mem_map, hperm.mem_iff, List.mem_flatten, idPrefixes]
  constructor
  · rintro ⟨k, ⟨ks, ⟨p, ⟨d, hd, rfl⟩, rfl⟩, hk⟩, rfl⟩
    obtain ⟨o, hm, hp, hrel⟩ := (mem_dayKeys glob hsh).1 hk
    obtain ⟨r, hr, rfl, hmd, hlm⟩ := H.of_mem dayStr hm (startsWith_trans hp (metaKey_under_metaRoot c _))
    have hp' : startsWith (r.id dayStr) (cat ++ "/" ++ dayStr d ++ "/") = true := by
      unfold metaKey at hp; rwa [startsWith_append_left] at hp
    obtain ⟨hc, hday⟩ := (id_startsWith_iff hns (hcat r hr) hq).1 hp'
    refine ⟨r, hr, (idOfKey_metaKey c (r.id dayStr)).symm, hc, ?_, ?_⟩
    · rw [hinj _ _ hday]; exact hd
    · simpa [relevantB, hmd, hlm] using hrel
  · rintro ⟨r, hr, rfl, hc, hd, hw, hf⟩
    obtain ⟨o, hm, hmd, hlm⟩ := H.to_mem dayStr hr
    refine ⟨metaKey c (r.id dayStr), ⟨_, ⟨_, ⟨day r.t, hd, rfl⟩, rfl⟩, ?_⟩, idOfKey_metaKey c (r.id dayStr)⟩
    refine (mem_dayKeys glob hsh).2 ⟨o, hm, ?_, ?_⟩
    · unfold metaKey; rw [startsWith_append_left]
      exact (id_startsWith_iff hns (hcat r hr) hq).2 ⟨hc, rfl⟩
    · simp only [relevantB, hmd, hlm, hw, Bool.true_and]; exact hf

/-! ### `Holds` is what the cassette's own saves establish -/

theorem deleteKey_of_not_hasKey {b : Bucket} {k : String} (h : hasKey b k = false) : deleteKey b k = b := by
  unfold deleteKey
  apply List.filter_eq_self.2
  intro e he
  cases hk : (e.1 != k) with
  | true => rfl
  | false =>
    have : e.1 = k := by simpa using hk
    have : hasKey b k = true := hasKey_iff.2 ⟨e.2, this ▸ he⟩
    rw [h] at this; cases this

theorem listPrefix_putObj (b : Bucket) (k : String) (o : Obj) (p : String) :
    (listPrefix (putObj b k o) p).Perm
      (if startsWith k p then (k, o) :: listPrefix (deleteKey b k) p else listPrefix (deleteKey b k) p) := by
  unfold listPrefix putObj
  refine ((insertSorted_perm _ _).filter _).trans ?_
  rw [List.filter_cons]
  cases startsWith k p <;> exact List.Perm.refl _

theorem listPrefix_deleteKey_out {b : Bucket} {k p : String} (h : startsWith k p = false) :
    listPrefix (deleteKey b k) p = listPrefix b p := by
  unfold listPrefix deleteKey
  rw [List.filter_filter]
  apply List.filter_congr
  intro e _
  cases hs : startsWith e.1 p with
  | false => rfl
  | true =>
    have : e.1 ≠ k := fun heq => by rw [heq, h] at hs; cases hs
    simpa using this

theorem not_metaRoot_fullKey (c : Cfg) (id : String) : startsWith (fullKey c id) (metaRoot c) = false := by
  cases h : startsWith (fullKey c id) (metaRoot c) with
  | false => rfl
  | true => exact (not_full_and_meta c _ (fullKey_under_fullRoot c id) h).elim

/-- one save adds exactly the recording's metadata object to what lookup can see -/
theorem listPrefix_save (c : Cfg) (b : Bucket) (t : Nat) (r : SaveReq) (hfresh : hasKey b (metaKey c r.id) = false) :
    (listPrefix (applyMutations b (saveSteps c t r)) (metaRoot c)).Perm
      ((metaKey c r.id, ⟨"", r.md, t⟩) :: listPrefix b (metaRoot c)) := by
  simp only [saveSteps, applyMutations, List.foldl_cons, List.foldl_nil, applyMutation]
  refine (listPrefix_putObj _ _ _ _).trans ?_
  rw [metaKey_under_metaRoot, if_pos rfl]
  refine List.Perm.cons _ ?_
  have h1 : hasKey (putObj b (fullKey c r.id) ⟨r.payload, r.md, t⟩) (metaKey c r.id) = false := by
    rw [hasKey_putObj, hfresh]
    have : (fullKey c r.id == metaKey c r.id) = false := by simpa using fullKey_ne_metaKey c r.id r.id
    simp [this]
  rw [deleteKey_of_not_hasKey h1]
  refine (listPrefix_putObj _ _ _ _).trans ?_
  rw [not_metaRoot_fullKey, if_neg (by simp), listPrefix_deleteKey_out (not_metaRoot_fullKey c r.id)]

theorem Holds.hasKey_false {c : Cfg} {b : Bucket} {recs : List TRec} (H : Holds dayStr c b recs) (id : String)
    (hid : ∀ r ∈ recs, r.id dayStr ≠ id) : hasKey b (metaKey c id) = false := by
  cases h : hasKey b (metaKey c id) with
  | false => rfl
  | true =>
    obtain ⟨o, ho⟩ := hasKey_iff.1 h
    obtain ⟨r, hr, hk, _, _⟩ := H.of_mem dayStr ho (metaKey_under_metaRoot c id)
    exact (hid r hr (metaKey_inj hk).symm).elim

/-- saving a recording created at the same instant `r.t` (fresh id) extends what the bucket holds by `r` -/
theorem Holds.save {c : Cfg} {b : Bucket} {recs : List TRec} (H : Holds dayStr c b recs) (r : TRec) (payload : String)
    (hid : ∀ r' ∈ recs, r'.id dayStr ≠ r.id dayStr) :
    Holds dayStr c (applyMutations b (saveSteps c r.t ⟨r.id dayStr, payload, r.md⟩)) (r :: recs) := by
  unfold Holds
  have hp := listPrefix_save c b r.t ⟨r.id dayStr, payload, r.md⟩ (H.hasKey_false dayStr _ hid)
  refine (hp.map _).trans ?_
  simp only [List.map_cons]
  exact List.Perm.cons _ H

/-- the bucket after the model's own `create` + `save` of every recording at its instant, from a bucket with nothing
under the cassette's metadata root -/
def bucketAfter (dayStr : Nat → String) (c : Cfg) (b0 : Bucket) (recs : List TRec) : Bucket :=
  recs.foldl (fun b r => applyMutations b (saveSteps c r.t ⟨r.id dayStr, "payload", r.md⟩)) b0

theorem holds_bucketAfter (c : Cfg) (b0 : Bucket) (h0 : listPrefix b0 (metaRoot c) = []) (recs : List TRec)
    (hnd : (recs.map (TRec.id dayStr)).Nodup) : Holds dayStr c (bucketAfter dayStr c b0 recs) recs.reverse := by
  have gen : ∀ (recs done : List TRec) (b : Bucket), Holds dayStr c b done →
      ((done.map (TRec.id dayStr)) ++ (recs.map (TRec.id dayStr))).Nodup →
      Holds dayStr c (bucketAfter dayStr c b recs) (recs.reverse ++ done) := by
    intro recs
    induction recs with
    | nil => intro done b H _; simpa [bucketAfter] using H
    | cons r recs ih =>
      intro done b H hn
      simp only [bucketAfter, List.foldl_cons, List.reverse_cons, List.append_assoc, List.singleton_append]
      apply ih (r :: done) _ (H.save dayStr r "payload" ?_)
      · simp only [List.map_cons, List.cons_append]
        simp only [List.map_cons] at hn
        exact (List.perm_middle.nodup_iff).1 hn
      · intro r' hr' heq
        simp only [List.map_cons] at hn
        have h1 := (List.nodup_append.1 hn).2.2
        exact h1 _ (List.mem_map.2 ⟨r', hr', rfl⟩) _ (List.mem_cons_self ..) heq
  have := gen recs [] b0 (by simp [Holds, h0]) (by simpa using hnd)
  simpa using this

end PlaybackModel.S3
