import PlaybackModel.Async
/-!
Helper lemmas for C12: the invariants of the buffer / flusher / stop transition system (`Cfg.code`), each preserved by
every step, hence true after every schedule.
-/
namespace PlaybackProofs.Async
open PlaybackModel.Async

variable {W : Type}

/-- operations only (without the success flag) -/
abbrev ops (l : List (Op × Bool)) : List Op := l.map (·.1)

/-! ### no loss, no duplication, order -/

def AInv (s : St W) : Prop := ops s.applied ++ batchRest s.fl ++ s.buf = s.appended

theorem batchRest_nextFl (f : Bool) (r : List Op) : batchRest (nextFl f r) = r := by
  cases r <;> cases f <;> simp [nextFl, batchRest]

theorem step_AInv (app : W → Op → W × Bool) (s : St W) (st : Step) (h : AInv s) :
    AInv (step Cfg.code app s st) := by
  unfold AInv at *
  cases st with
  | produce i =>
    simp only [step]
    split
    · exact h
    · split
      · simp [St.append, ← h, List.append_assoc]
      · exact h
  | close =>
    simp only [step]; split
    · exact h
    · simpa [St.doClose] using h
  | check =>
    simp only [step]; split
    · rename_i hfl
      simp only [hfl, batchRest] at h
      split
      · simpa [Cfg.code, St.setFl, batchRest] using h
      · simpa [St.setFl, batchRest] using h
    · exact h
  | lock =>
    simp only [step]; split
    · rename_i f hfl
      simp only [hfl, batchRest] at h
      split
      · simpa [hfl, batchRest] using h
      · simpa [St.doLock, batchRest] using h
    · exact h
  | swap =>
    simp only [step]; split
    · rename_i f hfl
      simp only [hfl, batchRest] at h
      simpa [St.doSwap, batchRest_nextFl] using h
    · exact h
  | exec =>
    simp only [step]; split
    · rename_i f o r hfl
      simp only [hfl, batchRest] at h
      simp [St.doExec, Cfg.code, batchRest_nextFl, ← h, List.append_assoc]
    · exact h
  | timer =>
    simp only [step]; split
    · rename_i hfl
      simp only [hfl, batchRest] at h
      simpa [St.setFl, batchRest] using h
    · exact h

theorem init_AInv (w0 : W) (ps : List (List Op)) : AInv (init w0 ps) := by
  simp [AInv, init, batchRest]

/-- generic: an invariant of `step` that holds initially holds after every schedule -/
theorem run_invariant (cfg : Cfg) (app : W → Op → W × Bool) (P : St W → Prop)
    (hstep : ∀ s st, P s → P (step cfg app s st)) (sched : List Step) :
    ∀ s, P s → P (run cfg app s sched) := by
  induction sched with
  | nil => intro s h; simpa [run] using h
  | cons a t ih => intro s h; simpa [run] using ih (step cfg app s a) (hstep s a h)

theorem run_AInv (app : W → Op → W × Bool) (w0 : W) (ps : List (List Op)) (sched : List Step) :
    AInv (run Cfg.code app (init w0 ps) sched) :=
  run_invariant _ _ AInv (step_AInv app) sched _ (init_AInv w0 ps)

/-! ### the lock is held exactly between the flusher's `lock` and `swap` steps -/

def flLocked : Fl → Bool
  | .locked _ => true
  | _ => false

def LockInv (s : St W) : Prop := s.lock = flLocked s.fl

theorem flLocked_nextFl (f : Bool) (r : List Op) : flLocked (nextFl f r) = false := by
  cases r <;> cases f <;> simp [nextFl, flLocked]

theorem step_LockInv (app : W → Op → W × Bool) (s : St W) (st : Step) (h : LockInv s) :
    LockInv (step Cfg.code app s st) := by
  unfold LockInv at *
  cases st with
  | produce i =>
    simp only [step]; split
    · exact h
    · split
      · simpa [St.append] using h
      · exact h
  | close =>
    simp only [step]; split
    · exact h
    · simpa [St.doClose] using h
  | check =>
    simp only [step]; split
    · rename_i hfl
      simp only [hfl, flLocked] at h
      split
      · simpa [Cfg.code, St.setFl, flLocked] using h
      · simpa [St.setFl, flLocked] using h
    · exact h
  | lock =>
    simp only [step]; split
    · split
      · exact h
      · simp [St.doLock, flLocked]
    · exact h
  | swap =>
    simp only [step]; split
    · simp only [St.doSwap, flLocked_nextFl, Cfg.code]
      split <;> simp
    · exact h
  | exec =>
    simp only [step]; split
    · rename_i f o r hfl
      simp only [hfl, flLocked] at h
      simp only [St.doExec, flLocked_nextFl, Cfg.code, Bool.or_true, if_true]
      split <;> simp [h]
    · exact h
  | timer =>
    simp only [step]; split
    · rename_i hfl
      simp only [hfl, flLocked] at h
      simpa [St.setFl, flLocked] using h
    · exact h

theorem run_LockInv (app : W → Op → W × Bool) (w0 : W) (ps : List (List Op)) (sched : List Step) :
    LockInv (run Cfg.code app (init w0 ps) sched) :=
  run_invariant _ _ LockInv (step_LockInv app) sched _ (by simp [LockInv, init, flLocked])

/-! ### everything appended before close is flushed -/

def CloseInv (s : St W) : Prop :=
  (s.stop = false → s.beforeClose = []) ∧
  (s.stop = true → s.beforeClose <+: s.appended) ∧
  (match s.fl with
   | .ready true => s.stop = true
   | .locked true => s.stop = true
   | .batch true r => s.stop = true ∧ s.beforeClose <+: ops s.applied ++ r
   | .stopped => s.stop = true ∧ s.beforeClose <+: ops s.applied
   | _ => True)

theorem step_CloseInv (app : W → Op → W × Bool) (s : St W) (st : Step) (h1 : AInv s) (h : CloseInv s) :
    CloseInv (step Cfg.code app s st) := by
  obtain ⟨ha, hb, hc⟩ := h
  unfold AInv at h1
  cases st with
  | produce i =>
    simp only [step]; split
    · exact ⟨ha, hb, hc⟩
    · split
      · refine ⟨ha, fun hs => (hb hs).trans (List.prefix_append _ _), ?_⟩
        simpa [St.append] using hc
      · exact ⟨ha, hb, hc⟩
  | close =>
    simp only [step]; split
    · exact ⟨ha, hb, hc⟩
    · rename_i hs
      have hs' : s.stop = false := by simpa using hs
      refine ⟨by simp [St.doClose], fun _ => by simp [St.doClose], ?_⟩
      simp only [St.doClose]
      revert hc
      split <;> simp_all
  | check =>
    simp only [step]; split
    · rename_i hfl
      split
      · rename_i hs
        exact ⟨ha, hb, by simp [Cfg.code, St.setFl, hs]⟩
      · exact ⟨ha, hb, by simp [St.setFl]⟩
    · exact ⟨ha, hb, hc⟩
  | lock =>
    simp only [step]; split
    · rename_i f hfl
      split
      · exact ⟨ha, hb, hc⟩
      · refine ⟨ha, hb, ?_⟩
        rw [hfl] at hc
        cases f with
        | false => simp [St.doLock]
        | true => simpa [St.doLock] using hc
    · exact ⟨ha, hb, hc⟩
  | swap =>
    simp only [step]; split
    · rename_i f hfl
      refine ⟨ha, hb, ?_⟩
      rw [hfl] at hc
      simp only [hfl, batchRest, List.append_nil] at h1
      cases f with
      | false => cases hbuf : s.buf <;> simp [St.doSwap, nextFl, hbuf]
      | true =>
        have hs : s.stop = true := by simpa using hc
        have hp := hb hs
        rw [← h1] at hp
        cases hbuf : s.buf with
        | nil => simpa [St.doSwap, nextFl, hbuf, hs] using hp
        | cons o r => simpa [St.doSwap, nextFl, hbuf, hs] using hp
    · exact ⟨ha, hb, hc⟩
  | exec =>
    simp only [step]; split
    · rename_i f o r hfl
      refine ⟨ha, hb, ?_⟩
      rw [hfl] at hc
      cases f with
      | false => cases r <;> simp [St.doExec, Cfg.code, nextFl]
      | true =>
        have hc' : s.stop = true ∧ s.beforeClose <+: ops s.applied ++ o :: r := by simpa using hc
        cases r with
        | nil => simpa [St.doExec, Cfg.code, nextFl] using hc'
        | cons o2 r2 => simpa [St.doExec, Cfg.code, nextFl, List.append_assoc] using hc'
    · exact ⟨ha, hb, hc⟩
  | timer =>
    simp only [step]; split
    · exact ⟨ha, hb, by simp [St.setFl]⟩
    · exact ⟨ha, hb, hc⟩

theorem run_AInv_CloseInv (app : W → Op → W × Bool) (w0 : W) (ps : List (List Op)) (sched : List Step) :
    AInv (run Cfg.code app (init w0 ps) sched) ∧ CloseInv (run Cfg.code app (init w0 ps) sched) :=
  run_invariant _ _ (fun s => AInv s ∧ CloseInv s)
    (fun s st h => ⟨step_AInv app s st h.1, step_CloseInv app s st h.1 h.2⟩) sched _
    ⟨init_AInv w0 ps, by simp [CloseInv, init]⟩

/-! ### the wrapped cassette saw exactly the sequential application of `applied` -/

theorem syncRun_snoc (app : W → Op → W × Bool) (w : W) (l : List Op) (o : Op) :
    syncRun app w (l ++ [o]) =
      ((app (syncRun app w l).1 o).1, (syncRun app w l).2 ++ [(o, (app (syncRun app w l).1 o).2)]) := by
  induction l generalizing w with
  | nil => simp [syncRun]
  | cons a t ih => simp [syncRun, ih]

theorem ops_syncRun (app : W → Op → W × Bool) (w : W) (l : List Op) : ops (syncRun app w l).2 = l := by
  induction l generalizing w with
  | nil => simp [syncRun]
  | cons a t ih => simp [syncRun, ih]

/-- the trace of a prefix is the prefix of the trace -/
theorem syncRun_append_trace (app : W → Op → W × Bool) (w : W) (l m : List Op) :
    (syncRun app w (l ++ m)).2 = (syncRun app w l).2 ++ (syncRun app (syncRun app w l).1 m).2 := by
  induction l generalizing w with
  | nil => simp [syncRun]
  | cons a t ih => simp [syncRun, ih]

theorem syncRun_append_store (app : W → Op → W × Bool) (w : W) (l m : List Op) :
    (syncRun app w (l ++ m)).1 = (syncRun app (syncRun app w l).1 m).1 := by
  induction l generalizing w with
  | nil => simp [syncRun]
  | cons a t ih => simp [syncRun, ih]

def TraceInv (app : W → Op → W × Bool) (w0 : W) (s : St W) : Prop :=
  syncRun app w0 (ops s.applied) = (s.store, s.applied)

theorem step_TraceInv (app : W → Op → W × Bool) (w0 : W) (s : St W) (st : Step) (h : TraceInv app w0 s) :
    TraceInv app w0 (step Cfg.code app s st) := by
  unfold TraceInv at *
  cases st with
  | produce i =>
    simp only [step]; split
    · exact h
    · split
      · simpa [St.append] using h
      · exact h
  | close =>
    simp only [step]; split
    · exact h
    · simpa [St.doClose] using h
  | check =>
    simp only [step]; split
    · split
      · simpa [Cfg.code, St.setFl] using h
      · simpa [St.setFl] using h
    · exact h
  | lock =>
    simp only [step]; split
    · split
      · exact h
      · simpa [St.doLock] using h
    · exact h
  | swap =>
    simp only [step]; split
    · simpa [St.doSwap] using h
    · exact h
  | exec =>
    simp only [step]; split
    · rename_i f o r hfl
      simp only [St.doExec, List.map_append, List.map_cons, List.map_nil]
      rw [syncRun_snoc, h]
    · exact h
  | timer =>
    simp only [step]; split
    · simpa [St.setFl] using h
    · exact h

theorem run_TraceInv (app : W → Op → W × Bool) (w0 : W) (ps : List (List Op)) (sched : List Step) :
    TraceInv app w0 (run Cfg.code app (init w0 ps) sched) :=
  run_invariant _ _ (TraceInv app w0) (step_TraceInv app w0) sched _ (by simp [TraceInv, init, syncRun])

/-! ### per-producer program order -/

/-- requests of producer `i` -/
abbrev reqs (ps : List (List Op)) (i : Nat) : List Op := ps.getD i []

/-- every request carries the index of the producer that makes it -/
def Tagged (ps : List (List Op)) : Prop := ∀ i, ∀ o ∈ reqs ps i, o.prod = i

abbrev ofProd (i : Nat) (l : List Op) : List Op := l.filter (fun o => o.prod == i)

theorem popAt_spec (ps : List (List Op)) (i : Nat) (o : Op) (ps' : List (List Op))
    (h : popAt ps i = some (o, ps')) :
    reqs ps i = o :: reqs ps' i ∧ ∀ j, j ≠ i → reqs ps' j = reqs ps j := by
  induction ps generalizing i ps' with
  | nil => simp [popAt] at h
  | cons p t ih =>
    cases i with
    | zero =>
      cases p with
      | nil => simp [popAt] at h
      | cons a r =>
        simp only [popAt, Option.some.injEq, Prod.mk.injEq] at h
        obtain ⟨rfl, rfl⟩ := h
        refine ⟨by simp [reqs], ?_⟩
        intro j hj
        cases j with
        | zero => exact absurd rfl hj
        | succ j => simp [reqs]
    | succ i =>
      rw [popAt] at h
      split at h
      · rename_i o2 ps2 hpop
        simp only [Option.some.injEq, Prod.mk.injEq] at h
        obtain ⟨rfl, rfl⟩ := h
        obtain ⟨h1, h2⟩ := ih i ps2 hpop
        refine ⟨by simpa [reqs] using h1, ?_⟩
        intro j hj
        cases j with
        | zero => simp [reqs]
        | succ j =>
          have := h2 j (by omega)
          simpa [reqs] using this
      · simp at h

/-- what producer `i` has appended so far, followed by what it has still to request, is its program -/
def ProgInv (ps : List (List Op)) (s : St W) : Prop :=
  Tagged s.pending ∧ ∀ i, ofProd i s.appended ++ reqs s.pending i = reqs ps i

theorem step_ProgInv (app : W → Op → W × Bool) (ps : List (List Op)) (s : St W) (st : Step) (h : ProgInv ps s) :
    ProgInv ps (step Cfg.code app s st) := by
  cases st with
  | produce i =>
    simp only [step]; split
    · exact h
    · split
      · rename_i o ps' hpop
        obtain ⟨ht, hp⟩ := h
        obtain ⟨h1, h2⟩ := popAt_spec _ _ _ _ hpop
        have ho : o.prod = i := ht i o (by rw [h1]; simp)
        refine ⟨?_, ?_⟩
        · intro j o' hmem
          by_cases hj : j = i
          · subst hj
            exact ht j o' (by rw [h1]; exact List.mem_cons_of_mem _ hmem)
          · have : reqs ps' j = reqs s.pending j := h2 j hj
            exact ht j o' (by rw [← this]; exact hmem)
        · intro j
          by_cases hj : j = i
          · subst hj
            have := hp j
            rw [h1] at this
            simpa [St.append, ofProd, List.filter_append, ho, List.append_assoc] using this
          · have hne : (o.prod == j) = false := by
              simp only [beq_eq_false_iff_ne, ne_eq]; rw [ho]; exact fun h => hj h.symm
            have := hp j
            rw [← h2 j hj] at this
            simpa [St.append, ofProd, List.filter_append, hne] using this
      · exact h
  | close =>
    simp only [step]; split
    · exact h
    · simpa [St.doClose, ProgInv] using h
  | check =>
    simp only [step]; split
    · split
      · simpa [Cfg.code, St.setFl, ProgInv] using h
      · simpa [St.setFl, ProgInv] using h
    · exact h
  | lock =>
    simp only [step]; split
    · split
      · exact h
      · simpa [St.doLock, ProgInv] using h
    · exact h
  | swap =>
    simp only [step]; split
    · simpa [St.doSwap, ProgInv] using h
    · exact h
  | exec =>
    simp only [step]; split
    · simpa [St.doExec, ProgInv] using h
    · exact h
  | timer =>
    simp only [step]; split
    · simpa [St.setFl, ProgInv] using h
    · exact h

theorem run_ProgInv (app : W → Op → W × Bool) (w0 : W) (ps : List (List Op)) (ht : Tagged ps) (sched : List Step) :
    ProgInv ps (run Cfg.code app (init w0 ps) sched) :=
  run_invariant _ _ (ProgInv ps) (step_ProgInv app ps) sched _ (by simpa [ProgInv, init] using ht)

/-! ### a single producer -/

def SingleInv (rq : List Op) (s : St W) : Prop := ∃ rest, s.pending = [rest] ∧ s.appended ++ rest = rq

theorem step_SingleInv (app : W → Op → W × Bool) (rq : List Op) (s : St W) (st : Step) (h : SingleInv rq s) :
    SingleInv rq (step Cfg.code app s st) := by
  cases st with
  | produce i =>
    simp only [step]; split
    · exact h
    · split
      · rename_i o ps' hpop
        obtain ⟨rest, hp, hr⟩ := h
        rw [hp] at hpop
        cases i with
        | zero =>
          cases rest with
          | nil => simp [popAt] at hpop
          | cons a r =>
            simp only [popAt, Option.some.injEq, Prod.mk.injEq] at hpop
            obtain ⟨rfl, rfl⟩ := hpop
            exact ⟨r, by simp [St.append], by simpa [St.append, List.append_assoc] using hr⟩
        | succ i => simp [popAt] at hpop
      · exact h
  | close =>
    simp only [step]; split
    · exact h
    · simpa [St.doClose, SingleInv] using h
  | check =>
    simp only [step]; split
    · split
      · simpa [Cfg.code, St.setFl, SingleInv] using h
      · simpa [St.setFl, SingleInv] using h
    · exact h
  | lock =>
    simp only [step]; split
    · split
      · exact h
      · simpa [St.doLock, SingleInv] using h
    · exact h
  | swap =>
    simp only [step]; split
    · simpa [St.doSwap, SingleInv] using h
    · exact h
  | exec =>
    simp only [step]; split
    · simpa [St.doExec, SingleInv] using h
    · exact h
  | timer =>
    simp only [step]; split
    · simpa [St.setFl, SingleInv] using h
    · exact h

theorem run_SingleInv (app : W → Op → W × Bool) (w0 : W) (rq : List Op) (sched : List Step) :
    SingleInv rq (run Cfg.code app (init w0 [rq]) sched) :=
  run_invariant _ _ (SingleInv rq) (step_SingleInv app rq) sched _ ⟨rq, by simp [init], by simp [init]⟩

/-! ### producers running one after the other (`ps.flatten`) -/

theorem ofProd_flatten_from (k : Nat) (ps : List (List Op)) (ht : ∀ i, ∀ o ∈ reqs ps i, o.prod = k + i) :
    (∀ o ∈ ps.flatten, k ≤ o.prod) ∧ ∀ i, ps.flatten.filter (fun o => o.prod == k + i) = reqs ps i := by
  induction ps generalizing k with
  | nil => simp [reqs]
  | cons p t ih =>
    have hp : ∀ o ∈ p, o.prod = k := by
      intro o ho
      have := ht 0 o (by simpa [reqs] using ho)
      simpa using this
    have ht' : ∀ i, ∀ o ∈ reqs t i, o.prod = (k + 1) + i := by
      intro i o ho
      have := ht (i + 1) o (by simpa [reqs] using ho)
      omega
    obtain ⟨hge, hfil⟩ := ih (k + 1) ht'
    refine ⟨?_, ?_⟩
    · intro o ho
      simp only [List.flatten_cons, List.mem_append] at ho
      rcases ho with ho | ho
      · exact Nat.le_of_eq (hp o ho).symm
      · exact Nat.le_of_succ_le (hge o ho)
    · intro i
      simp only [List.flatten_cons, List.filter_append]
      cases i with
      | zero =>
        have h1 : p.filter (fun o => o.prod == k + 0) = p := by
          apply List.filter_eq_self.mpr
          intro o ho; simp [hp o ho]
        have h2 : t.flatten.filter (fun o => o.prod == k + 0) = [] := by
          apply List.filter_eq_nil_iff.mpr
          intro o ho
          have := hge o ho
          simp only [Nat.add_zero, beq_iff_eq]; omega
        rw [h1, h2]; simp [reqs]
      | succ i =>
        have h1 : p.filter (fun o => o.prod == k + (i + 1)) = [] := by
          apply List.filter_eq_nil_iff.mpr
          intro o ho
          simp only [beq_iff_eq, hp o ho]; omega
        have h2 := hfil i
        have h3 : (fun o : Op => o.prod == k + (i + 1)) = (fun o : Op => o.prod == k + 1 + i) := by
          funext o; congr 1; omega
        rw [h1, h3, h2]; simp [reqs]

theorem ofProd_flatten (ps : List (List Op)) (ht : Tagged ps) (i : Nat) : ofProd i ps.flatten = reqs ps i := by
  have := (ofProd_flatten_from 0 ps (by intro i o ho; simpa using ht i o ho)).2 i
  simpa [ofProd] using this

/-- if every recording is written by one producer only, the operations on recording `n` in any list whose per-producer
projections are the programs are the owner's operations on `n` -/
theorem filter_rec_of_owner (ps : List (List Op)) (owner : Nat → Nat)
    (hown : ∀ i, ∀ o ∈ reqs ps i, owner o.recId = i) (L : List Op) (hL : ∀ i, ofProd i L = reqs ps i) (n : Nat) :
    L.filter (fun o => o.recId == n) = (reqs ps (owner n)).filter (fun o => o.recId == n) := by
  rw [← hL (owner n)]
  simp only [ofProd, List.filter_filter]
  apply List.filter_congr
  intro o ho
  by_cases hq : o.recId = n
  · have hmem : o ∈ reqs ps o.prod := by
      rw [← hL o.prod]; simp [ofProd, ho]
    have := hown o.prod o hmem
    simp [hq, ← this]
  · simp [hq]

/-! ### after close() the flusher's own steps bring it to `stopped` (no step of anybody else is needed) -/

/-- a batch is never empty (the flusher goes straight to `waiting` / `stopped` instead) -/
def flWF : Fl → Bool
  | .batch _ [] => false
  | _ => true

theorem flWF_nextFl (f : Bool) (r : List Op) : flWF (nextFl f r) = true := by
  cases r <;> cases f <;> simp [nextFl, flWF]

def FlInv (s : St W) : Prop := flWF s.fl = true

theorem step_FlInv (app : W → Op → W × Bool) (s : St W) (st : Step) (h : FlInv s) :
    FlInv (step Cfg.code app s st) := by
  unfold FlInv at *
  cases st with
  | produce i =>
    simp only [step]; split
    · exact h
    · split
      · simpa [St.append] using h
      · exact h
  | close =>
    simp only [step]; split
    · exact h
    · simpa [St.doClose] using h
  | check =>
    simp only [step]; split
    · split
      · simp [Cfg.code, St.setFl, flWF]
      · simp [St.setFl, flWF]
    · exact h
  | lock =>
    simp only [step]; split
    · split
      · exact h
      · simp [St.doLock, flWF]
    · exact h
  | swap =>
    simp only [step]; split
    · simp [St.doSwap, flWF_nextFl]
    · exact h
  | exec =>
    simp only [step]; split
    · simp [St.doExec, flWF_nextFl]
    · exact h
  | timer =>
    simp only [step]; split
    · simp [St.setFl, flWF]
    · exact h

theorem run_FlInv (app : W → Op → W × Bool) (w0 : W) (ps : List (List Op)) (sched : List Step) :
    FlInv (run Cfg.code app (init w0 ps) sched) :=
  run_invariant _ _ FlInv (step_FlInv app) sched _ (by simp [FlInv, init, flWF])

theorem run_append (cfg : Cfg) (app : W → Op → W × Bool) (s : St W) (a b : List Step) :
    run cfg app s (a ++ b) = run cfg app (run cfg app s a) b := by
  simp [run, List.foldl_append]

theorem run_cons (cfg : Cfg) (app : W → Op → W × Bool) (s : St W) (a : Step) (b : List Step) :
    run cfg app s (a :: b) = run cfg app (step cfg app s a) b := by
  simp [run]

def execs (n : Nat) : List Step := List.replicate n Step.exec

/-- what the flusher's steps leave alone -/
def sameShared (s s' : St W) : Prop := s'.stop = s.stop ∧ s'.pending = s.pending

theorem drain (app : W → Op → W × Bool) (f : Bool) :
    ∀ (r : List Op) (s : St W), s.fl = nextFl f r → s.lock = false →
      (run Cfg.code app s (execs r.length)).fl = nextFl f [] ∧ (run Cfg.code app s (execs r.length)).lock = false ∧
      (run Cfg.code app s (execs r.length)).buf = s.buf ∧ sameShared s (run Cfg.code app s (execs r.length))
  | [], s, h, hl => by simp [execs, run, h, hl, sameShared]
  | o :: t, s, h, hl => by
    have hstep : step Cfg.code app s .exec = s.doExec Cfg.code app f o t := by
      simp only [nextFl] at h
      simp [step, h]
    have ih := drain app f t (s.doExec Cfg.code app f o t) (by simp [St.doExec, Cfg.code])
      (by simp only [St.doExec, Cfg.code, Bool.or_true, if_true]; cases t <;> simp [hl])
    simp only [execs, List.length_cons, List.replicate_succ, run_cons, hstep]
    simpa [St.doExec, sameShared, execs] using ih

/-- from `locked f`: swap, then execute the whole batch -/
theorem fromLocked (app : W → Op → W × Bool) (f : Bool) (s : St W) (h : s.fl = .locked f) :
    (run Cfg.code app s (.swap :: execs s.buf.length)).fl = nextFl f [] ∧
    (run Cfg.code app s (.swap :: execs s.buf.length)).lock = false ∧
    (run Cfg.code app s (.swap :: execs s.buf.length)).buf = [] ∧
    sameShared s (run Cfg.code app s (.swap :: execs s.buf.length)) := by
  have hstep : step Cfg.code app s .swap = s.doSwap Cfg.code f := by simp [step, h]
  have hl : (s.doSwap Cfg.code f).lock = false := by
    simp only [St.doSwap, Cfg.code]; split <;> simp
  have d := drain app f s.buf (s.doSwap Cfg.code f) (by simp [St.doSwap]) hl
  rw [run_cons, hstep]
  simpa [St.doSwap, sameShared] using d

theorem fromReady (app : W → Op → W × Bool) (f : Bool) (s : St W) (h : s.fl = .ready f) (hl : s.lock = false) :
    (run Cfg.code app s (.lock :: .swap :: execs s.buf.length)).fl = nextFl f [] ∧
    (run Cfg.code app s (.lock :: .swap :: execs s.buf.length)).lock = false ∧
    (run Cfg.code app s (.lock :: .swap :: execs s.buf.length)).buf = [] ∧
    sameShared s (run Cfg.code app s (.lock :: .swap :: execs s.buf.length)) := by
  have hstep : step Cfg.code app s .lock = s.doLock f := by simp [step, h, hl]
  have d := fromLocked app f (s.doLock f) (by simp [St.doLock])
  rw [run_cons, hstep]
  simpa [St.doLock, sameShared] using d

theorem fromTop (app : W → Op → W × Bool) (s : St W) (h : s.fl = .atTop) (hl : s.lock = false) (hs : s.stop = true) :
    (run Cfg.code app s (.check :: .lock :: .swap :: execs s.buf.length)).fl = .stopped := by
  have hstep : step Cfg.code app s .check = s.setFl (.ready true) := by simp [step, h, hs, Cfg.code]
  have d := fromReady app true (s.setFl (.ready true)) (by simp [St.setFl]) (by simpa [St.setFl] using hl)
  rw [run_cons, hstep]
  simpa [St.setFl, nextFl] using d.1

/-- the flusher-only steps that finish the job from wherever the flusher is -/
def finishSteps (s : St W) : List Step :=
  match s.fl with
  | .atTop => .check :: .lock :: .swap :: execs s.buf.length
  | .ready true => .lock :: .swap :: execs s.buf.length
  | .ready false => (.lock :: .swap :: execs s.buf.length) ++ [.timer, .check, .lock, .swap]
  | .locked true => .swap :: execs s.buf.length
  | .locked false => (.swap :: execs s.buf.length) ++ [.timer, .check, .lock, .swap]
  | .batch true r => execs r.length
  | .batch false r => execs r.length ++ (.timer :: .check :: .lock :: .swap :: execs s.buf.length)
  | .waiting => .timer :: .check :: .lock :: .swap :: execs s.buf.length
  | .stopped => []

def flusherStep : Step → Bool
  | .produce _ => false
  | .close => false
  | _ => true

theorem execs_all (n : Nat) : (execs n).all flusherStep = true := by
  induction n with
  | zero => simp [execs]
  | succ n ih => simp [execs, List.replicate_succ, flusherStep]

theorem finishSteps_all (s : St W) : (finishSteps s).all flusherStep = true := by
  unfold finishSteps
  split <;> simp [List.all_append, execs_all, flusherStep]

/-- once the stop event is set, the flusher's own steps take it to `stopped` from any well-formed state -/
theorem finish_stops (app : W → Op → W × Bool) (s : St W) (hl : s.lock = flLocked s.fl) (hw : flWF s.fl = true)
    (hs : s.stop = true) : (run Cfg.code app s (finishSteps s)).fl = .stopped := by
  -- second round: from `waiting` with an empty or non-empty buffer
  have second : ∀ t : St W, t.fl = .waiting → t.lock = false → t.stop = true →
      (run Cfg.code app t (.timer :: .check :: .lock :: .swap :: execs t.buf.length)).fl = .stopped := by
    intro t ht htl hts
    have hstep : step Cfg.code app t .timer = t.setFl .atTop := by simp [step, ht]
    rw [run_cons, hstep]
    exact fromTop app (t.setFl .atTop) (by simp [St.setFl]) (by simpa [St.setFl] using htl)
      (by simpa [St.setFl] using hts)
  unfold finishSteps
  split
  · rename_i h
    exact fromTop app s h (by simp [hl, h, flLocked]) hs
  · rename_i h
    have d := fromReady app true s h (by simp [hl, h, flLocked])
    simpa [nextFl] using d.1
  · rename_i h
    have d := fromReady app false s h (by simp [hl, h, flLocked])
    rw [run_append]
    have := second _ (by simpa [nextFl] using d.1) d.2.1 (by rw [d.2.2.2.1]; exact hs)
    rw [d.2.2.1] at this
    simpa [execs] using this
  · rename_i h
    have d := fromLocked app true s h
    simpa [nextFl] using d.1
  · rename_i h
    have d := fromLocked app false s h
    rw [run_append]
    have := second _ (by simpa [nextFl] using d.1) d.2.1 (by rw [d.2.2.2.1]; exact hs)
    rw [d.2.2.1] at this
    simpa [execs] using this
  · rename_i r h
    cases r with
    | nil => simp [h, flWF] at hw
    | cons o t =>
      have d := drain app true (o :: t) s (by simp [h, nextFl]) (by simp [hl, h, flLocked])
      simpa [nextFl] using d.1
  · rename_i r h
    cases r with
    | nil => simp [h, flWF] at hw
    | cons o t =>
      have d := drain app false (o :: t) s (by simp [h, nextFl]) (by simp [hl, h, flLocked])
      rw [run_append]
      have := second _ (by simpa [nextFl] using d.1) d.2.1 (by rw [d.2.2.2.1]; exact hs)
      rw [d.2.2.1] at this
      simpa using this
  · rename_i h
    exact second s h (by simp [hl, h, flLocked]) hs
  · rename_i h
    simpa [run] using h

/-! ### list facts -/

theorem prefix_antisymm_eq {α} {a b : List α} (h1 : a <+: b) (h2 : b <+: a) : a = b := by
  obtain ⟨t, rfl⟩ := h1
  obtain ⟨u, hu⟩ := h2
  have : t ++ u = [] := by
    have := congrArg List.length hu
    simp only [List.length_append] at this
    have hl : t.length + u.length = 0 := by omega
    exact List.eq_nil_of_length_eq_zero (by simpa using hl)
  have ht : t = [] := (List.append_eq_nil_iff.mp this).1
  simp [ht]

theorem filter_prefix {α} (p : α → Bool) {a b : List α} (h : a <+: b) : a.filter p <+: b.filter p := by
  obtain ⟨t, rfl⟩ := h
  simp [List.filter_append]

/-! ### the concrete store: a recording's state depends only on the operations that target it -/

theorem applyOp_at (w : Store) (o : Op) (n : Nat) :
    (applyOp w o).1 n = if n = o.recId then (if o.poison then w n else (applyRec (w n) o.kind).1) else w n := by
  unfold applyOp
  by_cases hp : o.poison = true
  · simp [hp]
  · by_cases hn : n = o.recId
    · subst hn; simp [hp]
    · simp [hp, hn]

theorem syncRun_store_at (w : Store) (l : List Op) (n : Nat) :
    (syncRun applyOp w l).1 n = recAfter (w n) (l.filter (fun o => o.recId == n)) := by
  induction l generalizing w with
  | nil => simp [syncRun, recAfter]
  | cons o t ih =>
    simp only [syncRun, ih, applyOp_at]
    by_cases hn : n = o.recId
    · subst hn
      simp [recAfter]
    · have : (o.recId == n) = false := by simp only [beq_eq_false_iff_ne, ne_eq]; exact fun h => hn h.symm
      simp [this, hn]

end PlaybackProofs.Async
