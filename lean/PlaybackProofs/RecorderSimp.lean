import PlaybackModel.Recorder
import PlaybackProofs.SourceAtoms
/-! Generated projection lemmas: which state components each helper leaves untouched (tools/gen_recorder_simp.py). -/
namespace PlaybackModel.Recorder

@[simp] theorem addJournal_enabled (s : St) (e : String × Args) : (addJournal s e).enabled = s.enabled := by
  simp only [addJournal]
@[simp] theorem addJournal_active (s : St) (e : String × Args) : (addJournal s e).active = s.active := by
  simp only [addJournal]
@[simp] theorem addJournal_forced (s : St) (e : String × Args) : (addJournal s e).forced = s.forced := by
  simp only [addJournal]
@[simp] theorem addJournal_counter (s : St) (e : String × Args) : (addJournal s e).counter = s.counter := by
  simp only [addJournal]
@[simp] theorem addJournal_playback (s : St) (e : String × Args) : (addJournal s e).playback = s.playback := by
  simp only [addJournal]
@[simp] theorem addJournal_playbackOutputs (s : St) (e : String × Args) : (addJournal s e).playbackOutputs = s.playbackOutputs := by
  simp only [addJournal]
@[simp] theorem addJournal_inInt (s : St) (e : String × Args) : (addJournal s e).inInt = s.inInt := by
  simp only [addJournal]
@[simp] theorem addJournal_draws (s : St) (e : String × Args) : (addJournal s e).draws = s.draws := by
  simp only [addJournal]
@[simp] theorem addJournal_drawn (s : St) (e : String × Args) : (addJournal s e).drawn = s.drawn := by
  simp only [addJournal]
@[simp] theorem addJournal_clock (s : St) (e : String × Args) : (addJournal s e).clock = s.clock := by
  simp only [addJournal]
@[simp] theorem addJournal_nextId (s : St) (e : String × Args) : (addJournal s e).nextId = s.nextId := by
  simp only [addJournal]
@[simp] theorem addJournal_store (s : St) (e : String × Args) : (addJournal s e).store = s.store := by
  simp only [addJournal]
@[simp] theorem addJournal_log (s : St) (e : String × Args) : (addJournal s e).log = s.log := by
  simp only [addJournal]
@[simp] theorem addLog_enabled (s : St) (e : Ev) : (addLog s e).enabled = s.enabled := by
  simp only [addLog]
@[simp] theorem addLog_active (s : St) (e : Ev) : (addLog s e).active = s.active := by
  simp only [addLog]
@[simp] theorem addLog_forced (s : St) (e : Ev) : (addLog s e).forced = s.forced := by
  simp only [addLog]
@[simp] theorem addLog_counter (s : St) (e : Ev) : (addLog s e).counter = s.counter := by
  simp only [addLog]
@[simp] theorem addLog_playback (s : St) (e : Ev) : (addLog s e).playback = s.playback := by
  simp only [addLog]
@[simp] theorem addLog_playbackOutputs (s : St) (e : Ev) : (addLog s e).playbackOutputs = s.playbackOutputs := by
  simp only [addLog]
@[simp] theorem addLog_inInt (s : St) (e : Ev) : (addLog s e).inInt = s.inInt := by
  simp only [addLog]
@[simp] theorem addLog_draws (s : St) (e : Ev) : (addLog s e).draws = s.draws := by
  simp only [addLog]
@[simp] theorem addLog_drawn (s : St) (e : Ev) : (addLog s e).drawn = s.drawn := by
  simp only [addLog]
@[simp] theorem addLog_clock (s : St) (e : Ev) : (addLog s e).clock = s.clock := by
  simp only [addLog]
@[simp] theorem addLog_nextId (s : St) (e : Ev) : (addLog s e).nextId = s.nextId := by
  simp only [addLog]
@[simp] theorem addLog_store (s : St) (e : Ev) : (addLog s e).store = s.store := by
  simp only [addLog]
@[simp] theorem addLog_journal (s : St) (e : Ev) : (addLog s e).journal = s.journal := by
  simp only [addLog]
@[simp] theorem bump_enabled (s : St) (a : String) : (bump s a).enabled = s.enabled := by
  simp only [bump]
@[simp] theorem bump_active (s : St) (a : String) : (bump s a).active = s.active := by
  simp only [bump]
@[simp] theorem bump_forced (s : St) (a : String) : (bump s a).forced = s.forced := by
  simp only [bump]
@[simp] theorem bump_playback (s : St) (a : String) : (bump s a).playback = s.playback := by
  simp only [bump]
@[simp] theorem bump_playbackOutputs (s : St) (a : String) : (bump s a).playbackOutputs = s.playbackOutputs := by
  simp only [bump]
@[simp] theorem bump_inInt (s : St) (a : String) : (bump s a).inInt = s.inInt := by
  simp only [bump]
@[simp] theorem bump_draws (s : St) (a : String) : (bump s a).draws = s.draws := by
  simp only [bump]
@[simp] theorem bump_drawn (s : St) (a : String) : (bump s a).drawn = s.drawn := by
  simp only [bump]
@[simp] theorem bump_clock (s : St) (a : String) : (bump s a).clock = s.clock := by
  simp only [bump]
@[simp] theorem bump_nextId (s : St) (a : String) : (bump s a).nextId = s.nextId := by
  simp only [bump]
@[simp] theorem bump_store (s : St) (a : String) : (bump s a).store = s.store := by
  simp only [bump]
@[simp] theorem bump_log (s : St) (a : String) : (bump s a).log = s.log := by
  simp only [bump]
@[simp] theorem bump_journal (s : St) (a : String) : (bump s a).journal = s.journal := by
  simp only [bump]
@[simp] theorem setInt_enabled (s : St) (b : Bool) : (setInt s b).enabled = s.enabled := by
  simp only [setInt]
@[simp] theorem setInt_active (s : St) (b : Bool) : (setInt s b).active = s.active := by
  simp only [setInt]
@[simp] theorem setInt_forced (s : St) (b : Bool) : (setInt s b).forced = s.forced := by
  simp only [setInt]
@[simp] theorem setInt_counter (s : St) (b : Bool) : (setInt s b).counter = s.counter := by
  simp only [setInt]
@[simp] theorem setInt_playback (s : St) (b : Bool) : (setInt s b).playback = s.playback := by
  simp only [setInt]
@[simp] theorem setInt_playbackOutputs (s : St) (b : Bool) : (setInt s b).playbackOutputs = s.playbackOutputs := by
  simp only [setInt]
@[simp] theorem setInt_draws (s : St) (b : Bool) : (setInt s b).draws = s.draws := by
  simp only [setInt]
@[simp] theorem setInt_drawn (s : St) (b : Bool) : (setInt s b).drawn = s.drawn := by
  simp only [setInt]
@[simp] theorem setInt_clock (s : St) (b : Bool) : (setInt s b).clock = s.clock := by
  simp only [setInt]
@[simp] theorem setInt_nextId (s : St) (b : Bool) : (setInt s b).nextId = s.nextId := by
  simp only [setInt]
@[simp] theorem setInt_store (s : St) (b : Bool) : (setInt s b).store = s.store := by
  simp only [setInt]
@[simp] theorem setInt_log (s : St) (b : Bool) : (setInt s b).log = s.log := by
  simp only [setInt]
@[simp] theorem setInt_journal (s : St) (b : Bool) : (setInt s b).journal = s.journal := by
  simp only [setInt]
@[simp] theorem resetActive_enabled (s : St) : (resetActive s).enabled = s.enabled := by
  simp only [resetActive]
@[simp] theorem resetActive_playback (s : St) : (resetActive s).playback = s.playback := by
  simp only [resetActive]
@[simp] theorem resetActive_playbackOutputs (s : St) : (resetActive s).playbackOutputs = s.playbackOutputs := by
  simp only [resetActive]
@[simp] theorem resetActive_inInt (s : St) : (resetActive s).inInt = s.inInt := by
  simp only [resetActive]
@[simp] theorem resetActive_draws (s : St) : (resetActive s).draws = s.draws := by
  simp only [resetActive]
@[simp] theorem resetActive_drawn (s : St) : (resetActive s).drawn = s.drawn := by
  simp only [resetActive]
@[simp] theorem resetActive_clock (s : St) : (resetActive s).clock = s.clock := by
  simp only [resetActive]
@[simp] theorem resetActive_nextId (s : St) : (resetActive s).nextId = s.nextId := by
  simp only [resetActive]
@[simp] theorem resetActive_store (s : St) : (resetActive s).store = s.store := by
  simp only [resetActive]
@[simp] theorem resetActive_log (s : St) : (resetActive s).log = s.log := by
  simp only [resetActive]
@[simp] theorem resetActive_journal (s : St) : (resetActive s).journal = s.journal := by
  simp only [resetActive]
@[simp] theorem doDiscard_enabled (s : St) : (doDiscard s).enabled = s.enabled := by
  unfold doDiscard; split <;> simp only [resetActive, addLog]
@[simp] theorem doDiscard_playback (s : St) : (doDiscard s).playback = s.playback := by
  unfold doDiscard; split <;> simp only [resetActive, addLog]
@[simp] theorem doDiscard_playbackOutputs (s : St) : (doDiscard s).playbackOutputs = s.playbackOutputs := by
  unfold doDiscard; split <;> simp only [resetActive, addLog]
@[simp] theorem doDiscard_inInt (s : St) : (doDiscard s).inInt = s.inInt := by
  unfold doDiscard; split <;> simp only [resetActive, addLog]
@[simp] theorem doDiscard_draws (s : St) : (doDiscard s).draws = s.draws := by
  unfold doDiscard; split <;> simp only [resetActive, addLog]
@[simp] theorem doDiscard_drawn (s : St) : (doDiscard s).drawn = s.drawn := by
  unfold doDiscard; split <;> simp only [resetActive, addLog]
@[simp] theorem doDiscard_clock (s : St) : (doDiscard s).clock = s.clock := by
  unfold doDiscard; split <;> simp only [resetActive, addLog]
@[simp] theorem doDiscard_nextId (s : St) : (doDiscard s).nextId = s.nextId := by
  unfold doDiscard; split <;> simp only [resetActive, addLog]
@[simp] theorem doDiscard_store (s : St) : (doDiscard s).store = s.store := by
  unfold doDiscard; split <;> simp only [resetActive, addLog]
@[simp] theorem doDiscard_journal (s : St) : (doDiscard s).journal = s.journal := by
  unfold doDiscard; split <;> simp only [resetActive, addLog]
@[simp] theorem doSetEnabled_playback (s : St) (b : Bool) : (doSetEnabled s b).playback = s.playback := by
  rw [doSetEnabled_eq]; split <;> simp
@[simp] theorem doSetEnabled_playbackOutputs (s : St) (b : Bool) : (doSetEnabled s b).playbackOutputs = s.playbackOutputs := by
  rw [doSetEnabled_eq]; split <;> simp
@[simp] theorem doSetEnabled_inInt (s : St) (b : Bool) : (doSetEnabled s b).inInt = s.inInt := by
  rw [doSetEnabled_eq]; split <;> simp
@[simp] theorem doSetEnabled_draws (s : St) (b : Bool) : (doSetEnabled s b).draws = s.draws := by
  rw [doSetEnabled_eq]; split <;> simp
@[simp] theorem doSetEnabled_drawn (s : St) (b : Bool) : (doSetEnabled s b).drawn = s.drawn := by
  rw [doSetEnabled_eq]; split <;> simp
@[simp] theorem doSetEnabled_clock (s : St) (b : Bool) : (doSetEnabled s b).clock = s.clock := by
  rw [doSetEnabled_eq]; split <;> simp
@[simp] theorem doSetEnabled_nextId (s : St) (b : Bool) : (doSetEnabled s b).nextId = s.nextId := by
  rw [doSetEnabled_eq]; split <;> simp
@[simp] theorem doSetEnabled_store (s : St) (b : Bool) : (doSetEnabled s b).store = s.store := by
  rw [doSetEnabled_eq]; split <;> simp
@[simp] theorem doSetEnabled_journal (s : St) (b : Bool) : (doSetEnabled s b).journal = s.journal := by
  rw [doSetEnabled_eq]; split <;> simp
@[simp] theorem doSetEnabled_enabled (s : St) (b : Bool) : (doSetEnabled s b).enabled = b := by
  rw [doSetEnabled_eq]; split <;> simp_all
theorem doSetEnabled_inactive {s : St} (b : Bool) (h : s.active = none) : doSetEnabled s b = { s with enabled := b } := by
  cases b <;> simp [doSetEnabled_eq, doDiscard, h]
theorem doSetEnabled_true (s : St) : doSetEnabled s true = { s with enabled := true } := by simp [doSetEnabled_eq]
theorem doSetEnabled_false (s : St) : doSetEnabled s false = { doDiscard s with enabled := false } := by simp [doSetEnabled_eq]
@[simp] theorem doForce_enabled (s : St) : (doForce s).enabled = s.enabled := by
  unfold doForce; split <;> (try split) <;> rfl
@[simp] theorem doForce_active (s : St) : (doForce s).active = s.active := by
  unfold doForce; split <;> (try split) <;> rfl
@[simp] theorem doForce_counter (s : St) : (doForce s).counter = s.counter := by
  unfold doForce; split <;> (try split) <;> rfl
@[simp] theorem doForce_playback (s : St) : (doForce s).playback = s.playback := by
  unfold doForce; split <;> (try split) <;> rfl
@[simp] theorem doForce_playbackOutputs (s : St) : (doForce s).playbackOutputs = s.playbackOutputs := by
  unfold doForce; split <;> (try split) <;> rfl
@[simp] theorem doForce_inInt (s : St) : (doForce s).inInt = s.inInt := by
  unfold doForce; split <;> (try split) <;> rfl
@[simp] theorem doForce_draws (s : St) : (doForce s).draws = s.draws := by
  unfold doForce; split <;> (try split) <;> rfl
@[simp] theorem doForce_drawn (s : St) : (doForce s).drawn = s.drawn := by
  unfold doForce; split <;> (try split) <;> rfl
@[simp] theorem doForce_clock (s : St) : (doForce s).clock = s.clock := by
  unfold doForce; split <;> (try split) <;> rfl
@[simp] theorem doForce_nextId (s : St) : (doForce s).nextId = s.nextId := by
  unfold doForce; split <;> (try split) <;> rfl
@[simp] theorem doForce_store (s : St) : (doForce s).store = s.store := by
  unfold doForce; split <;> (try split) <;> rfl
@[simp] theorem doForce_log (s : St) : (doForce s).log = s.log := by
  unfold doForce; split <;> (try split) <;> rfl
@[simp] theorem doForce_journal (s : St) : (doForce s).journal = s.journal := by
  unfold doForce; split <;> (try split) <;> rfl
@[simp] theorem write_enabled (s : St) (k : Key) (v : RVal) : (write s k v).enabled = s.enabled := by
  unfold write; split <;> rfl
@[simp] theorem write_forced (s : St) (k : Key) (v : RVal) : (write s k v).forced = s.forced := by
  unfold write; split <;> rfl
@[simp] theorem write_counter (s : St) (k : Key) (v : RVal) : (write s k v).counter = s.counter := by
  unfold write; split <;> rfl
@[simp] theorem write_playback (s : St) (k : Key) (v : RVal) : (write s k v).playback = s.playback := by
  unfold write; split <;> rfl
@[simp] theorem write_playbackOutputs (s : St) (k : Key) (v : RVal) : (write s k v).playbackOutputs = s.playbackOutputs := by
  unfold write; split <;> rfl
@[simp] theorem write_inInt (s : St) (k : Key) (v : RVal) : (write s k v).inInt = s.inInt := by
  unfold write; split <;> rfl
@[simp] theorem write_draws (s : St) (k : Key) (v : RVal) : (write s k v).draws = s.draws := by
  unfold write; split <;> rfl
@[simp] theorem write_drawn (s : St) (k : Key) (v : RVal) : (write s k v).drawn = s.drawn := by
  unfold write; split <;> rfl
@[simp] theorem write_clock (s : St) (k : Key) (v : RVal) : (write s k v).clock = s.clock := by
  unfold write; split <;> rfl
@[simp] theorem write_nextId (s : St) (k : Key) (v : RVal) : (write s k v).nextId = s.nextId := by
  unfold write; split <;> rfl
@[simp] theorem write_store (s : St) (k : Key) (v : RVal) : (write s k v).store = s.store := by
  unfold write; split <;> rfl
@[simp] theorem write_log (s : St) (k : Key) (v : RVal) : (write s k v).log = s.log := by
  unfold write; split <;> rfl
@[simp] theorem write_journal (s : St) (k : Key) (v : RVal) : (write s k v).journal = s.journal := by
  unfold write; split <;> rfl
@[simp] theorem pushPlayback_enabled (s : St) (k : Key) (v : RVal) : (pushPlayback s k v).enabled = s.enabled := by
  simp only [pushPlayback]
@[simp] theorem pushPlayback_active (s : St) (k : Key) (v : RVal) : (pushPlayback s k v).active = s.active := by
  simp only [pushPlayback]
@[simp] theorem pushPlayback_forced (s : St) (k : Key) (v : RVal) : (pushPlayback s k v).forced = s.forced := by
  simp only [pushPlayback]
@[simp] theorem pushPlayback_counter (s : St) (k : Key) (v : RVal) : (pushPlayback s k v).counter = s.counter := by
  simp only [pushPlayback]
@[simp] theorem pushPlayback_playback (s : St) (k : Key) (v : RVal) : (pushPlayback s k v).playback = s.playback := by
  simp only [pushPlayback]
@[simp] theorem pushPlayback_inInt (s : St) (k : Key) (v : RVal) : (pushPlayback s k v).inInt = s.inInt := by
  simp only [pushPlayback]
@[simp] theorem pushPlayback_draws (s : St) (k : Key) (v : RVal) : (pushPlayback s k v).draws = s.draws := by
  simp only [pushPlayback]
@[simp] theorem pushPlayback_drawn (s : St) (k : Key) (v : RVal) : (pushPlayback s k v).drawn = s.drawn := by
  simp only [pushPlayback]
@[simp] theorem pushPlayback_clock (s : St) (k : Key) (v : RVal) : (pushPlayback s k v).clock = s.clock := by
  simp only [pushPlayback]
@[simp] theorem pushPlayback_nextId (s : St) (k : Key) (v : RVal) : (pushPlayback s k v).nextId = s.nextId := by
  simp only [pushPlayback]
@[simp] theorem pushPlayback_store (s : St) (k : Key) (v : RVal) : (pushPlayback s k v).store = s.store := by
  simp only [pushPlayback]
@[simp] theorem pushPlayback_log (s : St) (k : Key) (v : RVal) : (pushPlayback s k v).log = s.log := by
  simp only [pushPlayback]
@[simp] theorem pushPlayback_journal (s : St) (k : Key) (v : RVal) : (pushPlayback s k v).journal = s.journal := by
  simp only [pushPlayback]
@[simp] theorem doRecordData_enabled (s : St) (key : String) (v : Val) : (doRecordData s key v).enabled = s.enabled := by
  unfold doRecordData; split <;> (try (unfold write; split)) <;> rfl
@[simp] theorem doRecordData_forced (s : St) (key : String) (v : Val) : (doRecordData s key v).forced = s.forced := by
  unfold doRecordData; split <;> (try (unfold write; split)) <;> rfl
@[simp] theorem doRecordData_counter (s : St) (key : String) (v : Val) : (doRecordData s key v).counter = s.counter := by
  unfold doRecordData; split <;> (try (unfold write; split)) <;> rfl
@[simp] theorem doRecordData_playback (s : St) (key : String) (v : Val) : (doRecordData s key v).playback = s.playback := by
  unfold doRecordData; split <;> (try (unfold write; split)) <;> rfl
@[simp] theorem doRecordData_playbackOutputs (s : St) (key : String) (v : Val) : (doRecordData s key v).playbackOutputs = s.playbackOutputs := by
  unfold doRecordData; split <;> (try (unfold write; split)) <;> rfl
@[simp] theorem doRecordData_inInt (s : St) (key : String) (v : Val) : (doRecordData s key v).inInt = s.inInt := by
  unfold doRecordData; split <;> (try (unfold write; split)) <;> rfl
@[simp] theorem doRecordData_draws (s : St) (key : String) (v : Val) : (doRecordData s key v).draws = s.draws := by
  unfold doRecordData; split <;> (try (unfold write; split)) <;> rfl
@[simp] theorem doRecordData_drawn (s : St) (key : String) (v : Val) : (doRecordData s key v).drawn = s.drawn := by
  unfold doRecordData; split <;> (try (unfold write; split)) <;> rfl
@[simp] theorem doRecordData_clock (s : St) (key : String) (v : Val) : (doRecordData s key v).clock = s.clock := by
  unfold doRecordData; split <;> (try (unfold write; split)) <;> rfl
@[simp] theorem doRecordData_nextId (s : St) (key : String) (v : Val) : (doRecordData s key v).nextId = s.nextId := by
  unfold doRecordData; split <;> (try (unfold write; split)) <;> rfl
@[simp] theorem doRecordData_store (s : St) (key : String) (v : Val) : (doRecordData s key v).store = s.store := by
  unfold doRecordData; split <;> (try (unfold write; split)) <;> rfl
@[simp] theorem doRecordData_log (s : St) (key : String) (v : Val) : (doRecordData s key v).log = s.log := by
  unfold doRecordData; split <;> (try (unfold write; split)) <;> rfl
@[simp] theorem doRecordData_journal (s : St) (key : String) (v : Val) : (doRecordData s key v).journal = s.journal := by
  unfold doRecordData; split <;> (try (unfold write; split)) <;> rfl
@[simp] theorem recordOutput_enabled (s : St) (cfg : OutCfg) (n : Nat) (args : Args) : (recordOutput s cfg n args).enabled = s.enabled := by
  unfold recordOutput; split <;> (try split) <;> simp
@[simp] theorem recordOutput_playback (s : St) (cfg : OutCfg) (n : Nat) (args : Args) : (recordOutput s cfg n args).playback = s.playback := by
  unfold recordOutput; split <;> (try split) <;> simp
@[simp] theorem recordOutput_inInt (s : St) (cfg : OutCfg) (n : Nat) (args : Args) : (recordOutput s cfg n args).inInt = s.inInt := by
  unfold recordOutput; split <;> (try split) <;> simp
@[simp] theorem recordOutput_draws (s : St) (cfg : OutCfg) (n : Nat) (args : Args) : (recordOutput s cfg n args).draws = s.draws := by
  unfold recordOutput; split <;> (try split) <;> simp
@[simp] theorem recordOutput_drawn (s : St) (cfg : OutCfg) (n : Nat) (args : Args) : (recordOutput s cfg n args).drawn = s.drawn := by
  unfold recordOutput; split <;> (try split) <;> simp
@[simp] theorem recordOutput_clock (s : St) (cfg : OutCfg) (n : Nat) (args : Args) : (recordOutput s cfg n args).clock = s.clock := by
  unfold recordOutput; split <;> (try split) <;> simp
@[simp] theorem recordOutput_nextId (s : St) (cfg : OutCfg) (n : Nat) (args : Args) : (recordOutput s cfg n args).nextId = s.nextId := by
  unfold recordOutput; split <;> (try split) <;> simp
@[simp] theorem recordOutput_store (s : St) (cfg : OutCfg) (n : Nat) (args : Args) : (recordOutput s cfg n args).store = s.store := by
  unfold recordOutput; split <;> (try split) <;> simp
@[simp] theorem recordOutput_journal (s : St) (cfg : OutCfg) (n : Nat) (args : Args) : (recordOutput s cfg n args).journal = s.journal := by
  unfold recordOutput; split <;> (try split) <;> simp
@[simp] theorem afterInput_enabled (cfg : InCfg) (args : Args) (k0 : Key) (s : St) (o : Out) : (afterInput cfg args k0 s o).enabled = s.enabled := by
  unfold afterInput; split <;> simp
@[simp] theorem afterInput_playback (cfg : InCfg) (args : Args) (k0 : Key) (s : St) (o : Out) : (afterInput cfg args k0 s o).playback = s.playback := by
  unfold afterInput; split <;> simp
@[simp] theorem afterInput_playbackOutputs (cfg : InCfg) (args : Args) (k0 : Key) (s : St) (o : Out) : (afterInput cfg args k0 s o).playbackOutputs = s.playbackOutputs := by
  unfold afterInput; split <;> simp
@[simp] theorem afterInput_inInt (cfg : InCfg) (args : Args) (k0 : Key) (s : St) (o : Out) : (afterInput cfg args k0 s o).inInt = s.inInt := by
  unfold afterInput; split <;> simp
@[simp] theorem afterInput_draws (cfg : InCfg) (args : Args) (k0 : Key) (s : St) (o : Out) : (afterInput cfg args k0 s o).draws = s.draws := by
  unfold afterInput; split <;> simp
@[simp] theorem afterInput_drawn (cfg : InCfg) (args : Args) (k0 : Key) (s : St) (o : Out) : (afterInput cfg args k0 s o).drawn = s.drawn := by
  unfold afterInput; split <;> simp
@[simp] theorem afterInput_clock (cfg : InCfg) (args : Args) (k0 : Key) (s : St) (o : Out) : (afterInput cfg args k0 s o).clock = s.clock := by
  unfold afterInput; split <;> simp
@[simp] theorem afterInput_nextId (cfg : InCfg) (args : Args) (k0 : Key) (s : St) (o : Out) : (afterInput cfg args k0 s o).nextId = s.nextId := by
  unfold afterInput; split <;> simp
@[simp] theorem afterInput_store (cfg : InCfg) (args : Args) (k0 : Key) (s : St) (o : Out) : (afterInput cfg args k0 s o).store = s.store := by
  unfold afterInput; split <;> simp
@[simp] theorem afterInput_journal (cfg : InCfg) (args : Args) (k0 : Key) (s : St) (o : Out) : (afterInput cfg args k0 s o).journal = s.journal := by
  unfold afterInput; split <;> simp
@[simp] theorem afterOutput_enabled (alias : String) (n : Nat) (s : St) (o : Out) : (afterOutput alias n s o).enabled = s.enabled := by
  unfold afterOutput; split <;> simp
@[simp] theorem afterOutput_forced (alias : String) (n : Nat) (s : St) (o : Out) : (afterOutput alias n s o).forced = s.forced := by
  unfold afterOutput; split <;> simp
@[simp] theorem afterOutput_counter (alias : String) (n : Nat) (s : St) (o : Out) : (afterOutput alias n s o).counter = s.counter := by
  unfold afterOutput; split <;> simp
@[simp] theorem afterOutput_playback (alias : String) (n : Nat) (s : St) (o : Out) : (afterOutput alias n s o).playback = s.playback := by
  unfold afterOutput; split <;> simp
@[simp] theorem afterOutput_playbackOutputs (alias : String) (n : Nat) (s : St) (o : Out) : (afterOutput alias n s o).playbackOutputs = s.playbackOutputs := by
  unfold afterOutput; split <;> simp
@[simp] theorem afterOutput_inInt (alias : String) (n : Nat) (s : St) (o : Out) : (afterOutput alias n s o).inInt = s.inInt := by
  unfold afterOutput; split <;> simp
@[simp] theorem afterOutput_draws (alias : String) (n : Nat) (s : St) (o : Out) : (afterOutput alias n s o).draws = s.draws := by
  unfold afterOutput; split <;> simp
@[simp] theorem afterOutput_drawn (alias : String) (n : Nat) (s : St) (o : Out) : (afterOutput alias n s o).drawn = s.drawn := by
  unfold afterOutput; split <;> simp
@[simp] theorem afterOutput_clock (alias : String) (n : Nat) (s : St) (o : Out) : (afterOutput alias n s o).clock = s.clock := by
  unfold afterOutput; split <;> simp
@[simp] theorem afterOutput_nextId (alias : String) (n : Nat) (s : St) (o : Out) : (afterOutput alias n s o).nextId = s.nextId := by
  unfold afterOutput; split <;> simp
@[simp] theorem afterOutput_store (alias : String) (n : Nat) (s : St) (o : Out) : (afterOutput alias n s o).store = s.store := by
  unfold afterOutput; split <;> simp
@[simp] theorem afterOutput_log (alias : String) (n : Nat) (s : St) (o : Out) : (afterOutput alias n s o).log = s.log := by
  unfold afterOutput; split <;> simp
@[simp] theorem afterOutput_journal (alias : String) (n : Nat) (s : St) (o : Out) : (afterOutput alias n s o).journal = s.journal := by
  unfold afterOutput; split <;> simp

end PlaybackModel.Recorder
