import PlaybackProofs.RecorderSent
/-! C03, "a change appears as a difference at exactly the affected entries and nowhere else".

The output calls a program makes are a sequence of (alias, what the call captured - `none` when the capture failed; the
ordinal is consumed all the same). `numberK` keys that sequence the way the recorder does (`planOutputs` is `numberK` of the
program's sends - `planOutputs_eq_numberK`), and `getD_numberK` says what is found under a key: the n-th send on that alias.
Two runs therefore differ under the key (alias, n) iff their n-th sends on that alias differ. -/
namespace PlaybackModel.Recorder

/-- the output calls the program itself makes, in call order, un-numbered -/
def sendsOf : Prog → List (String × Option RVal)
  | .done _ => []
  | .discard k => sendsOf k
  | .force k => sendsOf k
  | .recordData _ _ k => sendsOf k
  | .setEnabled _ k => sendsOf k
  | .playData _ k => sendsOf (k (.ret (.atom "None")))
  | .callIn _ _ body k =>
    match bodyEnd body with
    | .out o => sendsOf (k o)
    | .interrupt _ => []
  | .callOut cfg args body k =>
    (cfg.alias, outValue cfg args) ::
    (match bodyEnd body with
     | .out o => sendsOf (k o)
     | .interrupt _ => [])

/-- the recorder's numbering of a sequence of sends, continuing after the counters `c` -/
def numberK : List (String × Nat) → List (String × Option RVal) → List (Key × RVal)
  | _, [] => []
  | c, (a, some v) :: l => (.outArgs a (cnt c a + 1), v) :: numberK (bumpC c a) l
  | c, (a, none) :: l => numberK (bumpC c a) l

theorem planOutputs_eq_numberK : ∀ (p : Prog) (c : List (String × Nat)), planOutputs c p = numberK c (sendsOf p) := by
  intro p
  induction p with
  | done e => intro c; rfl
  | discard k ih => intro c; simpa [planOutputs, sendsOf] using ih c
  | force k ih => intro c; simpa [planOutputs, sendsOf] using ih c
  | recordData key v k ih => intro c; simpa [planOutputs, sendsOf] using ih c
  | setEnabled b k ih => intro c; simpa [planOutputs, sendsOf] using ih c
  | playData key k ih => intro c; simpa [planOutputs, sendsOf] using ih _ c
  | callIn cfg args body k ihb ihk =>
    intro c
    simp only [planOutputs, sendsOf]
    cases bodyEnd body with
    | out o => exact ihk o c
    | interrupt i => rfl
  | callOut cfg args body k ihb ihk =>
    intro c
    simp only [planOutputs, sendsOf]
    cases outValue cfg args with
    | none =>
      cases bodyEnd body with
      | out o => simpa [numberK] using ihk o _
      | interrupt i => simp [numberK]
    | some v =>
      cases bodyEnd body with
      | out o => simpa [numberK] using ihk o _
      | interrupt i => simp [numberK]

/-- what was sent on one alias, in call order -/
def proj (a : String) (l : List (String × Option RVal)) : List (Option RVal) :=
  (l.filter (fun x => x.1 = a)).map (·.2)

theorem cnt_bumpC_same (c : List (String × Nat)) (a : String) : cnt (bumpC c a) a = cnt c a + 1 := by
  simp [bumpC, cnt]

theorem cnt_bumpC_other (c : List (String × Nat)) (a b : String) (h : a ≠ b) : cnt (bumpC c a) b = cnt c b := by
  simp [bumpC, cnt, h]

/-- Under the key (alias, n) lies the n-th send on that alias (counted after the starting counters) - nothing when that
call's capture failed or there were fewer calls. -/
theorem getD_numberK : ∀ (l : List (String × Option RVal)) (c : List (String × Nat)) (a : String) (n : Nat),
    getD (numberK c l) (.outArgs a n) =
      if n ≤ cnt c a then none else ((proj a l)[n - cnt c a - 1]?).bind id := by
  intro l
  induction l with
  | nil => intro c a n; simp [numberK, getD, proj]
  | cons x l ih =>
    intro c a n
    obtain ⟨a', ov⟩ := x
    by_cases ha : a' = a
    · subst ha
      have hp : proj a' ((a', ov) :: l) = ov :: proj a' l := by simp [proj]
      cases ov with
      | none =>
        simp only [numberK, ih, cnt_bumpC_same, hp]
        by_cases h1 : n ≤ cnt c a'
        · simp [h1, Nat.le_succ_of_le h1]
        · by_cases h2 : n = cnt c a' + 1
          · subst h2; simp
          · have h3 : ¬ n ≤ cnt c a' + 1 := by omega
            have h4 : n - cnt c a' - 1 = (n - (cnt c a' + 1) - 1) + 1 := by omega
            simp [h1, h3, h4]
      | some v =>
        simp only [numberK, getD, ih, cnt_bumpC_same, hp]
        by_cases h2 : n = cnt c a' + 1
        · subst h2; simp
        · have hk : ¬ (Key.outArgs a' (cnt c a' + 1) = Key.outArgs a' n) := by
            intro h; injection h with _ h; exact h2 h.symm
          simp only [hk, if_false]
          by_cases h1 : n ≤ cnt c a'
          · simp [h1, Nat.le_succ_of_le h1]
          · have h3 : ¬ n ≤ cnt c a' + 1 := by omega
            have h4 : n - cnt c a' - 1 = (n - (cnt c a' + 1) - 1) + 1 := by omega
            simp [h1, h3, h4]
    · have hp : proj a ((a', ov) :: l) = proj a l := by simp [proj, ha]
      cases ov with
      | none => simp only [numberK, ih, cnt_bumpC_other c a' a ha, hp]
      | some v =>
        have hk : ¬ (Key.outArgs a' (cnt c a' + 1) = Key.outArgs a n) := by
          intro h; injection h with h _; exact ha h
        simp only [numberK, getD, hk, if_false, ih, cnt_bumpC_other c a' a ha, hp]

/-- keys of another shape are never among the numbered outputs -/
theorem getD_numberK_other : ∀ (l : List (String × Option RVal)) (c : List (String × Nat)) (k : Key),
    (∀ a n, k ≠ .outArgs a n) → getD (numberK c l) k = none := by
  intro l
  induction l with
  | nil => intro c k _; rfl
  | cons x l ih =>
    intro c k hk
    obtain ⟨a', ov⟩ := x
    cases ov with
    | none => simpa [numberK] using ih _ k hk
    | some v =>
      have : ¬ (Key.outArgs a' (cnt c a' + 1) = k) := fun h => hk _ _ h.symm
      simpa [numberK, getD, this] using ih _ k hk


theorem proj_append (a : String) (l m : List (String × Option RVal)) : proj a (l ++ m) = proj a l ++ proj a m := by
  simp [proj]

/-- Two runs differ under a key iff the key is (alias, n) and their n-th sends on that alias differ. -/
theorem numberK_difference_exact (l l' : List (String × Option RVal)) (k : Key) :
    getD (numberK [] l) k ≠ getD (numberK [] l') k ↔
      ∃ a n, k = .outArgs a (n + 1) ∧ ((proj a l)[n]?).bind id ≠ ((proj a l')[n]?).bind id := by
  cases k with
  | outArgs a n =>
    cases n with
    | zero => simp [getD_numberK, cnt]
    | succ m =>
      simp only [getD_numberK, cnt]
      constructor
      · intro h; exact ⟨a, m, rfl, by simpa using h⟩
      · rintro ⟨a', m', hk, h⟩
        injection hk with h1 h2
        subst h1; have : m = m' := by omega
        subst this; simpa using h
  | input al t ar kw =>
    rw [getD_numberK_other _ _ _ (by intro a n h; cases h), getD_numberK_other _ _ _ (by intro a n h; cases h)]
    simp
  | outRes al n =>
    rw [getD_numberK_other _ _ _ (by intro a n h; cases h), getD_numberK_other _ _ _ (by intro a n h; cases h)]
    simp
  | free s =>
    rw [getD_numberK_other _ _ _ (by intro a n h; cases h), getD_numberK_other _ _ _ (by intro a n h; cases h)]
    simp

/-- One changed value: the two runs differ at exactly that call's key - alias and its per-alias ordinal - and nowhere else. -/
theorem numberK_single_edit (pre post : List (String × Option RVal)) (a : String) (v v' : RVal) (hv : v ≠ v') (k : Key) :
    getD (numberK [] (pre ++ (a, some v) :: post)) k ≠ getD (numberK [] (pre ++ (a, some v') :: post)) k ↔
      k = .outArgs a ((proj a pre).length + 1) := by
  rw [numberK_difference_exact]
  constructor
  · rintro ⟨b, n, hk, h⟩
    subst hk
    by_cases hb : a = b
    · subst hb
      have e1 : ∀ x, proj a (pre ++ (a, some x) :: post) = proj a pre ++ some x :: proj a post := by
        intro x; rw [proj_append]; simp [proj]
      rw [e1, e1] at h
      by_cases hn : n = (proj a pre).length
      · rw [hn]
      · exfalso; apply h
        rcases Nat.lt_or_gt_of_ne hn with h1 | h1
        · rw [List.getElem?_append_left h1, List.getElem?_append_left h1]
        · rw [List.getElem?_append_right (Nat.le_of_lt h1), List.getElem?_append_right (Nat.le_of_lt h1)]
          obtain ⟨j, hj⟩ : ∃ j, n - (proj a pre).length = j + 1 := ⟨n - (proj a pre).length - 1, by omega⟩
          rw [hj]; simp
    · exfalso; apply h
      have e1 : ∀ x, proj b (pre ++ (a, some x) :: post) = proj b pre ++ proj b post := by
        intro x; rw [proj_append]; simp [proj, hb]
      rw [e1, e1]
  · intro hk
    refine ⟨a, (proj a pre).length, hk, ?_⟩
    have e1 : ∀ x, proj a (pre ++ (a, some x) :: post) = proj a pre ++ some x :: proj a post := by
      intro x; rw [proj_append]; simp [proj]
    rw [e1, e1]
    simp [hv]


theorem getD_none_iff (d : Data) (k : Key) : getD d k = none ↔ k ∉ d.map (·.1) := by
  induction d with
  | nil => simp [getD]
  | cons kv rest ih =>
    by_cases h : kv.1 = k
    · simp [getD, h]
    · have h' : ¬ k = kv.1 := fun e => h e.symm
      simp [getD, h, h', ih]

/-- one entry per call: the keys of the numbered outputs are pairwise distinct … -/
theorem numberK_nodup : ∀ (l : List (String × Option RVal)) (c : List (String × Nat)),
    ((numberK c l).map (·.1)).Nodup := by
  intro l
  induction l with
  | nil => intro c; simp [numberK]
  | cons x l ih =>
    intro c
    obtain ⟨a, ov⟩ := x
    cases ov with
    | none => simpa [numberK] using ih _
    | some v =>
      simp only [numberK, List.map_cons, List.nodup_cons]
      refine ⟨(getD_none_iff _ _).1 ?_, ih _⟩
      rw [getD_numberK]; simp [cnt_bumpC_same]

/-- … and there are as many entries as calls whose value was captured -/
theorem numberK_length : ∀ (l : List (String × Option RVal)) (c : List (String × Nat)),
    (numberK c l).length = (l.filter (fun x => x.2.isSome)).length := by
  intro l
  induction l with
  | nil => intro c; rfl
  | cons x l ih =>
    intro c
    obtain ⟨a, ov⟩ := x
    cases ov with
    | none => simpa [numberK] using ih _
    | some v => simp [numberK, ih]


theorem getD_append (l m : Data) (k : Key) :
    getD (l ++ m) k = match getD l k with | some v => some v | none => getD m k := by
  induction l with
  | nil => simp [getD]
  | cons kv rest ih =>
    by_cases h : kv.1 = k
    · simp [getD, h]
    · simp [getD, h, ih]

/-- with pairwise distinct keys, a lookup does not depend on the order of the entries -/
theorem getD_reverse_of_nodup : ∀ (l : Data), (l.map (·.1)).Nodup → ∀ k, getD l.reverse k = getD l k := by
  intro l
  induction l with
  | nil => intro _ k; rfl
  | cons kv rest ih =>
    intro hn k
    simp only [List.map_cons, List.nodup_cons] at hn
    rw [List.reverse_cons, getD_append, ih hn.2]
    by_cases h : kv.1 = k
    · have : getD rest k = none := (getD_none_iff rest k).2 (h ▸ hn.1)
      simp [getD, h, this]
    · cases hg : getD rest k <;> simp [getD, h, hg]

end PlaybackModel.Recorder
