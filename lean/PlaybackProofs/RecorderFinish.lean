import PlaybackProofs.RecorderTable
import PlaybackProofs.SourceAtoms
/-! What exactly the `finally` block of the recording scope does: the sampling decision (C17) and the stored metadata (C18). -/
namespace PlaybackModel.Recorder

theorem shouldSample_spec (s : St) (pr : Params) (f : Bool) :
    (shouldSample s pr f).2 = keepDecision f pr (headDraw s) ∧
    (shouldSample s pr f).1.drawn = s.drawn + drawsUsed f pr ∧
    (shouldSample s pr f).1.draws = (if drawsUsed f pr = 0 then s.draws else s.draws.tail) ∧
    (shouldSample s pr f).1.clock = s.clock := by
  unfold shouldSample keepDecision drawsUsed
  simp only [rateAlways_eq, drawKeeps_eq]
  cases f
  · by_cases hg : pr.rate.geOne = true
    · simp [hg]
    · simp only [Bool.false_eq_true, if_false, hg, Bool.false_or]
      unfold draw headDraw
      cases hd : s.draws with
      | nil => simp
      | cons d rest => simp
  · simp

/-- the whole `finally` block for a recording that is still active -/
theorem finishRecording_active (ao : AliasOracle) (cfg : OpCfg) (s : St) (excFlag : Option Bool) (tStart : Nat)
    (a : Active) (ha : s.active = some a) :
    let keep := keepDecision s.forced a.params (headDraw s)
    (finishRecording ao cfg s excFlag tStart).log = s.log ++ [if keep then .save a.id else .abort a.id] ∧
    (finishRecording ao cfg s excFlag tStart).drawn = s.drawn + drawsUsed s.forced a.params ∧
    (finishRecording ao cfg s excFlag tStart).store =
      (if keep && !cfg.saveFailsOn a.data then
        { id := a.id, data := a.data,
          md := postMeta ao cfg a.data excFlag (((match s.clock with | [] => 0 | t :: _ => t : Nat) : Int) - (tStart : Int)) }
          :: s.store
       else s.store) := by
  have hsp := shouldSample_spec (resetActive s) a.params s.forced
  have hsf := shouldSample_fields (resetActive s) a.params s.forced
  unfold finishRecording
  simp only [ha]
  generalize shouldSample (resetActive s) a.params s.forced = r at hsp hsf
  obtain ⟨s2, keep⟩ := r
  obtain ⟨k1, k2, _, k4⟩ := hsp
  simp only at k1 k2 k4
  have hd : headDraw (resetActive s) = headDraw s := by simp [headDraw, resetActive]
  rw [hd] at k1
  subst k1
  have hlog : s2.log = s.log := by simpa [resetActive] using hsf.2.2.2.2.2.2.1
  have hstore : s2.store = s.store := by simpa [resetActive] using hsf.2.2.2.2.2.2.2.2.1
  have hclock : s2.clock = s.clock := by simpa [resetActive] using k4
  have hdrawn : s2.drawn = s.drawn + drawsUsed s.forced a.params := by simpa [resetActive] using k2
  cases hk : keepDecision s.forced a.params (headDraw s)
  · simp [addLog, hlog, hstore, hdrawn]
  · simp only [Bool.not_true, Bool.false_eq_true, if_false, if_true, Bool.true_and]
    unfold tick
    rw [hclock]
    cases hc : s.clock with
    | nil =>
      unfold saveRecording
      by_cases hsv : cfg.saveFailsOn a.data = true <;> simp [hsv, addLog, hlog, hstore, hdrawn]
    | cons t rest =>
      unfold saveRecording
      by_cases hsv : cfg.saveFailsOn a.data = true <;> simp [hsv, addLog, hlog, hstore, hdrawn]

/-- `force_sample_recording` -/
theorem doForce_forced (s : St) :
    (doForce s).forced = (s.forced || (match s.active with | some a => !a.params.ignoreForce | none => false)) := by
  unfold doForce
  cases ha : s.active with
  | none => simp
  | some a => by_cases hi : a.params.ignoreForce = true <;> simp [hi]

/-- the parameters and the id of the active recording never change while it is active -/
theorem exec_active_params (pr : Params) (i : Nat) (p : Prog) (s : St)
    (h : ∀ a, s.active = some a → a.params = pr ∧ a.id = i) :
    ∀ a, (exec s p).1.active = some a → a.params = pr ∧ a.id = i := by
  refine exec_preserves (fun t => ∀ a, t.active = some a → a.params = pr ∧ a.id = i)
    (by intro t e h a h1; exact h a (by simpa using h1))
    (by intro t b h a h1; exact h a (by simpa using h1))
    (by intro t h a h1; rw [doDiscard_active] at h1; cases h1)
    (by intro t h a h1; exact h a (by simpa using h1))
    (by
      intro t key v h a h1
      unfold doRecordData at h1
      split at h1
      · rw [write_active] at h1
        cases hta : t.active with
        | none => simp [hta] at h1
        | some a0 => simp only [hta, Option.map_some, Option.some.injEq] at h1; subst h1; exact h a0 hta
      · exact h a h1)
    (by
      intro t cfg n args h _ a h1
      unfold recordOutput at h1
      split at h1
      · rw [doDiscard_active] at h1; cases h1
      · split at h1
        · exact h a (by simpa using h1)
        · rw [write_active] at h1
          cases hta : t.active with
          | none => simp [hta] at h1
          | some a0 =>
            simp only [bump_active, hta, Option.map_some, Option.some.injEq] at h1; subst h1; exact h a0 hta)
    (by
      intro cfg args k0 t o h a h1
      unfold afterInput at h1
      split at h1
      · rw [write_active] at h1
        cases hta : t.active with
        | none => simp [hta] at h1
        | some a0 => simp only [hta, Option.map_some, Option.some.injEq] at h1; subst h1; exact h a0 hta
      · rw [doDiscard_active] at h1; cases h1)
    (by
      intro al n t o h a h1
      unfold afterOutput at h1
      split at h1 <;>
      · rw [write_active] at h1
        cases hta : t.active with
        | none => simp [hta] at h1
        | some a0 => simp only [hta, Option.map_some, Option.some.injEq] at h1; subst h1; exact h a0 hta)
    (by intro t b h a h1; exact h a (doSetEnabled_of_active h1).2)
    p s h

/-- a class that ignores forcing never gets the force flag set -/
theorem exec_ignore_force (p : Prog) (s : St) (hf : s.forced = false)
    (h : ∀ a, s.active = some a → a.params.ignoreForce = true) :
    (exec s p).1.forced = false := by
  have := exec_preserves (fun t => t.forced = false ∧ ∀ a, t.active = some a → a.params.ignoreForce = true)
    (by intro t e h; exact ⟨by simpa using h.1, fun a h1 => h.2 a (by simpa using h1)⟩)
    (by intro t b h; exact ⟨by simpa using h.1, fun a h1 => h.2 a (by simpa using h1)⟩)
    (by
      intro t h
      refine ⟨?_, fun a h1 => by rw [doDiscard_active] at h1; cases h1⟩
      unfold doDiscard; split <;> simp [resetActive, h.1])
    (by
      intro t h
      refine ⟨?_, fun a h1 => h.2 a (by simpa using h1)⟩
      rw [doForce_forced, h.1]
      cases hta : t.active with
      | none => rfl
      | some a => simp [h.2 a hta])
    (by
      intro t key v h
      refine ⟨by simpa using h.1, ?_⟩
      intro a h1
      unfold doRecordData at h1
      split at h1
      · rw [write_active] at h1
        cases hta : t.active with
        | none => simp [hta] at h1
        | some a0 => simp only [hta, Option.map_some, Option.some.injEq] at h1; subst h1; exact h.2 a0 hta
      · exact h.2 a h1)
    (by
      intro t cfg n args h _
      constructor
      · unfold recordOutput
        split
        · unfold doDiscard; split <;> simp [resetActive, h.1]
        · split <;> simp [h.1]
      · intro a h1
        unfold recordOutput at h1
        split at h1
        · rw [doDiscard_active] at h1; cases h1
        · split at h1
          · exact h.2 a (by simpa using h1)
          · rw [write_active] at h1
            cases hta : t.active with
            | none => simp [hta] at h1
            | some a0 =>
              simp only [bump_active, hta, Option.map_some, Option.some.injEq] at h1; subst h1; exact h.2 a0 hta)
    (by
      intro cfg args k0 t o h
      constructor
      · unfold afterInput
        split
        · simpa using h.1
        · unfold doDiscard; split <;> simp [resetActive, h.1]
      · intro a h1
        unfold afterInput at h1
        split at h1
        · rw [write_active] at h1
          cases hta : t.active with
          | none => simp [hta] at h1
          | some a0 => simp only [hta, Option.map_some, Option.some.injEq] at h1; subst h1; exact h.2 a0 hta
        · rw [doDiscard_active] at h1; cases h1)
    (by
      intro al n t o h
      refine ⟨by simpa using h.1, ?_⟩
      intro a h1
      unfold afterOutput at h1
      split at h1 <;>
      · rw [write_active] at h1
        cases hta : t.active with
        | none => simp [hta] at h1
        | some a0 => simp only [hta, Option.map_some, Option.some.injEq] at h1; subst h1; exact h.2 a0 hta)
    (by
      intro t b h
      refine ⟨?_, fun a h1 => h.2 a (doSetEnabled_of_active h1).2⟩
      have := h.1
      rw [doSetEnabled_eq]; unfold doDiscard
      split <;> (try split) <;> simp_all [resetActive, addLog])
    p s ⟨hf, h⟩
  exact this.1

theorem execOperationFunc_rng (s : St) (p : Prog) :
    (execOperationFunc s p).1.draws = s.draws ∧ (execOperationFunc s p).1.drawn = s.drawn ∧
    (execOperationFunc s p).1.clock = s.clock := by
  have hfr := exec_frame p s
  unfold execOperationFunc
  generalize exec s p = r at hfr
  obtain ⟨s1, e⟩ := r
  obtain ⟨_, _, f3, f4, f5, _, _⟩ := hfr
  simp only at f3 f4 f5
  cases e with
  | interrupt i => exact ⟨f3, f4, f5⟩
  | out o =>
    cases o with
    | ret v => simp only; split <;> simp [f3, f4, f5]
    | exc t =>
      simp only
      split
      · exact ⟨f3, f4, f5⟩
      · split <;> simp [f3, f4, f5]

theorem opened_rng (cfg : OpCfg) (s : St) :
    (opened cfg s).draws = s.draws ∧ (opened cfg s).drawn = s.drawn ∧
    (opened cfg s).clock = s.clock.tail ∧ (tick (startRec cfg s)).2 = (match s.clock with | [] => 0 | t :: _ => t) := by
  unfold opened tick
  cases hc : s.clock with
  | nil => simp [startRec, addLog, hc]
  | cons t rest => simp [startRec, addLog, hc]

/-- the state in which the `finally` block of the scope runs -/
def atFinally (cfg : OpCfg) (s : St) (p : Prog) : St := (execOperationFunc (opened cfg s) p).1

/-- **The sampling decision of a recorded operation**, in terms of what the operation left behind: whether the recording
was discarded, whether forcing was requested (and honoured), the class parameters and the next PRNG draw. -/
theorem runOperation_decision (ao : AliasOracle) (cfg : OpCfg) (s : St) (p : Prog)
    (hidle : s.Idle) (hen : s.enabled = true) (hsk : cfg.params.skipped = false) :
    (match (atFinally cfg s p).active with
     | none =>
       (runOperation ao cfg s p).1.log = s.log ++ [.create s.nextId, .abort s.nextId] ∧
       (runOperation ao cfg s p).1.drawn = s.drawn ∧ (runOperation ao cfg s p).1.store = s.store
     | some a =>
       a.params = cfg.params ∧ a.id = s.nextId ∧
       (runOperation ao cfg s p).1.log = s.log ++ [.create s.nextId,
         if keepDecision (atFinally cfg s p).forced cfg.params (headDraw s) then .save s.nextId else .abort s.nextId] ∧
       (runOperation ao cfg s p).1.drawn = s.drawn + drawsUsed (atFinally cfg s p).forced cfg.params) := by
  obtain ⟨ha, hf, hc, hp, hpo, hi⟩ := hidle
  rw [runOperation_recording ao cfg s p hp hen hsk ha]
  have hsc := scope_execOperationFunc s.log s.nextId p (opened cfg s) (opened_scope cfg s hp hpo)
  have hrng := execOperationFunc_rng (opened cfg s) p
  have horng := opened_rng cfg s
  have hstore : (atFinally cfg s p).store = s.store := by
    unfold atFinally
    rw [(execOperationFunc_fields (opened cfg s) p).2.2.2.1, (exec_frame p (opened cfg s)).2.1, (opened_fields cfg s).2.2.2.2.1]
  unfold atFinally at *
  cases hact : (execOperationFunc (opened cfg s) p).1.active with
  | none =>
    simp only
    rcases hsc.2.2 with ⟨a, ha', _⟩ | ⟨_, _, _, hl⟩
    · rw [hact] at ha'; cases ha'
    · unfold finishRecording
      simp only [hact]
      exact ⟨hl, by rw [hrng.2.1, horng.2.1], hstore⟩
  | some a =>
    simp only
    rcases hsc.2.2 with ⟨a', ha', hid, hl⟩ | ⟨hn, _⟩
    · rw [hact] at ha'
      cases ha'
      have hpar := exec_active_params cfg.params s.nextId p (opened cfg s)
        (by
          intro a0 h0
          rw [(opened_fields cfg s).1] at h0
          cases h0
          exact ⟨rfl, rfl⟩)
      -- the implicit operation output does not change id / params
      have hpa : a.params = cfg.params ∧ a.id = s.nextId := by
        have hw := execOperationFunc_record (opened cfg s) p (opened_scope cfg s hp hpo).1
        rw [hw.2] at hact
        split at hact
        · exact hpar a hact
        · rw [write_active] at hact
          cases hta : (exec (opened cfg s) p).1.active with
          | none => simp [hta] at hact
          | some a0 =>
            simp only [hta, Option.map_some, Option.some.injEq] at hact; subst hact; exact hpar a0 hta
        · split at hact
          · exact hpar a hact
          · rw [write_active] at hact
            cases hta : (exec (opened cfg s) p).1.active with
            | none => simp [hta] at hact
            | some a0 =>
              simp only [hta, Option.map_some, Option.some.injEq] at hact; subst hact; exact hpar a0 hta
      have hfin := finishRecording_active ao cfg (execOperationFunc (opened cfg s) p).1
        (excFlagOf (execOperationFunc (opened cfg s) p).2) (tick (startRec cfg s)).2 a hact
      simp only at hfin
      have hhd : headDraw (execOperationFunc (opened cfg s) p).1 = headDraw s := by
        simp [headDraw, hrng.1, horng.1]
      rw [hhd, hpa.1] at hfin
      refine ⟨hpa.1, hpa.2, ?_, ?_⟩
      · rw [hfin.1, hl, hpa.2]; simp
      · rw [hfin.2.1, hrng.2.1, horng.2.1]
    · rw [hact] at hn; cases hn

/-! ### metadata of the saved recording (C18) -/

def clockAt (c : List Nat) (i : Nat) : Nat := (c[i]?).getD 0

/-- a recorded operation that is kept and whose save succeeds stores exactly this recording -/
theorem runOperation_saved (ao : AliasOracle) (cfg : OpCfg) (s : St) (p : Prog) (a : Active)
    (hidle : s.Idle) (hen : s.enabled = true) (hsk : cfg.params.skipped = false)
    (hact : (atFinally cfg s p).active = some a)
    (hkeep : keepDecision (atFinally cfg s p).forced cfg.params (headDraw s) = true) (hsv : cfg.saveFailsOn a.data = false) :
    (runOperation ao cfg s p).1.store =
      { id := s.nextId, data := a.data,
        md := postMeta ao cfg a.data (excFlagOf (runOperation ao cfg s p).2)
                ((clockAt s.clock 1 : Int) - (clockAt s.clock 0 : Int)) } :: s.store := by
  have hdec := runOperation_decision ao cfg s p hidle hen hsk
  rw [hact] at hdec
  obtain ⟨hpar, hid, _, _⟩ := hdec
  obtain ⟨ha, hf, hc, hp, hpo, hi⟩ := hidle
  rw [runOperation_recording ao cfg s p hp hen hsk ha]
  unfold atFinally at hact hkeep
  have hrng := execOperationFunc_rng (opened cfg s) p
  have horng := opened_rng cfg s
  have hstore : (execOperationFunc (opened cfg s) p).1.store = s.store := by
    rw [(execOperationFunc_fields (opened cfg s) p).2.2.2.1, (exec_frame p (opened cfg s)).2.1, (opened_fields cfg s).2.2.2.2.1]
  have hfin := finishRecording_active ao cfg (execOperationFunc (opened cfg s) p).1
    (excFlagOf (execOperationFunc (opened cfg s) p).2) (tick (startRec cfg s)).2 a hact
  simp only at hfin
  have hhd : headDraw (execOperationFunc (opened cfg s) p).1 = headDraw s := by simp [headDraw, hrng.1, horng.1]
  rw [hhd, hpar, hkeep] at hfin
  simp only [hsv, Bool.not_false, Bool.and_self, if_true] at hfin
  simp only
  rw [hfin.2.2, hstore, hid, hrng.2.2, horng.2.2.1, horng.2.2.2]
  cases hcl : s.clock with
  | nil => simp [clockAt]
  | cons t0 rest =>
    cases rest with
    | nil => simp [clockAt]
    | cons t1 rest' => simp [clockAt]

/-- no output alias of the program contains the reserved operation alias, and main keys of inputs are input keys -/
def Prog.AliasesWF (ao : AliasOracle) (p : Prog) : Prop :=
  p.All (fun cfg args _ => InputKeyShape cfg args) (fun cfg _ _ => ao.containsOp cfg.alias = false)

theorem hasOpOutput_cons_other (f : String → Bool) (k : Key) (v : RVal) (d : Data) (hk : ∀ al n, k ≠ .outArgs al n) :
    hasOpOutput f ((k, v) :: d) = hasOpOutput f d := by
  cases k with
  | outArgs al n => exact absurd rfl (hk al n)
  | input _ _ _ _ => rfl
  | outRes _ _ => rfl
  | free _ => rfl

/-- until the implicit operation output is written, the recording holds no output under the operation alias -/
theorem exec_no_op_output (ao : AliasOracle) (p : Prog) (hwf : p.AliasesWF ao) (s : St)
    (h : ∀ a, s.active = some a → hasOpOutput ao.containsOp a.data = false) :
    ∀ a, (exec s p).1.active = some a → hasOpOutput ao.containsOp a.data = false := by
  refine exec_preserves' (fun cfg args _ => InputKeyShape cfg args) (fun cfg _ _ => ao.containsOp cfg.alias = false)
    (fun t => ∀ a, t.active = some a → hasOpOutput ao.containsOp a.data = false)
    (by intro t e h a h1; exact h a (by simpa using h1))
    (by intro t b h a h1; exact h a (by simpa using h1))
    (by intro t h a h1; rw [doDiscard_active] at h1; cases h1)
    (by intro t h a h1; exact h a (by simpa using h1))
    (by
      intro t key v h a h1
      unfold doRecordData at h1
      split at h1
      · rw [write_active] at h1
        cases hta : t.active with
        | none => simp [hta] at h1
        | some a0 =>
          simp only [hta, Option.map_some, Option.some.injEq] at h1; subst h1
          simpa [hasOpOutput] using h a0 hta
      · exact h a h1)
    (by
      intro t cfg args body hq h _ a h1
      unfold recordOutput at h1
      split at h1
      · rw [doDiscard_active] at h1; cases h1
      · split at h1
        · exact h a (by simpa using h1)
        · rw [write_active] at h1
          cases hta : t.active with
          | none => simp [hta] at h1
          | some a0 =>
            simp only [bump_active, hta, Option.map_some, Option.some.injEq] at h1; subst h1
            simp [hasOpOutput, hq, h a0 hta])
    (by
      intro cfg args body k0 fb t o hshape hkeys _ h a h1
      obtain ⟨al, tt, aa, kw, rfl⟩ := hshape k0 fb hkeys
      unfold afterInput at h1
      split at h1
      · rw [write_active] at h1
        cases hta : t.active with
        | none => simp [hta] at h1
        | some a0 =>
          simp only [hta, Option.map_some, Option.some.injEq] at h1; subst h1
          simpa [hasOpOutput] using h a0 hta
      · rw [doDiscard_active] at h1; cases h1)
    (by
      intro cfg args body t t2 o _ _ _ h2 a h1
      unfold afterOutput at h1
      split at h1 <;>
      · rw [write_active] at h1
        cases hta : t2.active with
        | none => simp [hta] at h1
        | some a0 =>
          simp only [hta, Option.map_some, Option.some.injEq] at h1; subst h1
          simpa [hasOpOutput] using h2 a0 hta)
    (by intro t b h a h1; exact h a (doSetEnabled_of_active h1).2)
    p hwf s h

/-- whether the recording handed to the `finally` block holds the operation output -/
theorem atFinally_has_op_output (ao : AliasOracle) (cfg : OpCfg) (s : St) (p : Prog) (a : Active)
    (hp : s.playback = none) (hpo : s.playbackOutputs = []) (hwf : p.AliasesWF ao)
    (hact : (atFinally cfg s p).active = some a) :
    hasOpOutput ao.containsOp a.data =
      (match (exec (opened cfg s) p).2 with
       | .out (.ret _) => true
       | .out (.exc t) => !isFramework t
       | .interrupt _ => false) := by
  unfold atFinally at hact
  have hw := execOperationFunc_record (opened cfg s) p (opened_scope cfg s hp hpo).1
  have hno := exec_no_op_output ao p hwf (opened cfg s)
    (by intro a0 h0; rw [(opened_fields cfg s).1] at h0; cases h0; rfl)
  rw [hw.2] at hact
  generalize (exec (opened cfg s) p) = r at hact hno
  obtain ⟨sE, e⟩ := r
  simp only at hact hno ⊢
  cases e with
  | interrupt i => exact hno a hact
  | out o =>
    cases o with
    | ret v =>
      simp only at hact
      rw [write_active] at hact
      cases hta : sE.active with
      | none => simp [hta] at hact
      | some a0 =>
        simp only [hta, Option.map_some, Option.some.injEq] at hact; subst hact
        simp [hasOpOutput, ao.self]
    | exc t =>
      simp only at hact
      by_cases hfw : isFramework t = true
      · simp only [hfw, if_true] at hact
        simp [hfw, hno a hact]
      · simp only [hfw, Bool.false_eq_true, if_false] at hact
        rw [write_active] at hact
        cases hta : sE.active with
        | none => simp [hta] at hact
        | some a0 =>
          simp only [hta, Option.map_some, Option.some.injEq] at hact; subst hact
          simp [hasOpOutput, ao.self, hfw]

end PlaybackModel.Recorder
