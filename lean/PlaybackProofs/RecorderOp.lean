import PlaybackProofs.RecorderInv
/-! The recording scope: exactly-once finalisation, idle afterwards (C05, C09), transparency of `runOperation` (C04). -/
namespace PlaybackModel.Recorder

/-- Inside a recording scope opened on log `L` for recording `id`: not replaying, and either the recording is still
active and only `create` was logged, or it was discarded: aborted exactly once and the per-run state reset. -/
def Scope (L : List Ev) (id : Nat) (s : St) : Prop :=
  s.playback = none ∧ s.playbackOutputs = [] ∧
  ((∃ a, s.active = some a ∧ a.id = id ∧ s.log = L ++ [.create id]) ∨
   (s.active = none ∧ s.forced = false ∧ s.counter = [] ∧ s.log = L ++ [.create id, .abort id]))

theorem scope_addJournal {L id s} (e) (h : Scope L id s) : Scope L id (addJournal s e) := by
  simpa [Scope] using h

theorem scope_setInt {L id s} (b) (h : Scope L id s) : Scope L id (setInt s b) := by
  simpa [Scope] using h

theorem scope_write {L id s} (k v) (h : Scope L id s) : Scope L id (write s k v) := by
  obtain ⟨hp, hpo, h⟩ := h
  refine ⟨by simpa using hp, by simpa using hpo, ?_⟩
  rcases h with ⟨a, ha, hid, hl⟩ | ⟨ha, hf, hc, hl⟩
  · left
    refine ⟨{ a with data := (k, v) :: a.data }, ?_, hid, by simpa using hl⟩
    simp [write, ha]
  · right
    refine ⟨by simp [write, ha], by simpa using hf, by simpa using hc, by simpa using hl⟩

theorem scope_doDiscard {L id s} (h : Scope L id s) : Scope L id (doDiscard s) := by
  obtain ⟨hp, hpo, h⟩ := h
  refine ⟨by simpa using hp, by simpa using hpo, ?_⟩
  rcases h with ⟨a, ha, hid, hl⟩ | ⟨ha, hf, hc, hl⟩
  · right
    simp [doDiscard, ha, resetActive, addLog, hl, hid]
  · right
    simp [doDiscard, ha, hf, hc, hl]

theorem scope_setEnabledField {L id s} (b : Bool) (h : Scope L id s) : Scope L id { s with enabled := b } := h

theorem scope_doSetEnabled {L id s} (b : Bool) (h : Scope L id s) : Scope L id (doSetEnabled s b) := by
  rw [doSetEnabled_eq]
  split
  · exact scope_setEnabledField true h
  · exact scope_setEnabledField false (scope_doDiscard h)

theorem scope_doForce {L id s} (h : Scope L id s) : Scope L id (doForce s) := by
  obtain ⟨hp, hpo, h⟩ := h
  refine ⟨by simpa using hp, by simpa using hpo, ?_⟩
  rcases h with ⟨a, ha, hid, hl⟩ | ⟨ha, hf, hc, hl⟩
  · left; exact ⟨a, by simpa using ha, hid, by simpa using hl⟩
  · right
    refine ⟨by simpa using ha, ?_, by simpa using hc, by simpa using hl⟩
    simp [doForce, ha, hf]

theorem scope_doRecordData {L id s} (key v) (h : Scope L id s) : Scope L id (doRecordData s key v) := by
  unfold doRecordData
  split
  · exact scope_write _ _ h
  · exact h

theorem scope_active_of_intercept {L id s} (h : Scope L id s) (hi : shouldIntercept s = true) :
    ∃ a, s.active = some a ∧ a.id = id ∧ s.log = L ++ [.create id] := by
  obtain ⟨hp, _, h⟩ := h
  rcases h with h | ⟨ha, _⟩
  · exact h
  · simp [shouldIntercept, inRecordingMode, inPlaybackMode, hp, ha] at hi

theorem scope_recordOutput {L id s} (cfg : OutCfg) (n args) (h : Scope L id s) (hi : shouldIntercept s = true) :
    Scope L id (recordOutput (bump s cfg.alias) cfg n args) := by
  have hb : Scope L id (bump s cfg.alias) := by
    obtain ⟨a, ha, hid, hl⟩ := scope_active_of_intercept h hi
    exact ⟨by simpa using h.1, by simpa using h.2.1, Or.inl ⟨a, by simpa using ha, hid, by simpa using hl⟩⟩
  unfold recordOutput
  split
  · exact scope_doDiscard hb
  · have : inPlaybackMode (bump s cfg.alias) = false := by simp [inPlaybackMode, h.1]
    simp only [this]
    exact scope_write _ _ hb

theorem scope_afterInput {L id s} (cfg args k0 o) (h : Scope L id s) : Scope L id (afterInput cfg args k0 s o) := by
  unfold afterInput
  split
  · exact scope_write _ _ h
  · exact scope_doDiscard h

theorem scope_afterOutput {L id s} (alias n o) (h : Scope L id s) : Scope L id (afterOutput alias n s o) := by
  unfold afterOutput
  split <;> exact scope_write _ _ h

theorem scope_exec (L : List Ev) (id : Nat) (p : Prog) (s : St) (h : Scope L id s) : Scope L id (exec s p).1 :=
  exec_preserves (Scope L id) (fun _ e h => scope_addJournal e h) (fun _ b h => scope_setInt b h)
    (fun _ h => scope_doDiscard h) (fun _ h => scope_doForce h) (fun _ k v h => scope_doRecordData k v h)
    (fun _ cfg n a h hi => scope_recordOutput cfg n a h hi) (fun cfg a k0 _ o h => scope_afterInput cfg a k0 o h)
    (fun al n _ o h => scope_afterOutput al n o h) (fun _ b h => scope_doSetEnabled b h) p s h

/-! ### `_execute_operation_func` outside replay -/
theorem execOperationFunc_record (s : St) (p : Prog) (h : s.playback = none) :
    (execOperationFunc s p).2 = (exec s p).2 ∧
    (execOperationFunc s p).1 =
      (match (exec s p).2 with
        | .interrupt _ => (exec s p).1
        | .out (.ret v) => write (exec s p).1 (.outArgs opAlias 1) (.sent [v] [])
        | .out (.exc t) => if isFramework t then (exec s p).1
                           else write (exec s p).1 (.outArgs opAlias 1) (.sent [.excForm t] [])) := by
  have hp : (exec s p).1.playback = none := by rw [(exec_frame p s).2.2.2.2.2.2]; exact h
  unfold execOperationFunc
  generalize exec s p = r at hp
  obtain ⟨s1, e⟩ := r
  simp only at hp
  have hm : inPlaybackMode s1 = false := by simp [inPlaybackMode, hp]
  cases e with
  | interrupt i => exact ⟨rfl, rfl⟩
  | out o =>
    cases o with
    | ret v => simp [hm]
    | exc t => by_cases ht : isFramework t = true <;> simp [ht, hm]

theorem scope_execOperationFunc (L : List Ev) (id : Nat) (p : Prog) (s : St) (h : Scope L id s) :
    Scope L id (execOperationFunc s p).1 := by
  rw [(execOperationFunc_record s p h.1).2]
  have hs := scope_exec L id p s h
  split
  · exact hs
  · exact scope_write _ _ hs
  · split
    · exact hs
    · exact scope_write _ _ hs

/-! ### the `finally` block -/
@[simp] theorem tick_fields (s : St) :
    (tick s).1.active = s.active ∧ (tick s).1.forced = s.forced ∧ (tick s).1.counter = s.counter ∧
    (tick s).1.playback = s.playback ∧ (tick s).1.playbackOutputs = s.playbackOutputs ∧ (tick s).1.inInt = s.inInt ∧
    (tick s).1.log = s.log ∧ (tick s).1.journal = s.journal ∧ (tick s).1.store = s.store ∧
    (tick s).1.enabled = s.enabled ∧ (tick s).1.nextId = s.nextId ∧ (tick s).1.draws = s.draws ∧
    (tick s).1.drawn = s.drawn := by
  unfold tick; split <;> simp

@[simp] theorem draw_fields (s : St) :
    (draw s).1.active = s.active ∧ (draw s).1.forced = s.forced ∧ (draw s).1.counter = s.counter ∧
    (draw s).1.playback = s.playback ∧ (draw s).1.playbackOutputs = s.playbackOutputs ∧ (draw s).1.inInt = s.inInt ∧
    (draw s).1.log = s.log ∧ (draw s).1.journal = s.journal ∧ (draw s).1.store = s.store ∧
    (draw s).1.enabled = s.enabled ∧ (draw s).1.nextId = s.nextId ∧ (draw s).1.clock = s.clock := by
  unfold draw; split <;> simp

theorem shouldSample_fields (s : St) (pr : Params) (f : Bool) :
    (shouldSample s pr f).1.active = s.active ∧ (shouldSample s pr f).1.forced = s.forced ∧
    (shouldSample s pr f).1.counter = s.counter ∧ (shouldSample s pr f).1.playback = s.playback ∧
    (shouldSample s pr f).1.playbackOutputs = s.playbackOutputs ∧ (shouldSample s pr f).1.inInt = s.inInt ∧
    (shouldSample s pr f).1.log = s.log ∧ (shouldSample s pr f).1.journal = s.journal ∧
    (shouldSample s pr f).1.store = s.store ∧ (shouldSample s pr f).1.enabled = s.enabled ∧
    (shouldSample s pr f).1.nextId = s.nextId := by
  unfold shouldSample
  split
  · simp
  · split
    · simp
    · have := draw_fields s
      simp only
      obtain ⟨h1, h2, h3, h4, h5, h6, h7, h8, h9, h10, h11, _⟩ := this
      exact ⟨h1, h2, h3, h4, h5, h6, h7, h8, h9, h10, h11⟩

/-- what the recording scope leaves behind: finalised exactly once, recorder state reset -/
structure Finalised (L : List Ev) (id : Nat) (s0 s : St) : Prop where
  log : s.log = L ++ [.create id, .save id] ∨ s.log = L ++ [.create id, .abort id]
  active : s.active = none
  forced : s.forced = false
  counter : s.counter = []
  playback : s.playback = none
  playbackOutputs : s.playbackOutputs = []
  inInt : s.inInt = s0.inInt
  journal : s.journal = s0.journal

theorem finishRecording_finalised (ao : AliasOracle) (cfg : OpCfg) (L : List Ev) (id : Nat) (s : St)
    (excFlag : Option Bool) (tStart : Nat) (h : Scope L id s) :
    Finalised L id s (finishRecording ao cfg s excFlag tStart) := by
  obtain ⟨hp, hpo, h⟩ := h
  unfold finishRecording
  rcases h with ⟨a, ha, hid, hl⟩ | ⟨ha, hf, hc, hl⟩
  · simp only [ha]
    have hss := shouldSample_fields (resetActive s) a.params s.forced
    generalize shouldSample (resetActive s) a.params s.forced = r at hss
    obtain ⟨s2, keep⟩ := r
    obtain ⟨h1, h2, h3, h4, h5, h6, h7, h8, _, _, _⟩ := hss
    simp only at h1 h2 h3 h4 h5 h6 h7 h8
    cases keep
    · simp only [Bool.not_false, if_true]
      exact ⟨Or.inr (by simp [addLog, h7, hl, hid]), by simpa [resetActive] using h1, by simpa [resetActive] using h2,
        by simpa [resetActive] using h3, by simpa [hp] using h4, by simpa [hpo] using h5, by simpa using h6,
        by simpa using h8⟩
    · simp only [Bool.not_true, Bool.false_eq_true, if_false]
      have ht := tick_fields s2
      generalize tick s2 = q at ht
      obtain ⟨s3, tEnd⟩ := q
      obtain ⟨t1, t2, t3, t4, t5, t6, t7, t8, _⟩ := ht
      simp only at t1 t2 t3 t4 t5 t6 t7 t8
      unfold saveRecording
      refine ⟨Or.inl ?_, ?_, ?_, ?_, ?_, ?_, ?_, ?_⟩
      · split <;> simp [addLog, t7, h7, hl, hid]
      · split <;> simp [addLog, t1, h1, resetActive]
      · split <;> simp [addLog, t2, h2, resetActive]
      · split <;> simp [addLog, t3, h3, resetActive]
      · split <;> simp [addLog, t4, h4, hp]
      · split <;> simp [addLog, t5, h5, hpo]
      · split <;> simp [addLog, t6, h6]
      · split <;> simp [addLog, t8, h8]
  · simp only [ha]
    exact ⟨Or.inr hl, ha, hf, hc, hp, hpo, rfl, rfl⟩

/-- the state in which `start_recording` hands control to the operation -/
def opened (cfg : OpCfg) (s : St) : St :=
  (tick (startRec cfg s)).1

theorem opened_scope (cfg : OpCfg) (s : St) (hp : s.playback = none) (hpo : s.playbackOutputs = []) :
    Scope s.log s.nextId (opened cfg s) := by
  have ht := tick_fields (startRec cfg s)
  obtain ⟨t1, _, _, t4, t5, _, t7, _⟩ := ht
  refine ⟨by simpa [opened, startRec, addLog, hp] using t4, by simpa [opened, startRec, addLog, hpo] using t5, Or.inl ?_⟩
  exact ⟨{ id := s.nextId, data := [], params := cfg.params }, by simpa [opened, startRec, addLog] using t1, rfl,
    by simpa [opened, startRec, addLog] using t7⟩

theorem opened_journal (cfg : OpCfg) (s : St) : (opened cfg s).journal = s.journal := by
  have ht := tick_fields (startRec cfg s)
  simpa [opened, startRec, addLog] using ht.2.2.2.2.2.2.2.1

theorem opened_inInt (cfg : OpCfg) (s : St) : (opened cfg s).inInt = s.inInt := by
  have ht := tick_fields (startRec cfg s)
  simpa [opened, startRec, addLog] using ht.2.2.2.2.2.1

/-- unfolding of the `@operation` decorator when it actually records -/
theorem runOperation_recording (ao : AliasOracle) (cfg : OpCfg) (s : St) (p : Prog)
    (hp : s.playback = none) (hen : s.enabled = true) (hsk : cfg.params.skipped = false) (ha : s.active = none) :
    runOperation ao cfg s p =
      (finishRecording ao cfg (execOperationFunc (opened cfg s) p).1
        (excFlagOf (execOperationFunc (opened cfg s) p).2)
        (tick (startRec cfg s)).2,
       (execOperationFunc (opened cfg s) p).2) := by
  unfold runOperation
  simp only [inPlaybackMode, hp, Option.isSome_none, Bool.false_eq_true, if_false, hen, Bool.not_true, hsk, ha, opened]

/-- C04 + C05 + C09 for one recorded operation: the caller sees the twin's result, every body ran exactly as in the
twin, the recording is finalised exactly once, the recorder is idle again. -/
theorem runOperation_recording_spec (ao : AliasOracle) (cfg : OpCfg) (s : St) (p : Prog)
    (hp : s.playback = none) (hpo : s.playbackOutputs = []) (hen : s.enabled = true)
    (hsk : cfg.params.skipped = false) (ha : s.active = none) :
    (runOperation ao cfg s p).2 = (runPlain s.journal p).2 ∧
    (runOperation ao cfg s p).1.journal = (runPlain s.journal p).1 ∧
    ((runOperation ao cfg s p).1.log = s.log ++ [.create s.nextId, .save s.nextId] ∨
     (runOperation ao cfg s p).1.log = s.log ++ [.create s.nextId, .abort s.nextId]) ∧
    (runOperation ao cfg s p).1.active = none ∧ (runOperation ao cfg s p).1.forced = false ∧
    (runOperation ao cfg s p).1.counter = [] ∧ (runOperation ao cfg s p).1.playback = none ∧
    (runOperation ao cfg s p).1.playbackOutputs = [] ∧ (runOperation ao cfg s p).1.inInt = s.inInt := by
  rw [runOperation_recording ao cfg s p hp hen hsk ha]
  have hsc := opened_scope cfg s hp hpo
  have hrec := execOperationFunc_record (opened cfg s) p hsc.1
  have htr := exec_transparent p (opened cfg s) hsc.1
  have hfin := finishRecording_finalised ao cfg s.log s.nextId _
    (excFlagOf (execOperationFunc (opened cfg s) p).2)
    (tick (startRec cfg s)).2
    (scope_execOperationFunc s.log s.nextId p (opened cfg s) hsc)
  obtain ⟨h1, h2, _⟩ := htr
  rw [opened_journal] at h1 h2
  have hj : (execOperationFunc (opened cfg s) p).1.journal = (runPlain s.journal p).1 := by
    rw [hrec.2]
    split
    · exact h2
    · simpa using h2
    · split
      · exact h2
      · simpa using h2
  have hi : (execOperationFunc (opened cfg s) p).1.inInt = s.inInt := by
    rw [hrec.2]
    have := exec_inInt p (opened cfg s)
    rw [opened_inInt] at this
    split
    · exact this
    · simpa using this
    · split
      · exact this
      · simpa using this
  refine ⟨by simp only; rw [hrec.1, h1], ?_, hfin.log, hfin.active, hfin.forced, hfin.counter, hfin.playback,
    hfin.playbackOutputs, ?_⟩
  · simp only; rw [hfin.journal, hj]
  · simp only; rw [hfin.inInt, hi]

end PlaybackModel.Recorder
