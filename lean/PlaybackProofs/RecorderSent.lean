import PlaybackProofs.RecorderCore
/-! C03, recording side: the outputs attached to a recording are exactly the output calls the (undecorated) program makes,
one entry per call, keyed by alias and per-alias ordinal, in call order. -/
namespace PlaybackModel.Recorder

def bumpC (c : List (String × Nat)) (a : String) : List (String × Nat) := (a, cnt c a + 1) :: c

/-- the output calls the program itself makes (calls made from inside a wrapped body are not interceptions), numbered per
alias starting after `c`, with what each one sends; the path follows what the bodies return, as in the undecorated twin -/
def planOutputs : List (String × Nat) → Prog → List (Key × RVal)
  | _, .done _ => []
  | c, .discard k => planOutputs c k
  | c, .force k => planOutputs c k
  | c, .recordData _ _ k => planOutputs c k
  | c, .setEnabled _ k => planOutputs c k
  | c, .playData _ k => planOutputs c (k (.ret (.atom "None")))
  | c, .callIn _ _ body k =>
    match bodyEnd body with
    | .out o => planOutputs c (k o)
    | .interrupt _ => []
  | c, .callOut cfg args body k =>
    (match outValue cfg args with
     | some v => [(.outArgs cfg.alias (cnt c cfg.alias + 1), v)]
     | none => []) ++
    (match bodyEnd body with
     | .out o => planOutputs (bumpC c cfg.alias) (k o)
     | .interrupt _ => [])

theorem bump_counter (s : St) (a : String) : (bump s a).counter = bumpC s.counter a := rfl

/-- C03 (recording side): if the recording survives the program (was not discarded), its outputs are exactly the planned
ones, appended in call order to what it held before. -/
theorem recorded_is_sent : ∀ (p : Prog), p.All (fun cfg args _ => InputKeyShape cfg args) (fun _ _ _ => True) →
    ∀ (s : St) (a aF : Active), s.playback = none → s.enabled = true → s.inInt = false → s.active = some a →
    (exec s p).1.active = some aF →
    extractOutputs aF.data = (planOutputs s.counter p).reverse ++ extractOutputs a.data := by
  intro p
  induction p with
  | done e =>
    intro _ s a aF _ _ _ ha hact
    simp only [exec] at hact
    rw [ha] at hact; cases hact
    simp [planOutputs]
  | discard k ih =>
    intro _ s a aF _ _ _ _ hact
    rw [exec, exec_active_none k (doDiscard s) (doDiscard_active s)] at hact
    cases hact
  | force k ih =>
    intro hwf s a aF hp he hi ha hact
    rw [exec] at hact
    have := ih hwf (doForce s) a aF (by simpa using hp) (by simpa using he) (by simpa using hi) (by simpa using ha) hact
    simpa [planOutputs] using this
  | recordData key v k ih =>
    intro hwf s a aF hp he hi ha hact
    rw [exec] at hact
    have hrm : inRecordingMode s = true := by simp [inRecordingMode, he, ha]
    have hs' : (doRecordData s key v).active = some { a with data := (.free key, .raw v) :: a.data } := by
      simp [doRecordData, hrm, write_active, ha]
    have := ih hwf (doRecordData s key v) _ aF (by simpa using hp) (by simpa using he) (by simpa using hi) hs' hact
    simpa [planOutputs, extractOutputs_free] using this
  | setEnabled b k ih =>
    intro hwf s a aF hp he hi ha hact
    cases b with
    | false =>
      rw [exec, exec_active_none k _ (doSetEnabled_false_active s)] at hact
      cases hact
    | true =>
      rw [exec, doSetEnabled_true_of_enabled he] at hact
      simpa [planOutputs] using ih hwf s a aF hp he hi ha hact
  | playData key k ih =>
    intro hwf s a aF hp he hi ha hact
    rw [exec] at hact
    have hpd : doPlayData s key = .ret (.atom "None") := by simp [doPlayData, hp]
    rw [hpd] at hact
    simpa [planOutputs] using ih _ (hwf _) s a aF hp he hi ha hact
  | callIn cfg args body k ihb ihk =>
    intro hwf s a aF hp he hi ha hact
    obtain ⟨hshape, _, hwfk⟩ := hwf
    have hsi := shouldIntercept_record hp he hi ha
    rw [exec] at hact
    simp only [hsi, Bool.not_true, Bool.false_eq_true, if_false] at hact
    cases hkeys : cfg.keys args with
    | none =>
      simp only [hkeys, inPlaybackMode, hp, Option.isSome_none, Bool.false_eq_true, if_false] at hact
      have hb := exec_active_none body (setInt (addJournal (doDiscard s) (cfg.name, args)) true)
        (by simpa using doDiscard_active s)
      generalize exec (setInt (addJournal (doDiscard s) (cfg.name, args)) true) body = rb at hact hb
      obtain ⟨s1, e1⟩ := rb
      cases e1 with
      | interrupt i => simp only at hact hb; rw [setInt_active, hb] at hact; cases hact
      | out ob =>
        simp only at hact hb
        rw [exec_active_none (k ob) (setInt s1 false) (by simpa using hb)] at hact
        cases hact
    | some kf =>
      obtain ⟨k0, fb⟩ := kf
      simp only [hkeys, hp] at hact
      have hsb_i : (setInt (addJournal s (cfg.name, args)) true).inInt = true := by simp [setInt]
      have hsb_p : (setInt (addJournal s (cfg.name, args)) true).playback = none := by simpa using hp
      have hsb_a : (setInt (addJournal s (cfg.name, args)) true).active = some a := by simpa using ha
      have hbody := exec_flagged_body body _ a hsb_i hsb_p hsb_a
      have hbe := exec_body_end body _ hsb_p
      generalize exec (setInt (addJournal s (cfg.name, args)) true) body = rb at hact hbody hbe
      obtain ⟨s1, e1⟩ := rb
      obtain ⟨_, b2, b3, b4⟩ := hbody
      simp only at b2 b3 b4 hbe
      simp only [planOutputs, ← hbe]
      cases e1 with
      | interrupt i =>
        simp only at hact ⊢
        rw [setInt_active] at hact
        exact (by simpa using (b4 aF hact).1)
      | out ob =>
        simp only at hact ⊢
        cases h1a : s1.active with
        | none =>
          have : (afterInput cfg args k0 (setInt s1 false) ob).active = none := by
            rw [afterInput_inactive _ _ _ _ (by simpa using h1a)]; simpa using h1a
          rw [exec_active_none (k ob) _ this] at hact; cases hact
        | some a1 =>
          obtain ⟨c1, c2, _, _, _⟩ := b4 a1 h1a
          cases henv : envelopeOf cfg args ob with
          | none =>
            have : (afterInput cfg args k0 (setInt s1 false) ob).active = none := by
              simp [afterInput, henv, doDiscard_active]
            rw [exec_active_none (k ob) _ this] at hact; cases hact
          | some env =>
            have hs2 : afterInput cfg args k0 (setInt s1 false) ob = write (setInt s1 false) k0 env := by
              simp [afterInput, henv]
            rw [hs2] at hact
            have hs2a : (write (setInt s1 false) k0 env).active = some { a1 with data := (k0, env) :: a1.data } := by
              simp [write_active, h1a]
            have ih := ihk ob (hwfk ob) (write (setInt s1 false) k0 env) _ aF (by simpa using b2)
              (by simpa using b3 (by simpa using he) a1 h1a) (by simp [setInt]) hs2a hact
            obtain ⟨al, tt, aa, kw, hk0⟩ := hshape k0 fb hkeys
            rw [ih]
            simp only [write_counter, setInt_counter, c2, addJournal_counter, hk0, extractOutputs_input, c1]
  | callOut cfg args body k ihb ihk =>
    intro hwf s a aF hp he hi ha hact
    obtain ⟨_, _, hwfk⟩ := hwf
    have hsi := shouldIntercept_record hp he hi ha
    rw [exec] at hact
    simp only [hsi, Bool.not_true, Bool.false_eq_true, if_false] at hact
    cases hov : outValue cfg args with
    | none =>
      have hs1 : (recordOutput (bump s cfg.alias) cfg (cnt s.counter cfg.alias + 1) args).active = none := by
        simp [recordOutput, hov, doDiscard_active]
      have hns : shouldIntercept (recordOutput (bump s cfg.alias) cfg (cnt s.counter cfg.alias + 1) args) = false := by
        simp [shouldIntercept, inRecordingMode, inPlaybackMode, hs1, hp]
      simp only [hns, Bool.not_false, if_true] at hact
      have hb := exec_active_none body (addJournal (recordOutput (bump s cfg.alias) cfg (cnt s.counter cfg.alias + 1) args)
        (cfg.name, args)) (by simpa using hs1)
      generalize exec (addJournal (recordOutput (bump s cfg.alias) cfg (cnt s.counter cfg.alias + 1) args)
        (cfg.name, args)) body = rb at hact hb
      obtain ⟨s2, e2⟩ := rb
      cases e2 with
      | interrupt i => simp only at hact hb; rw [hb] at hact; cases hact
      | out ob =>
        simp only at hact hb
        rw [exec_active_none (k ob) s2 hb] at hact
        cases hact
    | some val =>
      have hs1 : recordOutput (bump s cfg.alias) cfg (cnt s.counter cfg.alias + 1) args
          = write (bump s cfg.alias) (.outArgs cfg.alias (cnt s.counter cfg.alias + 1)) val := by
        simp [recordOutput, hov, inPlaybackMode, hp]
      have hs1a : (write (bump s cfg.alias) (.outArgs cfg.alias (cnt s.counter cfg.alias + 1)) val).active
          = some { a with data := (.outArgs cfg.alias (cnt s.counter cfg.alias + 1), val) :: a.data } := by
        simp [write_active, ha]
      rw [hs1] at hact
      have hsi1 : shouldIntercept (write (bump s cfg.alias) (.outArgs cfg.alias (cnt s.counter cfg.alias + 1)) val) = true := by
        simp [shouldIntercept, inRecordingMode, inPlaybackMode, hs1a, hp, he, hi]
      simp only [hsi1, Bool.not_true, Bool.false_eq_true, if_false, write_playback, bump_playback, hp] at hact
      have hsb_p : (setInt (addJournal (write (bump s cfg.alias) (.outArgs cfg.alias (cnt s.counter cfg.alias + 1)) val)
          (cfg.name, args)) true).playback = none := by simpa using hp
      have hbody := exec_flagged_body body
        (setInt (addJournal (write (bump s cfg.alias) (.outArgs cfg.alias (cnt s.counter cfg.alias + 1)) val) (cfg.name, args)) true)
        _ (by simp [setInt]) hsb_p (by simpa using hs1a)
      have hbe := exec_body_end body _ hsb_p
      generalize exec (setInt (addJournal (write (bump s cfg.alias) (.outArgs cfg.alias (cnt s.counter cfg.alias + 1)) val)
        (cfg.name, args)) true) body = rb at hact hbody hbe
      obtain ⟨s2, e2⟩ := rb
      obtain ⟨_, b2, b3, b4⟩ := hbody
      simp only at b2 b3 b4 hbe
      simp only [planOutputs, hov, ← hbe]
      cases e2 with
      | interrupt i =>
        simp only at hact ⊢
        rw [setInt_active] at hact
        have := (b4 aF hact).1
        simpa [extractOutputs_outArgs] using this
      | out ob =>
        simp only at hact ⊢
        cases h2a : s2.active with
        | none =>
          have : (afterOutput cfg.alias (cnt s.counter cfg.alias + 1) (setInt s2 false) ob).active = none := by
            rw [afterOutput_inactive _ _ _ (by simpa using h2a)]; simpa using h2a
          rw [exec_active_none (k ob) _ this] at hact; cases hact
        | some a2 =>
          obtain ⟨c1, c2, _, _, _⟩ := b4 a2 h2a
          obtain ⟨env, henv⟩ : ∃ env, afterOutput cfg.alias (cnt s.counter cfg.alias + 1) (setInt s2 false) ob
              = write (setInt s2 false) (.outRes cfg.alias (cnt s.counter cfg.alias + 1)) env := by
            cases ob with
            | ret v => exact ⟨.value v, rfl⟩
            | exc t' => exact ⟨.exception t', rfl⟩
          rw [henv] at hact
          have hs3a : (write (setInt s2 false) (.outRes cfg.alias (cnt s.counter cfg.alias + 1)) env).active
              = some { a2 with data := (.outRes cfg.alias (cnt s.counter cfg.alias + 1), env) :: a2.data } := by
            simp [write_active, h2a]
          have ih := ihk ob (hwfk ob) (write (setInt s2 false) (.outRes cfg.alias (cnt s.counter cfg.alias + 1)) env) _ aF
            (by simpa using b2) (by simpa using b3 (by simpa using he) a2 h2a) (by simp [setInt]) hs3a hact
          rw [ih]
          have hcnt : s2.counter = bumpC s.counter cfg.alias := by simpa [bump_counter] using c2
          simp only [write_counter, setInt_counter, hcnt, extractOutputs_outRes, c1, extractOutputs_outArgs]
          simp

end PlaybackModel.Recorder
