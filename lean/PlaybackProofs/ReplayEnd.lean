import PlaybackProofs.OutDiffReplay
/-! C02, whole run: the result of a replay is a function of the recording, the starting counters and the replayed program
alone - every interception is answered by `inAnswerR` / `outAnswerR` / `playDataR`, which read nothing but the recording. -/
namespace PlaybackModel.Recorder

/-- how the replayed program ends when every interception is answered from the recording `r` or by the missing-key policy -/
def replayEnd (r : Recording) : List (String × Nat) → Prog → End
  | _, .done e => e
  | c, .discard k => replayEnd r c k
  | c, .force k => replayEnd r c k
  | c, .recordData _ _ k => replayEnd r c k
  | c, .setEnabled _ k => replayEnd r c k
  | c, .playData key k => replayEnd r c (k (playDataR r key))
  | c, .callIn cfg args _ k => replayEnd r c (k (inAnswerR r cfg args))
  | c, .callOut cfg _ _ k => replayEnd r (bumpC c cfg.alias) (k (outAnswerR r cfg (cnt c cfg.alias + 1)))

theorem replay_end_is_answered (r : Recording) : ∀ (p : Prog),
    p.All (fun cfg _ _ => cfg.runOriginal = false) (fun _ _ _ => True) →
    ∀ t, Replaying r t → (exec t p).2 = replayEnd r t.counter p := by
  intro p
  induction p with
  | done e => intro _ t h; simp [exec, replayEnd]
  | discard k ih => intro hq t h; rw [exec, doDiscard_inactive h.active]; simpa [replayEnd] using ih hq t h
  | force k ih => intro hq t h; rw [exec, doForce_inactive h.active]; simpa [replayEnd] using ih hq t h
  | recordData key v k ih =>
    intro hq t h; rw [exec, doRecordData_inactive _ _ h.active]; simpa [replayEnd] using ih hq t h
  | setEnabled b k ih =>
    intro hq t h
    rw [exec]
    have h' : Replaying r (doSetEnabled t b) :=
      ⟨by simpa using h.playback, by simpa using h.inInt, doSetEnabled_active_none b h.active⟩
    have hcn : (doSetEnabled t b).counter = t.counter := by rw [doSetEnabled_inactive b h.active]
    have := ih hq _ h'
    rw [hcn] at this
    simpa [replayEnd] using this
  | playData key k ih =>
    intro hq t h; rw [exec]
    have : doPlayData t key = playDataR r key := by
      unfold doPlayData playDataR; rw [h.playback]; rfl
    rw [this]; simpa [replayEnd] using ih _ (hq _) t h
  | callIn cfg args body k _ ihk =>
    intro hq t h
    obtain ⟨hro, _, hqk⟩ := hq
    simp only [replayEnd]
    cases hk : cfg.keys args with
    | none =>
      rw [replay_in_key_error h cfg args body k hk]
      have : inAnswerR r cfg args = .exc "InputInterceptionKeyCreationError" := by simp [inAnswerR, hk]
      rw [this]; exact ihk _ (hqk _) t h
    | some kf =>
      obtain ⟨k0, fb⟩ := kf
      cases hf : firstPresent r.data (k0 :: fb) with
      | some key =>
        rw [replay_in_recorded h cfg args body k k0 fb key hk hf]
        have : inAnswerR r cfg args = envelopeOut (cfg.restore args) ((getD r.data key).getD (.raw (.atom ""))) := by
          simp [inAnswerR, hk, hf]
        rw [this]; exact ihk _ (hqk _) t h
      | none =>
        cases hs : cfg.substitute with
        | none =>
          rw [replay_in_missing h cfg args body k k0 fb hk hf hro hs]
          have : inAnswerR r cfg args = .exc "RecordingKeyError" := by simp [inAnswerR, hk, hf, hs]
          rw [this]; exact ihk _ (hqk _) t h
        | some f =>
          rw [replay_in_substitute h cfg args body k k0 fb f hk hf hro hs]
          have : inAnswerR r cfg args = f args := by simp [inAnswerR, hk, hf, hs]
          rw [this]; exact ihk _ (hqk _) t h
  | callOut cfg args body k _ ihk =>
    intro hq t h
    obtain ⟨_, _, hqk⟩ := hq
    obtain ⟨h1, h2⟩ := replay_out_state h cfg args
    have hc : (recordOutput (bump t cfg.alias) cfg (cnt t.counter cfg.alias + 1) args).counter
        = bumpC t.counter cfg.alias := by
      unfold recordOutput
      have hb : (bump t cfg.alias).active = none := by simpa using h.active
      cases outValue cfg args with
      | none => simp only; rw [doDiscard_inactive hb, bump_counter]
      | some v => simp [inPlaybackMode, h.playback, pushPlayback, bump_counter]
    simp only [replayEnd]
    have step : ∀ o, exec t (.callOut cfg args body k)
          = exec (recordOutput (bump t cfg.alias) cfg (cnt t.counter cfg.alias + 1) args) (k o) →
        outAnswerR r cfg (cnt t.counter cfg.alias + 1) = o →
        (exec t (.callOut cfg args body k)).2 =
          replayEnd r (bumpC t.counter cfg.alias) (k (outAnswerR r cfg (cnt t.counter cfg.alias + 1))) := by
      intro o he ho
      rw [he, ho, ihk o (hqk _) _ h1, hc]
    cases hg : getD r.data (.outRes cfg.alias (cnt t.counter cfg.alias + 1)) with
    | some rv =>
      exact step _ (replay_out_recorded h cfg args body k rv hg) (by simp [outAnswerR, hg])
    | none =>
      cases hf : cfg.failOnMissing with
      | true => exact step _ (replay_out_missing_fail h cfg args body k hg hf) (by simp [outAnswerR, hg, hf])
      | false => exact step _ (replay_out_missing_default h cfg args body k hg hf) (by simp [outAnswerR, hg, hf])

end PlaybackModel.Recorder
