import PlaybackModel.S3
/-! Proof obligations on the decision atoms read from `s3_basic_facade.py` / `s3_tape_cassette.py` (see SourceAtoms.lean). -/
namespace PlaybackModel.S3

/-- **source atoms**: both bounds of the last-modified window are inclusive -/
theorem windowPred_def (s e : Option Nat) (lm : Nat) :
    windowPred s e lm =
      ((match s with
        | none => true
        | some s => decide (s ≤ lm)) &&
       (match e with
        | none => true
        | some e => decide (lm ≤ e))) := by
  cases s <;> cases e <;>
    simp [windowPred, PlaybackModel.Source.windowStartCmp, PlaybackModel.Source.windowEndCmp, PlaybackModel.Atoms.Cmp.nat]

end PlaybackModel.S3
