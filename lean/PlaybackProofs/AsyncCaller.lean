import PlaybackModel.AsyncCaller
import PlaybackProofs.Async
/-! Helper lemmas for the caller's side of the asynchronous wrapper (C12). -/
namespace PlaybackProofs.AsyncCaller
open PlaybackModel.Async PlaybackModel.AsyncCaller

/-- the caller-side flags mirror the wrapped recordings of the direct run; the forwarded store holds the same contents and
is closed at most where the direct one is -/
def Inv (c : Closed) (wF wD : Store) : Prop :=
  ∀ n, view wF n = view wD n ∧ c n = (wD n).closed ∧ ((wF n).closed = true → (wD n).closed = true)

/-- the forwarded store after one request -/
def stepF (wF : Store) : Option Op → Store
  | some o => (applyOp wF o).1
  | none => wF

theorem step_inv (prod seq : Nat) (c : Closed) (wF wD : Store) (q : Req) (h : Inv c wF wD) :
    Inv (forward1 prod seq c q).1 (stepF wF (forward1 prod seq c q).2.1) (direct1 wD q).1 ∧
    (forward1 prod seq c q).2.2 = (direct1 wD q).2 ∧
    (∀ o, (forward1 prod seq c q).2.1 = some o → (applyOp wF o).2 = true) := by
  obtain ⟨r, k⟩ := q
  have hr := h r
  simp only [view, Prod.mk.injEq] at hr
  obtain ⟨⟨hd, hm, hs⟩, hc, hcl⟩ := hr
  cases k with
  | setData key v =>
    by_cases hcr : c r = true
    · have hD : (wD r).closed = true := by rw [← hc]; exact hcr
      refine ⟨?_, ?_, ?_⟩
      · intro n
        have hn := h n
        by_cases hnr : n = r
        · subst hnr
          simpa [forward1, hcr, stepF, direct1, directRec, applyRec, hD, view] using hn
        · simpa [forward1, hcr, stepF, direct1, directRec, applyRec, hD, view, hnr] using hn
      · simp [forward1, hcr, direct1, directRec, applyRec, hD]
      · intro o ho; simp [forward1, hcr] at ho
    · have hcr' : c r = false := by simpa using hcr
      have hD : (wD r).closed = false := by rw [← hc]; exact hcr'
      have hF : (wF r).closed = false := by
        cases hfc : (wF r).closed with
        | false => rfl
        | true => rw [hcl hfc] at hD; cases hD
      refine ⟨?_, ?_, ?_⟩
      · intro n
        have hn := h n
        by_cases hnr : n = r
        · subst hnr
          simp [forward1, hcr', stepF, direct1, directRec, applyRec, hD, hF, view, applyOp, mkOp, hd, hm, hs]
        · simpa [forward1, hcr', stepF, direct1, directRec, applyRec, hD, hF, view, applyOp, mkOp, hnr] using hn
      · simp [forward1, hcr', direct1, directRec, applyRec, hD]
      · intro o ho
        simp [forward1, hcr'] at ho
        subst ho
        simp [applyOp, mkOp, applyRec, hF]
  | addMeta key v =>
    by_cases hcr : c r = true
    · have hD : (wD r).closed = true := by rw [← hc]; exact hcr
      refine ⟨?_, ?_, ?_⟩
      · intro n
        have hn := h n
        by_cases hnr : n = r
        · subst hnr
          simpa [forward1, hcr, stepF, direct1, directRec, applyRec, hD, view] using hn
        · simpa [forward1, hcr, stepF, direct1, directRec, applyRec, hD, view, hnr] using hn
      · simp [forward1, hcr, direct1, directRec, applyRec, hD]
      · intro o ho; simp [forward1, hcr] at ho
    · have hcr' : c r = false := by simpa using hcr
      have hD : (wD r).closed = false := by rw [← hc]; exact hcr'
      have hF : (wF r).closed = false := by
        cases hfc : (wF r).closed with
        | false => rfl
        | true => rw [hcl hfc] at hD; cases hD
      refine ⟨?_, ?_, ?_⟩
      · intro n
        have hn := h n
        by_cases hnr : n = r
        · subst hnr
          simp [forward1, hcr', stepF, direct1, directRec, applyRec, hD, hF, view, applyOp, mkOp, hd, hm, hs]
        · simpa [forward1, hcr', stepF, direct1, directRec, applyRec, hD, hF, view, applyOp, mkOp, hnr] using hn
      · simp [forward1, hcr', direct1, directRec, applyRec, hD]
      · intro o ho
        simp [forward1, hcr'] at ho
        subst ho
        simp [applyOp, mkOp, applyRec, hF]
  | save =>
    refine ⟨?_, ?_, ?_⟩
    · intro n
      have hn := h n
      by_cases hnr : n = r
      · subst hnr
        simp [forward1, stepF, direct1, directRec, applyRec, view, applyOp, mkOp, close, hd, hm]
      · simpa [forward1, stepF, direct1, directRec, applyRec, view, applyOp, mkOp, close, hnr] using hn
    · simp [forward1, direct1, directRec, applyRec]
    · intro o ho
      simp [forward1] at ho
      subst ho
      simp [applyOp, mkOp, applyRec]
  | abort =>
    refine ⟨?_, ?_, ?_⟩
    · intro n
      have hn := h n
      by_cases hnr : n = r
      · subst hnr
        simp only [view, Prod.mk.injEq] at hn
        simp [forward1, stepF, direct1, directRec, view, close, hd, hm, hs]
      · simpa [forward1, stepF, direct1, directRec, view, close, hnr] using hn
    · simp [forward1, direct1, directRec]
    · intro o ho; simp [forward1] at ho

theorem forward_direct (prod : Nat) : ∀ (reqs : List Req) (seq : Nat) (c : Closed) (wF wD : Store), Inv c wF wD →
    (∀ n, view (syncRun applyOp wF (forward prod seq c reqs).1).1 n = view (direct wD reqs).1 n) ∧
    (forward prod seq c reqs).2 = (direct wD reqs).2 ∧
    (∀ x ∈ (syncRun applyOp wF (forward prod seq c reqs).1).2, x.2 = true) := by
  intro reqs
  induction reqs with
  | nil =>
    intro seq c wF wD h
    exact ⟨fun n => (h n).1, rfl, by simp [forward, syncRun]⟩
  | cons q qs ih =>
    intro seq c wF wD h
    obtain ⟨hinv, hok, hsucc⟩ := step_inv prod seq c wF wD q h
    have ih' := ih (seq + 1) (forward1 prod seq c q).1 (stepF wF (forward1 prod seq c q).2.1) (direct1 wD q).1 hinv
    cases hfo : (forward1 prod seq c q).2.1 with
    | none =>
      rw [hfo] at ih'
      simp only [stepF] at ih'
      refine ⟨?_, ?_, ?_⟩
      · simpa [forward, hfo, direct] using ih'.1
      · simp [forward, direct, hok, ih'.2.1]
      · simpa [forward, hfo] using ih'.2.2
    | some o =>
      rw [hfo] at ih'
      simp only [stepF] at ih'
      refine ⟨?_, ?_, ?_⟩
      · simpa [forward, hfo, direct, syncRun] using ih'.1
      · simp [forward, direct, hok, ih'.2.1]
      · intro x hx
        simp only [forward, hfo, syncRun, List.mem_cons] at hx
        rcases hx with hx | hx
        · subst hx; exact hsucc o hfo
        · exact ih'.2.2 x hx

theorem inv_init : Inv (fun _ => false) Store.empty Store.empty := by
  intro n; simp [view, Store.empty]

end PlaybackProofs.AsyncCaller
