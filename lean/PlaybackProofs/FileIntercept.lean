import PlaybackModel.FileIntercept
/-! Helper lemmas for C20: base64 round trip and alphabet, size boundary arithmetic. -/
namespace PlaybackModel.FileIntercept

theorem dec6_enc6 (n : Nat) (h : n < 64) : dec6 (enc6 n) = n := by
  unfold enc6 dec6
  split
  · simp; omega
  · split
    · rw [if_neg (by omega), if_pos (by omega)]; omega
    · split
      · rw [if_neg (by omega), if_neg (by omega), if_pos (by omega)]; omega
      · split
        · subst_vars; simp
        · simp; omega

/-- the characters `enc6` produces: upper, lower, digit, `+`, `/` -/
def inAlphabet (c : Nat) : Prop :=
  (65 ≤ c ∧ c ≤ 90) ∨ (97 ≤ c ∧ c ≤ 122) ∨ (48 ≤ c ∧ c ≤ 57) ∨ c = 43 ∨ c = 47

theorem enc6_alphabet (n : Nat) (h : n < 64) : inAlphabet (enc6 n) := by
  unfold enc6 inAlphabet
  split
  · omega
  · split
    · omega
    · split
      · omega
      · split <;> omega

theorem enc6_ne_pad (n : Nat) (h : n < 64) : enc6 n ≠ pad := by
  have := enc6_alphabet n h
  unfold inAlphabet at this; unfold pad; omega

theorem enc6_lt (n : Nat) (h : n < 64) : enc6 n < 256 := by
  have := enc6_alphabet n h
  unfold inAlphabet at this; omega

/-- all elements are bytes -/
def AllBytes (l : List Nat) : Prop := ∀ x ∈ l, x < 256

theorem b64N_roundtrip : ∀ (l : List Nat), AllBytes l → unb64N (b64N l) = l
  | [], _ => by simp [b64N, unb64N]
  | [a], h => by
    have ha : a < 256 := h a (by simp)
    simp only [b64N, unb64N, if_pos]
    rw [dec6_enc6 _ (by omega), dec6_enc6 _ (by omega)]
    congr 1; omega
  | [a, b], h => by
    have ha : a < 256 := h a (by simp)
    have hb : b < 256 := h b (by simp)
    have h3 : enc6 ((b % 16) * 4) ≠ pad := enc6_ne_pad _ (by omega)
    simp only [b64N, unb64N, if_neg h3, if_pos]
    rw [dec6_enc6 _ (by omega), dec6_enc6 _ (by omega), dec6_enc6 _ (by omega)]
    congr 1
    · omega
    · congr 1; omega
  | a :: b :: c :: r, h => by
    have ha : a < 256 := h a (by simp)
    have hb : b < 256 := h b (by simp)
    have hc : c < 256 := h c (by simp)
    have hr : AllBytes r := fun x hx => h x (by simp [hx])
    have h3 : enc6 ((b % 16) * 4 + c / 64) ≠ pad := enc6_ne_pad _ (by omega)
    have h4 : enc6 (c % 64) ≠ pad := enc6_ne_pad _ (by omega)
    simp only [b64N, unb64N, if_neg h3, if_neg h4]
    rw [dec6_enc6 _ (by omega), dec6_enc6 _ (by omega), dec6_enc6 _ (by omega), dec6_enc6 _ (by omega),
      b64N_roundtrip r hr]
    congr 1
    · omega
    · congr 1
      · omega
      · congr 1; omega

/-- every character of the encoding is in the alphabet or is the padding character -/
theorem b64N_chars : ∀ (l : List Nat), AllBytes l → ∀ x ∈ b64N l, inAlphabet x ∨ x = pad
  | [], _ => by simp [b64N]
  | [a], h => by
    have ha : a < 256 := h a (by simp)
    intro x hx
    simp only [b64N, List.mem_cons, List.not_mem_nil, or_false] at hx
    rcases hx with rfl | rfl | rfl | rfl
    · exact .inl (enc6_alphabet _ (by omega))
    · exact .inl (enc6_alphabet _ (by omega))
    · exact .inr rfl
    · exact .inr rfl
  | [a, b], h => by
    have ha : a < 256 := h a (by simp)
    have hb : b < 256 := h b (by simp)
    intro x hx
    simp only [b64N, List.mem_cons, List.not_mem_nil, or_false] at hx
    rcases hx with rfl | rfl | rfl | rfl
    · exact .inl (enc6_alphabet _ (by omega))
    · exact .inl (enc6_alphabet _ (by omega))
    · exact .inl (enc6_alphabet _ (by omega))
    · exact .inr rfl
  | a :: b :: c :: r, h => by
    have ha : a < 256 := h a (by simp)
    have hb : b < 256 := h b (by simp)
    have hc : c < 256 := h c (by simp)
    have hr : AllBytes r := fun x hx => h x (by simp [hx])
    intro x hx
    simp only [b64N, List.mem_cons] at hx
    rcases hx with rfl | rfl | rfl | rfl | hx
    · exact .inl (enc6_alphabet _ (by omega))
    · exact .inl (enc6_alphabet _ (by omega))
    · exact .inl (enc6_alphabet _ (by omega))
    · exact .inl (enc6_alphabet _ (by omega))
    · exact b64N_chars r hr x hx

theorem b64N_bytes (l : List Nat) (h : AllBytes l) : AllBytes (b64N l) := by
  intro x hx
  rcases b64N_chars l h x hx with h1 | h1
  · unfold inAlphabet at h1; omega
  · unfold pad at h1; omega

theorem toNats_bytes (bs : Bytes) : AllBytes (toNats bs) := by
  intro x hx
  simp only [toNats, List.mem_map] at hx
  obtain ⟨b, _, rfl⟩ := hx
  exact b.toNat_lt

theorem ofNats_toNats (bs : Bytes) : ofNats (toNats bs) = bs := by
  induction bs with
  | nil => rfl
  | cons b r ih =>
    simp only [ofNats, toNats, List.map_cons, List.map_map] at ih ⊢
    rw [ih, UInt8.ofNat_toNat]

theorem toNats_ofNats (l : List Nat) (h : AllBytes l) : toNats (ofNats l) = l := by
  induction l with
  | nil => rfl
  | cons a r ih =>
    have ha : a < 256 := h a (by simp)
    have hr : AllBytes r := fun x hx => h x (by simp [hx])
    have ih' := ih hr
    simp only [toNats, ofNats, List.map_cons, List.map_map] at ih' ⊢
    rw [ih']
    congr 1
    simp [UInt8.toNat_ofNat', Nat.mod_eq_of_lt ha]

theorem b64_roundtrip (bs : Bytes) : unb64 (b64 bs) = bs := by
  unfold unb64 b64
  rw [toNats_ofNats _ (b64N_bytes _ (toNats_bytes bs)), b64N_roundtrip _ (toNats_bytes bs), ofNats_toNats]

/-- the space character is not produced by the encoder -/
theorem b64_no_space (bs : Bytes) : (32 : Nat) ∉ toNats (b64 bs) := by
  unfold b64
  rw [toNats_ofNats _ (b64N_bytes _ (toNats_bytes bs))]
  intro h
  rcases b64N_chars _ (toNats_bytes bs) 32 h with h1 | h1
  · unfold inAlphabet at h1; omega
  · unfold pad at h1; omega

theorem placeholder_has_space : (32 : Nat) ∈ toNats placeholder := by decide

theorem b64_ne_placeholder (bs : Bytes) : b64 bs ≠ placeholder := by
  intro h
  exact b64_no_space bs (h ▸ placeholder_has_space)

/-! ## size boundary -/

/-- **source atom**: the operator in `_is_file_above_size_limit` means "strictly above" -/
theorem aboveLimit_def (size : Nat) (lim : Limit) :
    aboveLimit size lim = decide (lim.num * (2 ^ 20 : Nat) < (size : Int) * lim.den) := by
  simp [aboveLimit, PlaybackModel.Source.fileAboveCmp, PlaybackModel.Atoms.Cmp.int]

theorem aboveLimit_iff (size : Nat) (lim : Limit) :
    aboveLimit size lim = true ↔ lim.num * (2 ^ 20 : Nat) < (size : Int) * lim.den := by
  simp [aboveLimit_def]

/-- for a non-negative limit `n/d`, `L = ⌊n·2^20 / d⌋` bytes is the largest size that is not above the limit -/
theorem boundary (n d : Nat) (hd : 0 < d) :
    aboveLimit (n * 2 ^ 20 / d) ⟨n, d⟩ = false ∧ aboveLimit (n * 2 ^ 20 / d + 1) ⟨n, d⟩ = true := by
  have h1 : n * 2 ^ 20 / d * d ≤ n * 2 ^ 20 := Nat.div_mul_le_self _ _
  have h2 : n * 2 ^ 20 < (n * 2 ^ 20 / d + 1) * d := by
    have := Nat.lt_succ_iff.mpr (Nat.le_refl (n * 2 ^ 20 / d))
    exact (Nat.div_lt_iff_lt_mul hd).mp this
  constructor
  · simp only [aboveLimit_def, decide_eq_false_iff_not, Int.not_lt]
    exact_mod_cast h1
  · simp only [aboveLimit_def, decide_eq_true_eq]
    exact_mod_cast h2

/-- monotone: larger files stay above, smaller files stay below -/
theorem aboveLimit_mono (s t : Nat) (lim : Limit) (h : s ≤ t) (ha : aboveLimit s lim = true) :
    aboveLimit t lim = true := by
  rw [aboveLimit_iff] at *
  have : (s : Int) * lim.den ≤ (t : Int) * lim.den :=
    Int.mul_le_mul_of_nonneg_right (by exact_mod_cast h) (by exact_mod_cast Nat.zero_le _)
  omega

/-! ## file system -/

theorem FS.get_write_same (fs : FS) (p : String) (bs : Bytes) : (fs.write p bs).get p = some bs := by
  simp [FS.get, FS.write]

theorem FS.get_write_other (fs : FS) (p q : String) (bs : Bytes) (h : q ≠ p) : (fs.write p bs).get q = fs.get q := by
  have : (q == p) = false := by simpa using h
  simp [FS.get, FS.write, List.lookup, this]

theorem FS.reads_write (fs : FS) (p : String) (bs : Bytes) : (fs.write p bs).reads = fs.reads := rfl

/-- what `prepare` returns for a readable file that is not above the limit -/
theorem prepare_below (fs : FS) (h : Handler) (args : List PVal) (kwargs : List (String × PVal)) (p : String)
    (c : Bytes) (hp : filePath h args kwargs = .ok (.str p)) (hc : fs.get p = some c)
    (hl : aboveLimit c.length h.limit = false) :
    prepare fs h args kwargs = ({ fs with reads := p :: fs.reads }, .ok { path := .str p, content := b64 c }) := by
  simp [prepare, hp, FS.size, hc, hl, FS.readFile]

end PlaybackModel.FileIntercept
