import Std.Data.String.ToNat
/-! Text of output keys: `"output: " ++ alias ++ " #" ++ decimal n` is injective in (alias, n) for EVERY alias, because the
ordinal is the text after the last `#` and contains none. -/
namespace PlaybackModel.OutKey

def outKeyChars (alias : List Char) (n : Nat) : List Char :=
  "output: ".toList ++ alias ++ " #".toList ++ Nat.toDigits 10 n

/-- splitting at the FIRST separator is unique when the part before it does not contain the separator -/
theorem split_first {α : Type} (sep : α) : ∀ (u u' v v' : List α), sep ∉ u → sep ∉ u' →
    u ++ sep :: v = u' ++ sep :: v' → u = u' ∧ v = v' := by
  intro u
  induction u with
  | nil =>
    intro u' v v' _ h' h
    cases u' with
    | nil => simp at h; exact ⟨rfl, h⟩
    | cons x xs =>
      simp only [List.nil_append, List.cons_append, List.cons.injEq] at h
      exact absurd (by simp [h.1]) h'
  | cons y ys ih =>
    intro u' v v' hu h' h
    cases u' with
    | nil =>
      simp only [List.nil_append, List.cons_append, List.cons.injEq] at h
      exact absurd (by simp [h.1]) hu
    | cons x xs =>
      simp only [List.cons_append, List.cons.injEq] at h
      have := ih xs v v' (fun hm => hu (List.mem_cons_of_mem _ hm)) (fun hm => h' (List.mem_cons_of_mem _ hm)) h.2
      exact ⟨by rw [h.1, this.1], this.2⟩

/-- … and so is splitting at the LAST separator when the part after it does not contain the separator -/
theorem split_last {α : Type} (sep : α) (u u' v v' : List α) (hv : sep ∉ v) (hv' : sep ∉ v')
    (h : u ++ sep :: v = u' ++ sep :: v') : u = u' ∧ v = v' := by
  have hr := congrArg List.reverse h
  simp only [List.reverse_append, List.reverse_cons, List.append_assoc, List.singleton_append] at hr
  have := split_first sep v.reverse v'.reverse u.reverse u'.reverse (by simpa using hv) (by simpa using hv') hr
  exact ⟨List.reverse_inj.mp this.2, List.reverse_inj.mp this.1⟩

theorem hash_not_in_digits (n : Nat) : '#' ∉ Nat.toDigits 10 n := by
  intro h
  have := Nat.isDigit_of_mem_toDigits (by decide) (by decide) h
  simp [Char.isDigit] at this

theorem outKeyChars_injective (a a' : List Char) (n n' : Nat) (h : outKeyChars a n = outKeyChars a' n') :
    a = a' ∧ n = n' := by
  unfold outKeyChars at h
  simp only [List.append_assoc] at h
  have h1 := List.append_cancel_left h
  have hs : " #".toList = [' ', '#'] := rfl
  rw [hs] at h1
  have h2 : (a ++ [' ']) ++ '#' :: Nat.toDigits 10 n = (a' ++ [' ']) ++ '#' :: Nat.toDigits 10 n' := by
    simpa using h1
  obtain ⟨ha, hd⟩ := split_last '#' _ _ _ _ (hash_not_in_digits n) (hash_not_in_digits n') h2
  refine ⟨List.append_cancel_right ha, ?_⟩
  apply Nat.repr_injective
  apply String.toList_injective
  rw [Nat.toList_repr, Nat.toList_repr]
  exact hd

end PlaybackModel.OutKey
