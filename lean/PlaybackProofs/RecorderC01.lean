import PlaybackProofs.RecorderReplay
/-! C01 at the level of the `@operation` decorator and `play()`. -/
namespace PlaybackModel.Recorder

theorem opened_fields (cfg : OpCfg) (s : St) :
    (opened cfg s).active = some { id := s.nextId, data := [], params := cfg.params } ∧
    (opened cfg s).playback = s.playback ∧ (opened cfg s).enabled = s.enabled ∧ (opened cfg s).counter = s.counter ∧
    (opened cfg s).store = s.store ∧ (opened cfg s).playbackOutputs = s.playbackOutputs := by
  have ht := tick_fields (startRec cfg s)
  obtain ⟨t1, _, t3, t4, t5, _, _, _, t9, t10, _⟩ := ht
  refine ⟨by simpa [opened, startRec, addLog] using t1, by simpa [opened, startRec, addLog] using t4,
    by simpa [opened, startRec, addLog] using t10, by simpa [opened, startRec, addLog] using t3,
    by simpa [opened, startRec, addLog] using t9, by simpa [opened, startRec, addLog] using t5⟩

/-- the `finally` block either leaves the stored recordings alone or stores exactly the active recording -/
theorem finishRecording_store (ao : AliasOracle) (cfg : OpCfg) (s : St) (excFlag : Option Bool) (tStart : Nat) :
    (finishRecording ao cfg s excFlag tStart).store = s.store ∨
    ∃ a m, s.active = some a ∧
      (finishRecording ao cfg s excFlag tStart).store = { id := a.id, data := a.data, md := m } :: s.store := by
  unfold finishRecording
  cases ha : s.active with
  | none => left; rfl
  | some a =>
    simp only
    have hss := shouldSample_fields (resetActive s) a.params s.forced
    generalize shouldSample (resetActive s) a.params s.forced = r at hss
    obtain ⟨s2, keep⟩ := r
    have h9 : s2.store = s.store := by simpa [resetActive] using hss.2.2.2.2.2.2.2.2.1
    cases keep
    · left; simpa [addLog] using h9
    · simp only [Bool.not_true, Bool.false_eq_true, if_false]
      have ht := tick_fields s2
      generalize tick s2 = q at ht
      obtain ⟨s3, tEnd⟩ := q
      have h9' : s3.store = s.store := by rw [ht.2.2.2.2.2.2.2.2.1]; exact h9
      unfold saveRecording
      by_cases hsf : cfg.saveFailsOn a.data = true
      · left; simp [hsf, addLog, h9']
      · right
        exact ⟨a, postMeta ao cfg a.data excFlag ((tEnd : Int) - (tStart : Int)), rfl, by simp [hsf, addLog, h9']⟩

/-- value of the implicit operation output -/
def opOutVal : Out → Val
  | .ret v => v
  | .exc t => .excForm t

/-- **C01**: record an operation `p` on an idle recorder, let the cassette hand the saved, complete recording back
(`rec'`, equal data: C07), replay the same `p` on any idle recorder: the replay succeeds, runs no body, and the outputs
captured during replay are the recorded outputs one for one and in call order, ending with the operation's own result
or exception. -/
theorem replay_faithful (ao : AliasOracle) (w : Key → RVal) (cfg cfg' : OpCfg) (s s' : St) (p : Prog)
    (rec rec' : Recording) (o : Out) (id : Nat)
    (hidle : s.Idle) (hen : s.enabled = true) (hsk : cfg.params.skipped = false)
    (hF : p.Faithful w) (hN : p.NoPlayData)
    (hres : (runOperation ao cfg s p).2 = .out o) (hord : ∀ t, o = .exc t → isFramework t = false)
    (hsaved : (runOperation ao cfg s p).1.store = rec :: s.store)
    (hidle' : s'.Idle) (hfetch : fetch s'.store id = some rec') (hrt : rec'.data = rec.data)
    (hdur : rec'.md.hasDuration = true) :
    (runPlay ao cfg' s' id p).2 = .played (extractOutputs rec'.data).reverse (extractOutputs rec'.data) ∧
    (runPlay ao cfg' s' id p).1.journal = s'.journal ∧
    (extractOutputs rec'.data).head? = some (.outArgs opAlias 1, .sent [opOutVal o] []) := by
  obtain ⟨ha, hf, hc, hp, hpo, hi⟩ := hidle
  obtain ⟨ha', hf', hc', hp', hpo', hi'⟩ := hidle'
  -- record side
  rw [runOperation_recording ao cfg s p hp hen hsk ha] at hres hsaved
  simp only at hres hsaved
  obtain ⟨o1, o2, o3, o4, o5, o6⟩ := opened_fields cfg s
  have hsc := opened_scope cfg s hp hpo
  have hrec := execOperationFunc_record (opened cfg s) p hsc.1
  rw [hrec.1] at hres
  have hfr := exec_frame p (opened cfg s)
  have hef := execOperationFunc_fields (opened cfg s) p
  have hstoreX : (execOperationFunc (opened cfg s) p).1.store = s.store := by
    rw [hef.2.2.2.1, hfr.2.1, o5]
  -- the recording was stored: it is the active recording after `_execute_operation_func`
  obtain ⟨aX, haX, hdata⟩ : ∃ aX, (execOperationFunc (opened cfg s) p).1.active = some aX ∧ rec.data = aX.data := by
    rcases finishRecording_store ao cfg (execOperationFunc (opened cfg s) p).1
      (excFlagOf (execOperationFunc (opened cfg s) p).2) (tick (startRec cfg s)).2 with h | ⟨a, m, h1, h2⟩
    · rw [h, hstoreX] at hsaved
      exact absurd (congrArg List.length hsaved) (by simp)
    · rw [h2, hstoreX] at hsaved
      injection hsaved with hh _
      exact ⟨a, h1, by rw [← hh]⟩
  -- … which is the recording after the program plus the implicit operation output
  have hwrite : (execOperationFunc (opened cfg s) p).1
      = write (exec (opened cfg s) p).1 (.outArgs opAlias 1) (.sent [opOutVal o] []) := by
    rw [hrec.2, hres]
    cases o with
    | ret v => rfl
    | exc t => simp [hord t rfl, opOutVal]
  rw [hwrite, write_active] at haX
  cases hE : (exec (opened cfg s) p).1.active with
  | none => simp [hE] at haX
  | some aF =>
    simp only [hE, Option.map_some, Option.some.injEq] at haX
    subst haX
    simp only at hdata
    -- replay side
    unfold runPlay
    simp only [hfetch, hdur, if_true]
    have ht := tick_fields (addLog s' (.get id))
    generalize tick (addLog s' (.get id)) = q at ht ⊢
    obtain ⟨sa, ta0⟩ := q
    obtain ⟨t1, t2, t3, t4, t5, t6, t7, t8, _⟩ := ht
    simp only at t1 t2 t3 t4 t5 t6 t7 t8 ⊢
    obtain ⟨T, hT⟩ : ∃ T : St, T = { sa with playback := some rec' } := ⟨_, rfl⟩
    rw [← hT]
    have Tp : T.playback = some rec' := by rw [hT]
    have Ti : T.inInt = false := by rw [hT]; simpa using t6.trans (by simpa using hi')
    have Ta : T.active = none := by rw [hT]; simpa using t1.trans (by simpa using ha')
    have Tc : T.counter = (opened cfg s).counter := by rw [hT, o4, hc]; simpa using t3.trans (by simpa using hc')
    have Tpo : T.playbackOutputs = [] := by rw [hT]; simpa using t5.trans (by simpa using hpo')
    have Tj : T.journal = s'.journal := by rw [hT]; simpa [addLog] using t8
    have hmode : inPlaybackMode T = true := by simp [inPlaybackMode, Tp]
    have hro : runOperation ao cfg' T p = execOperationFunc T p := by
      unfold runOperation; simp [hmode]
    rw [hro]
    have hext : RecExt rec' aF := by
      intro k v hk hg
      rw [hrt, hdata]
      simp only [getD_cons]
      rw [if_neg (fun h => hk opAlias 1 h.symm)]
      exact hg
    have core := replay_core w p hF hN (opened cfg s) T
      { id := s.nextId, data := [], params := cfg.params } aF rec' o
      (by rw [o2]; exact hp) (by rw [o3]; exact hen) (by rw [opened_inInt]; exact hi) o1 hE hres
      Tp hext Ti Ta Tc
    obtain ⟨c1, c2, _, outs, c4, c5⟩ := core
    rw [Tpo, List.nil_append] at c5
    simp only [extractOutputs, List.append_nil] at c4
    have hrec'outs : extractOutputs rec'.data = (.outArgs opAlias 1, .sent [opOutVal o] []) :: outs.reverse := by
      rw [hrt, hdata, extractOutputs_outArgs, c4]
    have hfp := (exec_frame p T).2.2.2.2.2.2
    rw [Tp] at hfp
    rw [Tj] at c2
    -- unfold `_execute_operation_func` in replay mode
    unfold execOperationFunc
    generalize exec T p = res at c1 c2 c5 hfp ⊢
    obtain ⟨tb, e⟩ := res
    simp only at c1 c2 c5 hfp
    subst c1
    have hpm : inPlaybackMode tb = true := by simp [inPlaybackMode, hfp]
    rw [hrec'outs]
    cases o with
    | ret v =>
      simp only [hpm, if_true]
      have ht2 := tick_fields (pushPlayback tb (.outArgs opAlias 1) (.sent [v] []))
      generalize tick (pushPlayback tb (.outArgs opAlias 1) (.sent [v] [])) = q2 at ht2 ⊢
      obtain ⟨sc, _⟩ := q2
      obtain ⟨_, _, _, _, u5, _, _, u8, _⟩ := ht2
      simp only at u5 u8 ⊢
      refine ⟨?_, by rw [u8]; simpa using c2, rfl⟩
      rw [u5]
      simp [pushPlayback, opOutVal]
      exact c5
    | exc t =>
      have hnf := hord t rfl
      simp only [hnf, Bool.false_eq_true, if_false, hpm, if_true]
      have ht2 := tick_fields (pushPlayback tb (.outArgs opAlias 1) (.sent [.excForm t] []))
      generalize tick (pushPlayback tb (.outArgs opAlias 1) (.sent [.excForm t] [])) = q2 at ht2 ⊢
      obtain ⟨sc, _⟩ := q2
      obtain ⟨_, _, _, _, u5, _, _, u8, _⟩ := ht2
      simp only at u5 u8 ⊢
      refine ⟨?_, by rw [u8]; simpa using c2, rfl⟩
      rw [u5]
      simp [pushPlayback, opOutVal]
      exact c5

end PlaybackModel.Recorder
