import PlaybackModel.Lookup
import PlaybackProofs.S3
/-! Helper lemmas for recording lookup on the three cassettes (C10). -/
namespace PlaybackModel.Lookup
open PlaybackModel.MetaFilter PlaybackModel.S3

/-! ### selections -/

/-- `l` is a duplicate-free choice of `min limit |M|` members of `M` (all of them without a limit), in any order -/
def IsSelection (lim : Option Nat) (M l : List String) : Prop :=
  (∃ rest, (l ++ rest).Perm M) ∧ l.length = limLen lim M.length

theorem IsSelection.subset {lim : Option Nat} {M l : List String} (h : IsSelection lim M l) : ∀ x ∈ l, x ∈ M := by
  obtain ⟨⟨rest, hp⟩, _⟩ := h
  intro x hx
  exact hp.mem_iff.1 (List.mem_append_left _ hx)

theorem IsSelection.nodup {lim : Option Nat} {M l : List String} (h : IsSelection lim M l) (hM : M.Nodup) : l.Nodup := by
  obtain ⟨⟨rest, hp⟩, _⟩ := h
  exact (List.nodup_append.1 (hp.nodup_iff.2 hM)).1

theorem IsSelection.perm_of_none {M l : List String} (h : IsSelection none M l) : l.Perm M := by
  obtain ⟨⟨rest, hp⟩, hlen⟩ := h
  have : rest = [] := by
    have h := hp.length_eq
    rw [List.length_append, hlen] at h
    simp only [limLen] at h
    exact List.eq_nil_of_length_eq_zero (by omega)
  simpa [this] using hp

theorem IsSelection.of_perm_take {lim : Option Nat} {M M' l : List String} (hM : M'.Perm M)
    (hl : l.Perm (takeOpt lim M')) : IsSelection lim M l := by
  obtain ⟨rest, hr⟩ := takeOpt_append_rest lim M'
  refine ⟨⟨rest, ?_⟩, ?_⟩
  · exact ((List.Perm.append_right rest hl).trans (by rw [hr])).trans hM
  · rw [hl.length_eq, takeOpt_length, hM.length_eq]

/-! ### ids and categories -/

theorem truthy_eq_okTrue : ∀ x : Except Err Bool, truthy x = okTrue x
  | .ok true => rfl
  | .ok false => rfl
  | .error _ => rfl

/-- every id a cassette hands out is `category/rest` with a slash-free category -/
def WFIds (saved : List Rec) : Prop := ∀ r ∈ saved, ∃ cat rest, r.id = mkId cat rest ∧ noChar '/' cat

theorem category_mkId {cat : String} (rest : String) (h : noChar '/' cat) : category (mkId cat rest) = cat := by
  unfold category mkId
  apply String.ext
  rw [String.toList_ofList]
  simp only [String.toList_append, slash_toList, List.append_assoc, List.singleton_append]
  rw [List.takeWhile_append_of_pos]
  · simp
  · intro ch hch
    have : ch ≠ '/' := fun heq => h (heq ▸ hch)
    simpa using this

theorem startsWith_mkId_iff {cat' cat : String} (rest : String) (h' : noChar '/' cat') (h : noChar '/' cat) :
    startsWith (mkId cat' rest) (cat ++ "/") = true ↔ cat' = cat := by
  unfold mkId
  constructor
  · intro hs
    have : startsWith (cat' ++ "/" ++ rest) (cat ++ "/" ++ "") = true := by simpa using hs
    exact (startsWith_sep h' h this).1
  · rintro rfl
    exact startsWith_append _ _

/-- the matcher's answer as used by every cassette: `if metadata:` guards the call, and an empty filter matches -/
def matchB (glob : String → String → Bool) (f : Meta) (md : Meta) : Bool :=
  f.isEmpty || okTrue (matchMeta glob f md)

theorem matchB_eq (glob : String → String → Bool) (f md : Meta) : matchB glob f md = okTrue (matchMeta glob f md) := by
  unfold matchB
  cases f with
  | nil => simp [matchMeta, okTrue]
  | cons a f => simp

theorem matching_eq (glob : String → String → Bool) (view : Meta → Meta) (saved : List Rec) (cat : String) (f : Meta) :
    matching glob view saved cat f = saved.filter (fun r => category r.id == cat && matchB glob f (view r.md)) := by
  unfold matching
  apply List.filter_congr
  intro r _
  rw [truthy_eq_okTrue, matchB_eq]

/-! ### in-memory cassette -/

theorem liftErr_ok {α : Type} (a : α) : liftErr (.ok a : Except Err α) = .ok a := rfl

theorem keepMem_total (glob : String → String → Bool) (cat : String) (f : Meta) (r : Rec) :
    keepMem glob cat f r = .ok (category r.id == cat && matchB glob f r.md) := by
  unfold keepMem matchB
  by_cases hc : category r.id = cat
  · simp only [hc, bne_self_eq_false, Bool.false_eq_true, if_false, beq_self_eq_true, Bool.true_and]
    cases hf : f.isEmpty
    · obtain ⟨b, hb⟩ := matchMeta_total glob f r.md
      simp only [Bool.false_eq_true, if_false, hb, liftErr_ok, Bool.false_or]
      cases b <;> rfl
    · simp
  · have : (category r.id != cat) = true := by simpa using hc
    simp [this, hc]

theorem listMem_selection (glob : String → String → Bool) (shuf : List String → List String)
    (hshuf : ∀ l, (shuf l).Perm l) (saved : List Rec) (cat : String) (f : Meta) (lim : Option Nat) (random : Bool) :
    ∃ l, listMem glob shuf saved cat f lim random = .ok l ∧
      IsSelection lim ((matching glob id saved cat f).map (·.id)) l := by
  unfold listMem
  rw [filterE_total _ _ (fun r _ => ⟨_, keepMem_total glob cat f r⟩)]
  refine ⟨_, rfl, ?_⟩
  rw [matching_eq]
  apply IsSelection.of_perm_take (List.Perm.refl _)
  have hfl : (saved.filter (fun x => okTrue (keepMem glob cat f x))) =
      saved.filter (fun r => category r.id == cat && matchB glob f (id r.md)) := by
    apply List.filter_congr
    intro r _
    rw [keepMem_total]
    simp only [id]
    cases h : (category r.id == cat && matchB glob f r.md) <;> rfl
  rw [hfl]
  cases random
  · exact List.Perm.refl _
  · exact hshuf _

/-! ### file-based cassette -/

/-- `'/' -> '_'` -/
def repl (ch : Char) : Char := if ch = '/' then '_' else ch

theorem fileName_toList (id : String) : (fileName id).toList = id.toList.map repl ++ ".json".toList := by
  unfold fileName; rw [String.toList_append, String.toList_ofList]; rfl

theorem json_toList : ".json".toList = ['.', 'j', 's', 'o', 'n'] := by decide

theorem repl_ne_dot {ch : Char} (h : ch ≠ '.') : repl ch ≠ '.' := by
  unfold repl; split
  · decide
  · exact h

theorem repl_idem (ch : Char) : repl (repl ch) = repl ch := by
  unfold repl
  by_cases h : ch = '/'
  · simp [h]
  · simp [h]

theorem dropExt_json (r : List Char) : dropExt (r ++ ['.', 'j', 's', 'o', 'n']) = r := by
  unfold dropExt
  simp [List.reverse_append]

theorem takeWhile_append_of_exists {p : Char → Bool} : ∀ (m t : List Char), (∃ c ∈ m, p c = false) →
    (m ++ t).takeWhile p = m.takeWhile p ∧ (m ++ t).dropWhile p = m.dropWhile p ++ t
  | [], _, h => by obtain ⟨c, hc, _⟩ := h; cases hc
  | x :: xs, t, h => by
    cases hx : p x
    · simp [List.takeWhile_cons, List.dropWhile_cons, hx]
    · obtain ⟨c, hc, hpc⟩ := h
      have : ∃ c ∈ xs, p c = false := by
        rcases List.mem_cons.1 hc with rfl | hc'
        · rw [hx] at hpc; cases hpc
        · exact ⟨c, hc', hpc⟩
      have ih := takeWhile_append_of_exists xs t this
      simp [List.takeWhile_cons, List.dropWhile_cons, hx, ih.1, ih.2]

/-- `splitext` of `<m>.json` gives `m` back as soon as `m` is not made of dots only - dots INSIDE `m` do not matter -/
theorem stem_toList (m : List Char) (h : ∃ c ∈ m, c ≠ '.') :
    (stem (String.ofList (m ++ ['.', 'j', 's', 'o', 'n']))).toList = m := by
  have h' : ∃ c ∈ m, (c == '.') = false := by
    obtain ⟨c, hc, hne⟩ := h; exact ⟨c, hc, by simpa using hne⟩
  obtain ⟨h1, h2⟩ := takeWhile_append_of_exists (p := (· == '.')) m ['.', 'j', 's', 'o', 'n'] h'
  unfold stem
  -- the listed name is cut as `os.path.splitext` cuts it: the atom read from `iter_recording_ids` (F14)
  rw [if_pos (by rfl : PlaybackModel.Source.fileStemSplitext = true)]
  simp only [String.toList_ofList, h1, h2]
  have hc : (List.dropWhile (· == '.') m ++ ['.', 'j', 's', 'o', 'n']).contains '.' = true := by simp
  rw [if_pos hc, dropExt_json, String.toList_ofList, List.takeWhile_append_dropWhile]

/-- an id that does not consist of dots only (every id a cassette hands out holds a `/`) -/
def NotAllDots (id : String) : Prop := ∃ c ∈ id.toList, c ≠ '.'

theorem notAllDots_of_slash {id : String} (h : '/' ∈ id.toList) : NotAllDots id := ⟨'/', h, by decide⟩

/-- reading back through the name derived from a listed file name finds that very file - whatever dots the id holds
(before F14 the name was cut at its FIRST dot and this needed dot-free ids) -/
theorem fileName_stem {id : String} (h : NotAllDots id) : fileName (stem (fileName id)) = fileName id := by
  apply String.ext
  have hm : ∃ c ∈ id.toList.map repl, c ≠ '.' := by
    obtain ⟨c, hc, hne⟩ := h
    exact ⟨repl c, List.mem_map.2 ⟨c, hc, rfl⟩, repl_ne_dot hne⟩
  have hfn : fileName id = String.ofList (id.toList.map repl ++ ['.', 'j', 's', 'o', 'n']) := by
    apply String.ext; rw [fileName_toList, json_toList, String.toList_ofList]
  have hstem : (stem (fileName id)).toList = id.toList.map repl := by rw [hfn]; exact stem_toList _ hm
  have hidem : List.map (repl ∘ repl) id.toList = List.map repl id.toList :=
    List.map_congr_left (fun a _ => repl_idem a)
  rw [fileName_toList, fileName_toList, hstem, List.map_map, hidem]

theorem of_mem_takeWhile {α : Type} {p : α → Bool} : ∀ {l : List α} {a : α}, a ∈ l.takeWhile p → p a = true
  | [], _, h => by cases h
  | x :: xs, a, h => by
    rw [List.takeWhile_cons] at h
    split at h
    · rcases List.mem_cons.1 h with rfl | h'
      · assumption
      · exact of_mem_takeWhile h'
    · cases h

/-- the file-name pre-filter never rejects a file of the queried category -/
theorem startsWith_fileName_category (id : String) : startsWith (fileName id) (category id) = true := by
  rw [startsWith_iff, fileName_toList]
  unfold category
  rw [String.toList_ofList]
  have h1 : id.toList.takeWhile (· != '/') = (id.toList.takeWhile (· != '/')).map repl := by
    symm
    have : ∀ a ∈ id.toList.takeWhile (· != '/'), repl a = a := by
      intro a ha
      have := of_mem_takeWhile ha
      unfold repl
      rw [if_neg (by simpa using this)]
    rw [List.map_congr_left this, List.map_id']
  rw [h1]
  exact ((List.takeWhile_prefix _).map repl).trans (List.prefix_append _ _)

/-- the directory as the cassette writes it: one file per recording, named after its id (ids may hold dots, F14) -/
def FileStoreWF (dir : List (String × Rec)) : Prop :=
  (dir.map (·.1)).Nodup ∧ ∀ e ∈ dir, e.1 = fileName e.2.id ∧ NotAllDots e.2.id

theorem find?_of_nodup {α : Type} : ∀ (l : List (String × α)) (e : String × α), (l.map (·.1)).Nodup → e ∈ l →
    l.find? (fun x => x.1 == e.1) = some e
  | [], _, _, h => by cases h
  | x :: xs, e, hnd, hm => by
    rw [List.map_cons, List.nodup_cons] at hnd
    rcases List.mem_cons.1 hm with rfl | hm'
    · simp
    · have hne : (x.1 == e.1) = false := by
        have : x.1 ≠ e.1 := fun heq => hnd.1 (heq ▸ List.mem_map.2 ⟨e, hm', rfl⟩)
        simpa using this
      rw [List.find?_cons, hne]
      exact find?_of_nodup xs e hnd.2 hm'

theorem readFile_entry {dir : List (String × Rec)} (hwf : FileStoreWF dir) {e : String × Rec} (he : e ∈ dir) :
    readFile dir (stem e.1) = .ok e.2 := by
  obtain ⟨hname, hdot⟩ := hwf.2 e he
  unfold readFile
  have : fileName (stem e.1) = e.1 := by rw [hname, fileName_stem hdot]
  rw [this, find?_of_nodup dir e hwf.1 he]

/-- what the loop body contributes for one directory entry -/
def fileHit (glob : String → String → Bool) (cat : String) (f : Meta) (e : String × Rec) : Option String :=
  if category e.2.id == cat && matchB glob f e.2.md then some e.2.id else none

theorem keepFile_total (glob : String → String → Bool) {dir : List (String × Rec)} (hwf : FileStoreWF dir) (cat : String)
    (f : Meta) {e : String × Rec} (he : e ∈ dir) :
    keepFile glob dir cat f e = .ok (fileHit glob cat f e) := by
  unfold keepFile fileHit
  by_cases hc : category e.2.id = cat
  · have hpre : startsWith e.1 cat = true := by
      rw [(hwf.2 e he).1, ← hc]; exact startsWith_fileName_category _
    simp only [hpre, Bool.not_true, Bool.false_eq_true, if_false, readFile_entry hwf he, hc, bne_self_eq_false,
      beq_self_eq_true, Bool.true_and]
    unfold matchB
    cases hf : f.isEmpty
    · obtain ⟨b, hb⟩ := matchMeta_total glob f e.2.md
      simp only [Bool.false_eq_true, if_false, hb, liftErr_ok, Bool.false_or]
      cases b <;> rfl
    · simp
  · have hne : (category e.2.id != cat) = true := by simpa using hc
    have hbeq : (category e.2.id == cat) = false := by simpa using hc
    cases hpre : startsWith e.1 cat
    · simp [hbeq]
    · simp [readFile_entry hwf he, hne, hbeq]

theorem filterMapE_total {ε α β : Type} (g : α → Except ε (Option β)) (g' : α → Option β) (l : List α)
    (h : ∀ x ∈ l, g x = .ok (g' x)) : filterMapE g l = .ok (l.filterMap g') := by
  induction l with
  | nil => rfl
  | cons x xs ih =>
    rw [filterMapE, h x (List.mem_cons_self ..), ih (fun y hy => h y (List.mem_cons_of_mem _ hy))]
    simp only [List.filterMap_cons]
    cases g' x <;> rfl

theorem filterMap_fileHit (glob : String → String → Bool) (cat : String) (f : Meta) (dir : List (String × Rec)) :
    dir.filterMap (fileHit glob cat f) =
      ((dir.map (·.2)).filter (fun r => category r.id == cat && matchB glob f (id r.md))).map (·.id) := by
  induction dir with
  | nil => rfl
  | cons e dir ih =>
    simp only [List.filterMap_cons, List.map_cons, List.filter_cons, fileHit, id] at ih ⊢
    cases hP : (category e.2.id == cat && matchB glob f e.2.md)
    · simpa using ih
    · simpa using ih

theorem listFile_selection (glob : String → String → Bool) (dir : List (String × Rec)) (hwf : FileStoreWF dir)
    (cat : String) (f : Meta) (lim : Option Nat) :
    ∃ l, listFile glob dir cat f lim = .ok l ∧
      IsSelection lim ((matching glob id (dir.map (·.2)) cat f).map (·.id)) l := by
  unfold listFile
  rw [filterMapE_total _ (fileHit glob cat f) dir (fun e he => keepFile_total glob hwf cat f he)]
  refine ⟨takeOpt lim (dir.filterMap (fileHit glob cat f)), rfl, ?_⟩
  rw [matching_eq, filterMap_fileHit]
  exact IsSelection.of_perm_take (List.Perm.refl _) (List.Perm.refl _)

/-! ### S3 cassette -/

theorem listPrefix_metaKey (c : Cfg) (b : Bucket) (p : String) :
    listPrefix b (metaKey c p) = (listPrefix b (metaRoot c)).filter (fun e => startsWith e.1 (metaKey c p)) := by
  unfold listPrefix
  rw [List.filter_filter]
  apply List.filter_congr
  intro e _
  cases h : startsWith e.1 (metaKey c p)
  · rfl
  · simp [startsWith_trans h (metaKey_under_metaRoot c p)]

theorem key_of_mem_listPrefix {c : Cfg} {b : Bucket} {e : String × Obj} (he : e ∈ listPrefix b (metaRoot c)) :
    e.1 = metaKey c (idOfKey c e.1) := by
  obtain ⟨t, ht⟩ := startsWith_iff_exists.1 (List.mem_filter.1 he).2
  rw [ht]
  show metaRoot c ++ t = metaKey c (idOfKey c (metaKey c t))
  rw [idOfKey_metaKey]; rfl

theorem listS3_selection (glob : String → String → Bool) (ch : Nat → Nat) (shuf : Bucket → Bucket)
    (hshuf : ∀ l, (shuf l).Perm l) (c : Cfg) (b : Bucket) (hwf : WFIds (s3Saved c b)) (cat : String)
    (hq : noChar '/' cat) (f : Meta) (lim : Option Nat) (random : Bool) :
    ∃ l, listS3 glob ch shuf c b cat f lim random = .ok l ∧
      IsSelection lim ((matching glob jsonViewFields (s3Saved c b) cat f).map (·.id)) l := by
  obtain ⟨keys, hok, ⟨rest, hperm⟩, hlen⟩ :=
    iterRecordingIds_spec glob dayStrNone prefixDays c b cat none none 0 f lim random ch shuf
  unfold listS3
  rw [hok]
  refine ⟨keys.map (idOfKey c), rfl, ?_⟩
  have hsh : ∀ l, ((if random then shuf else id) l).Perm l := by
    intro l; cases random
    · exact List.Perm.refl _
    · exact hshuf l
  -- everything that matches, as keys
  have hK : ((idPrefixes dayStrNone prefixDays cat none none 0).map
        (dayKeys glob c b none none f (if random then shuf else id))).flatten.map (idOfKey c) |>.Perm
      ((matching glob jsonViewFields (s3Saved c b) cat f).map (·.id)) := by
    simp only [idPrefixes, List.map_cons, List.map_nil, List.flatten_cons, List.flatten_nil, List.append_nil, dayKeys]
    refine (((hsh _).filter _).map _ |>.map _).trans ?_
    rw [matching_eq, s3Saved, List.filter_map, listPrefix_metaKey, List.filter_filter, List.map_map, List.map_map]
    apply List.Perm.of_eq
    have hpred : ∀ e ∈ listPrefix b (metaRoot c),
        (relevantB glob none none f e && startsWith e.1 (metaKey c (cat ++ "/"))) =
          ((fun r : Rec => category r.id == cat && matchB glob f (jsonViewFields r.md)) ∘
            (fun e : String × Obj => (⟨idOfKey c e.1, e.2.md⟩ : Rec))) e := by
      intro e he
      obtain ⟨cat', rest', hid, hns⟩ := hwf ⟨idOfKey c e.1, e.2.md⟩ (List.mem_map.2 ⟨e, he, rfl⟩)
      simp only at hid
      have hkey := key_of_mem_listPrefix he
      have h1 : startsWith e.1 (metaKey c (cat ++ "/")) = (category (idOfKey c e.1) == cat) := by
        rw [hkey, idOfKey_metaKey]
        unfold metaKey
        rw [startsWith_append_left, hid, category_mkId _ hns, Bool.eq_iff_iff, startsWith_mkId_iff _ hns hq]
        simp
      simp only [Function.comp, relevantB, windowPred_def, Bool.and_self, Bool.true_and, h1, matchB]
      exact Bool.and_comm _ _
    rw [List.filter_congr hpred]
    rfl
  refine ⟨⟨rest.map (idOfKey c), ?_⟩, ?_⟩
  · rw [← List.map_append]
    exact (hperm.map _).trans hK
  · rw [List.length_map, hlen, ← hK.length_eq, List.length_map]

/-! ### the three cassettes behind one interface -/

/-- what the cassettes guarantee about their own stores: ids are `category/rest` with slash-free categories and are
pairwise distinct (uuid1); the file cassette's directory has one file per recording, named after its id -/
def Store.WF (st : Store) : Prop :=
  WFIds st.saved ∧ (st.saved.map (·.id)).Nodup ∧
    (match st with
     | .file dir => FileStoreWF dir
     | .mem _ => True
     | .s3 _ _ => True)

/-- the environment's shuffles are permutations (all that is assumed of `random.shuffle`) -/
def Env.Fair (env : Env) : Prop := (∀ l, (env.shufIds l).Perm l) ∧ (∀ l, (env.shufObjs l).Perm l)

/-- the ids of the recordings that match, in save order -/
def expected (env : Env) (st : Store) (cat : String) (f : Meta) : List String :=
  (matching env.glob st.view st.saved cat f).map (·.id)

theorem list_selection (env : Env) (henv : env.Fair) (st : Store) (hwf : st.WF) (cat : String) (hq : noChar '/' cat)
    (f : Meta) (lim : Option Nat) (random : Bool) :
    ∃ l, list env st cat f lim random = .ok l ∧ IsSelection lim (expected env st cat f) l := by
  cases st with
  | mem saved => exact listMem_selection env.glob env.shufIds henv.1 saved cat f lim random
  | file dir => exact listFile_selection env.glob dir hwf.2.2 cat f lim
  | s3 c b => exact listS3_selection env.glob env.ch env.shufObjs henv.2 c b hwf.1 cat hq f lim random

theorem expected_nodup (env : Env) (st : Store) (hwf : st.WF) (cat : String) (f : Meta) :
    (expected env st cat f).Nodup := by
  unfold expected matching
  exact (List.filter_sublist.map _).nodup hwf.2.1

theorem mem_expected {env : Env} {st : Store} {cat : String} {f : Meta} {id : String} :
    id ∈ expected env st cat f ↔
      ∃ r ∈ st.saved, r.id = id ∧ category r.id = cat ∧ matchMeta env.glob f (st.view r.md) = .ok true := by
  unfold expected matching
  simp only [List.mem_map, List.mem_filter, Bool.and_eq_true, beq_iff_eq]
  constructor
  · rintro ⟨r, ⟨hr, hc, hm⟩, rfl⟩
    refine ⟨r, hr, rfl, hc, ?_⟩
    revert hm
    cases h : matchMeta env.glob f (st.view r.md) with
    | error e => simp [truthy]
    | ok b => cases b <;> simp [truthy]
  · rintro ⟨r, hr, rfl, hc, hm⟩
    exact ⟨r, ⟨hr, hc, by simp [hm, truthy]⟩, rfl⟩

/-! ### JSON-native metadata: the S3 view is the identity -/

mutual
theorem jsonView_native : ∀ v : MVal, jsonNative v = true → jsonView v = v
  | .tuple _, h => by simp [jsonNative] at h
  | .cls _, h => by simp [jsonNative] at h
  | .list xs, h => by
    rw [jsonNative] at h; rw [jsonView, jsonViewList_native xs h]
  | .dict fs, h => by
    rw [jsonNative] at h; rw [jsonView, jsonViewFields_native fs h]
  | .none, _ => by rw [jsonView]
  | .bool _, _ => by rw [jsonView]
  | .num _ _, _ => by rw [jsonView]
  | .str _, _ => by rw [jsonView]
theorem jsonViewList_native : ∀ xs : List MVal, jsonNativeList xs = true → jsonViewList xs = xs
  | [], _ => by rw [jsonViewList]
  | x :: xs, h => by
    rw [jsonNativeList, Bool.and_eq_true] at h
    rw [jsonViewList, jsonView_native x h.1, jsonViewList_native xs h.2]
theorem jsonViewFields_native : ∀ fs : List (String × MVal), jsonNativeFields fs = true → jsonViewFields fs = fs
  | [], _ => by rw [jsonViewFields]
  | (k, v) :: rest, h => by
    rw [jsonNativeFields, Bool.and_eq_true] at h
    rw [jsonViewFields, jsonView_native v h.1, jsonViewFields_native rest h.2]
end

/-! ### `skip_incomplete` -/

theorem setKey_fresh (k : String) (v : MVal) : ∀ f : Meta, k ∉ f.map (·.1) → setKey k v f = f ++ [(k, v)]
  | [], _ => rfl
  | (k', v') :: rest, h => by
    have hne : k' ≠ k := fun heq => h (by simp [heq])
    rw [setKey, if_neg hne, setKey_fresh k v rest (fun hm => h (by simp [hm]))]
    rfl

/-- the recorded `incomplete` flag is absent, `None` or equal to `False` -/
def notIncomplete (md : Meta) : Bool :=
  isNone (mdGet md incompleteKey) || pyEq (mdGet md incompleteKey) (.bool false)

theorem matchValue_incomplete (glob : String → String → Bool) (x : MVal) :
    matchValue glob (.list [.bool false, .none]) x = .ok true ↔
      (isNone x || pyEq x (.bool false)) = true := by
  have h1 : matchValue glob (.bool false) x = .ok (!isNone x && pyEq x (.bool false)) := by
    rw [matchValue]; unfold atomMatch; cases isNone x <;> rfl
  have h2 : matchValue glob .none x = .ok (isNone x) := by
    rw [matchValue]; cases x <;> rfl
  rw [matchValue, matchAny_true_iff]
  simp only [List.mem_cons, List.not_mem_nil, or_false, exists_eq_or_imp, exists_eq_left, h1, h2, Except.ok.injEq]
  cases isNone x <;> simp

theorem matchMeta_skip (glob : String → String → Bool) (f md : Meta) (hk : incompleteKey ∉ f.map (·.1)) :
    matchMeta glob (lookupFilter f true) md = .ok true ↔
      matchMeta glob f md = .ok true ∧ notIncomplete md = true := by
  unfold lookupFilter notIncomplete
  rw [if_pos rfl, setKey_fresh _ _ f hk, matchMeta_true_iff, matchMeta_true_iff]
  simp only [List.mem_append, List.mem_singleton]
  constructor
  · intro h
    exact ⟨fun kv hkv => h kv (Or.inl hkv), (matchValue_incomplete glob _).1 (h (incompleteKey, _) (Or.inr rfl))⟩
  · rintro ⟨h1, h2⟩ kv (hkv | rfl)
    · exact h1 kv hkv
    · exact (matchValue_incomplete glob _).2 h2

/-! ### discoverable ids of a bucket with distinct keys are distinct -/

theorem nodup_map_on {α β : Type} (g : α → β) : ∀ (l : List α), (∀ x ∈ l, ∀ y ∈ l, g x = g y → x = y) → l.Nodup →
    (l.map g).Nodup
  | [], _, _ => List.nodup_nil
  | a :: l, h, hn => by
    rw [List.nodup_cons] at hn
    rw [List.map_cons, List.nodup_cons]
    refine ⟨?_, nodup_map_on g l (fun x hx y hy => h x (List.mem_cons_of_mem _ hx) y (List.mem_cons_of_mem _ hy)) hn.2⟩
    intro hm
    obtain ⟨y, hy, hxy⟩ := List.mem_map.1 hm
    have := h y (List.mem_cons_of_mem _ hy) a (List.mem_cons_self ..) hxy
    exact hn.1 (this ▸ hy)

theorem s3Saved_nodup {c : Cfg} {b : Bucket} (h : KeysNodup b) : ((s3Saved c b).map (·.id)).Nodup := by
  unfold s3Saved
  rw [List.map_map]
  have hk : ((listPrefix b (metaRoot c)).map (·.1)).Nodup := keysNodup_filter _ h
  have : (listPrefix b (metaRoot c)).map ((fun r : Rec => r.id) ∘ fun e => (⟨idOfKey c e.1, e.2.md⟩ : Rec)) =
      ((listPrefix b (metaRoot c)).map (·.1)).map (idOfKey c) := by
    rw [List.map_map]; rfl
  rw [this]
  refine nodup_map_on _ _ ?_ hk
  intro x hx y hy hxy
  obtain ⟨e, he, rfl⟩ := List.mem_map.1 hx
  obtain ⟨e', he', rfl⟩ := List.mem_map.1 hy
  rw [key_of_mem_listPrefix he, key_of_mem_listPrefix he', hxy]

/-! ### what the S3 cassette's own saves make discoverable -/

/-- the bucket after `save_recording` of every recording of `saved` (in order) through cassette `c` -/
def bucketOfSaves (c : Cfg) (b0 : Bucket) (saved : List Rec) : Bucket :=
  saved.foldl (fun b r => applyMutations b (saveSteps c 0 ⟨r.id, "payload", r.md⟩)) b0

theorem s3Saved_save (c : Cfg) (b : Bucket) (r : Rec) (hfresh : ∀ r' ∈ s3Saved c b, r'.id ≠ r.id) :
    (s3Saved c (applyMutations b (saveSteps c 0 ⟨r.id, "payload", r.md⟩))).Perm (r :: s3Saved c b) := by
  have hk : hasKey b (metaKey c r.id) = false := by
    cases h : hasKey b (metaKey c r.id) with
    | false => rfl
    | true =>
      obtain ⟨o, ho⟩ := hasKey_iff.1 h
      have hm : (⟨idOfKey c (metaKey c r.id), o.md⟩ : Rec) ∈ s3Saved c b :=
        List.mem_map.2 ⟨(metaKey c r.id, o), List.mem_filter.2 ⟨ho, metaKey_under_metaRoot c r.id⟩, rfl⟩
      exact (hfresh _ hm (idOfKey_metaKey c r.id)).elim
  unfold s3Saved
  refine ((listPrefix_save c b 0 ⟨r.id, "payload", r.md⟩ hk).map _).trans ?_
  simp only [List.map_cons, idOfKey_metaKey]
  exact List.Perm.refl _

theorem s3Saved_bucketOfSaves (c : Cfg) (b0 : Bucket) (h0 : listPrefix b0 (metaRoot c) = []) (saved : List Rec)
    (hnd : (saved.map (·.id)).Nodup) : (s3Saved c (bucketOfSaves c b0 saved)).Perm saved := by
  have gen : ∀ (saved done : List Rec) (b : Bucket), (s3Saved c b).Perm done →
      ((done.map (·.id)) ++ (saved.map (·.id))).Nodup → (s3Saved c (bucketOfSaves c b saved)).Perm (saved.reverse ++ done) := by
    intro saved
    induction saved with
    | nil => intro done b H _; simpa [bucketOfSaves] using H
    | cons r saved ih =>
      intro done b H hn
      simp only [bucketOfSaves, List.foldl_cons, List.reverse_cons, List.append_assoc, List.singleton_append]
      have hfresh : ∀ r' ∈ s3Saved c b, r'.id ≠ r.id := by
        intro r' hr' heq
        simp only [List.map_cons] at hn
        exact (List.nodup_append.1 hn).2.2 _ (List.mem_map.2 ⟨r', H.mem_iff.1 hr', rfl⟩) _ (List.mem_cons_self ..) heq
      apply ih (r :: done) _ ((s3Saved_save c b r hfresh).trans (List.Perm.cons r H))
      simp only [List.map_cons, List.cons_append]
      simp only [List.map_cons] at hn
      exact (List.perm_middle.nodup_iff).1 hn
  have := gen saved [] b0 (by simp [s3Saved, h0]) (by simpa using hnd)
  exact this.trans (by simp)

end PlaybackModel.Lookup
