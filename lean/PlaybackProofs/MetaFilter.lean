import PlaybackModel.MetaFilter
/-! Helper lemmas for C14 (metadata filter matching). -/
namespace PlaybackModel.MetaFilter

/-- the comparisons of `_operator_filter` sit in `try … except TypeError` in the source as it stands (F8): a comparison that
cannot be made is "no match".  Stops checking when the guard disappears. -/
theorem operatorFilter_eq (op r v : MVal) :
    operatorFilter op r v = (match operatorCmp op r v with
      | .ok b => .ok b
      | .error .typeError => .ok false) := by
  unfold operatorFilter
  rw [if_pos (by rfl : PlaybackModel.Source.operatorCatchesTypeError = true)]
  cases operatorCmp op r v with
  | ok b => rfl
  | error e => cases e; rfl

/-- the pattern branch of `_match_metadata_value` tests `isinstance(recorded_value, str)` first in the source as it stands (F8) -/
theorem patternMatch_eq (glob : String → String → Bool) (p : String) (r : MVal) :
    patternMatch glob p r = patternMatchGuarded glob p r := by
  unfold patternMatch
  rw [if_pos (by rfl : PlaybackModel.Source.patternGuardsNonString = true)]

theorem operatorFilter_total (op r v : MVal) : ∃ b, operatorFilter op r v = .ok b := by
  rw [operatorFilter_eq]
  cases h : operatorCmp op r v with
  | ok b => exact ⟨b, rfl⟩
  | error e => cases e; exact ⟨false, rfl⟩

theorem atomMatch_total (f r : MVal) : ∃ b, atomMatch f r = .ok b := by
  unfold atomMatch; split <;> exact ⟨_, rfl⟩

theorem patternMatch_total (glob : String → String → Bool) (p : String) (r : MVal) :
    ∃ b, patternMatch glob p r = .ok b := by
  rw [patternMatch_eq]
  cases r <;> exact ⟨_, rfl⟩

mutual
theorem matchValue_total (glob : String → String → Bool) :
    ∀ (f r : MVal), ∃ b, matchValue glob f r = .ok b
  | .list alts, r => by
    rw [matchValue]; exact matchAny_total glob alts r
  | .dict fs, r => by
    rw [matchValue]
    split
    · exact operatorFilter_total _ _ _
    · exact atomMatch_total _ _
  | .none, r => ⟨_, by rw [matchValue]⟩
  | .str p, r => by rw [matchValue]; exact patternMatch_total glob p r
  | .bool b, r => by rw [matchValue]; exact atomMatch_total _ _
  | .num n e, r => by rw [matchValue]; exact atomMatch_total _ _
  | .tuple xs, r => by rw [matchValue]; exact atomMatch_total _ _
  | .cls c, r => by rw [matchValue]; exact atomMatch_total _ _
theorem matchAny_total (glob : String → String → Bool) :
    ∀ (alts : List MVal) (r : MVal), ∃ b, matchAny glob alts r = .ok b
  | [], r => ⟨false, by rw [matchAny]⟩
  | a :: rest, r => by
    rw [matchAny]
    obtain ⟨b, hb⟩ := matchValue_total glob a r
    rw [hb]
    cases b
    · exact matchAny_total glob rest r
    · exact ⟨true, rfl⟩
end

theorem matchMeta_total (glob : String → String → Bool) :
    ∀ (f md : List (String × MVal)), ∃ b, matchMeta glob f md = .ok b
  | [], md => ⟨true, by rw [matchMeta]⟩
  | (k, v) :: rest, md => by
    rw [matchMeta]
    obtain ⟨b, hb⟩ := matchValue_total glob v (mdGet md k)
    rw [hb]
    cases b
    · exact ⟨false, rfl⟩
    · exact matchMeta_total glob rest md

/-- `matchAny` is true exactly when some alternative matches -/
theorem matchAny_true_iff (glob : String → String → Bool) :
    ∀ (alts : List MVal) (r : MVal),
      matchAny glob alts r = .ok true ↔ ∃ a ∈ alts, matchValue glob a r = .ok true
  | [], r => by rw [matchAny]; simp
  | a :: rest, r => by
    rw [matchAny]
    obtain ⟨b, hb⟩ := matchValue_total glob a r
    rw [hb]
    cases b
    · simp only [List.mem_cons, exists_eq_or_imp, hb]
      rw [matchAny_true_iff glob rest r]
      simp
    · simp [hb]

theorem matchMeta_true_iff (glob : String → String → Bool) :
    ∀ (f md : List (String × MVal)),
      matchMeta glob f md = .ok true ↔ ∀ kv ∈ f, matchValue glob kv.2 (mdGet md kv.1) = .ok true
  | [], md => by rw [matchMeta]; simp
  | (k, v) :: rest, md => by
    rw [matchMeta]
    obtain ⟨b, hb⟩ := matchValue_total glob v (mdGet md k)
    rw [hb]
    cases b
    · simp [hb]
    · simp only [List.mem_cons, forall_eq_or_imp, hb, true_and]
      exact matchMeta_true_iff glob rest md

end PlaybackModel.MetaFilter
