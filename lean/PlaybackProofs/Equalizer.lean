import PlaybackModel.Equalizer
/-!
Helper lemmas for C08 / C13: the invariant of the repaired parent/worker protocol and its preservation by one
iteration of the comparison loop.
-/
namespace PlaybackModel.Equalizer

theorem get_set {α : Type} (m : List (Nat × α)) (i j : Nat) (v d : α) :
    get (set m i v) j d = if i = j then v else get m j d := by
  simp [get, set]

/-- Between two recordings: the current worker, if any, is the only live process, it is idle, both of its queues are
empty, and it has taken exactly `age ≤ max rate 1` tasks; nobody is stuck; every join so far was of an idle worker;
every epoch used so far is below `nextEpoch`. -/
structure PInv (cfg : Cfg) (st : PState) : Prop where
  busy_nil : st.busy = []
  live_eq : st.live = match st.worker with | some e => [e] | none => []
  taskq : ∀ e, st.worker = some e → get st.taskQ e [] = []
  resq : ∀ e, st.worker = some e → get st.resQ e [] = []
  lt_next : ∀ e, st.worker = some e → e < st.nextEpoch
  served_cur : ∀ e, st.worker = some e → get st.served e 0 = st.age ∧ 1 ≤ st.age
  served_le : ∀ e, get st.served e 0 ≤ max cfg.rate 1
  served_fresh : ∀ e, st.nextEpoch ≤ e → get st.served e 0 = 0
  joins_idle : ∀ x ∈ st.joins, x.2 = true
  log_lt : ∀ x ∈ st.servedBy, x < st.nextEpoch

theorem pinv_init (cfg : Cfg) : PInv cfg initState := by
  constructor <;> simp [initState, get]

/-- the state right after `prepare`: worker `e` is current, alone, idle, with empty queues -/
structure Ready (cfg : Cfg) (st : PState) (e : Nat) : Prop where
  worker_eq : st.worker = some e
  busy_nil : st.busy = []
  live_eq : st.live = [e]
  taskq : get st.taskQ e [] = []
  resq : get st.resQ e [] = []
  lt_next : e < st.nextEpoch
  served_cur : get st.served e 0 + 1 = st.age
  age_le : st.age ≤ max cfg.rate 1
  served_le : ∀ e', get st.served e' 0 ≤ max cfg.rate 1
  served_fresh : ∀ e', st.nextEpoch ≤ e' → get st.served e' 0 = 0
  joins_idle : ∀ x ∈ st.joins, x.2 = true
  log_lt : ∀ x ∈ st.servedBy, x < st.nextEpoch

theorem prepare_ready (cfg : Cfg) (st : PState) (h : PInv cfg st) :
    Ready cfg (prepare true cfg st).1 (prepare true cfg st).2 := by
  obtain ⟨hb, hl, htq, hrq, hlt, hsc, hsl, hsf, hj, hlog⟩ := h
  cases hw : st.worker with
  | none =>
    have h1 : 1 ≤ max cfg.rate 1 := by omega
    constructor <;>
      simp_all [prepare, recycle, ensureWorker, create, bumpAge, get_set]
    · intro e' he'; exact hsf e' (by omega)
    · intro x hx; have := hlog x hx; omega
  | some e =>
    simp only [hw] at hl
    obtain ⟨hsc1, hsc2⟩ := hsc e hw
    by_cases hage : st.age ≥ cfg.rate
    · have h1 : 1 ≤ max cfg.rate 1 := by omega
      have hr : recycle cfg st = { st with worker := none, live := st.live.erase e, joins := st.joins ++ [(e, idle st e)] } := by
        simp [recycle, hw, hage]
      constructor <;>
        simp_all [prepare, ensureWorker, create, bumpAge, get_set, idle]
      · intro e' he'; exact hsf e' (by omega)
      · intro x hx; have := hlog x hx; omega
    · have h1 : st.age + 1 ≤ max cfg.rate 1 := by omega
      have hr : recycle cfg st = st := by simp [recycle, hw, hage]
      constructor <;>
        simp_all [prepare, ensureWorker, bumpAge]

theorem wait_cons (a : Bool) (m : QMsg) (rest : List QMsg) (n : Nat) :
    wait a (m :: rest) (n + 1) = (.got m rest, 1) := by simp [wait]

theorem wait_dead (n : Nat) : wait false [] (n + 1) = (.died, 1) := by simp [wait]

theorem wait_alive_empty (n : Nat) : wait true [] n = (.timedOut, n) := by
  induction n with
  | zero => simp [wait]
  | succ k ih => simp [wait, ih]

theorem wait_le (a : Bool) (q : List QMsg) (n : Nat) : (wait a q n).2 ≤ n := by
  induction n with
  | zero => simp [wait]
  | succ k ih =>
    cases q with
    | cons m rest => simp [wait]
    | nil =>
      cases a
      · simp [wait]
      · simp only [wait, if_true]; omega

/-- behaviours on which the worker does not answer in time -/
def Beh.faulty : Beh → Bool
  | .workerExits | .hang | .late _ _ => true
  | _ => false

/-- One iteration from a state satisfying the invariant: the invariant holds again, the comparison is the recording's
own, the task went to the prepared worker, and after a fault the worker is forgotten. -/
theorem step_fixed (cfg : Cfg) (st : PState) (t : Task) (h : PInv cfg st) :
    PInv cfg (stepDed true cfg st t).1 ∧ (stepDed true cfg st t).2 = verdictAlone cfg t ∧
    (stepDed true cfg st t).1.servedBy = st.servedBy ++ [(prepare true cfg st).2] ∧
    (t.2.faulty = true → (stepDed true cfg st t).1.worker = none) ∧
    st.nextEpoch ≤ (stepDed true cfg st t).1.nextEpoch ∧
    (∃ k, 1 ≤ k ∧ k ≤ cfg.polls ∧ (t.2.faulty = false → k = 1) ∧
      (stepDed true cfg st t).1.pollsLog = st.pollsLog ++ [k]) := by
  have hr := prepare_ready cfg st h
  have hsb : (prepare true cfg st).1.servedBy = st.servedBy := by
    simp only [prepare, bumpAge, ensureWorker, recycle, create]
    repeat' split
    all_goals simp_all
  have hpl : (prepare true cfg st).1.pollsLog = st.pollsLog := by
    simp only [prepare, bumpAge, ensureWorker, recycle, create]
    repeat' split
    all_goals simp_all
  have hne : st.nextEpoch ≤ (prepare true cfg st).1.nextEpoch := by
    simp only [prepare, bumpAge, ensureWorker, recycle, create]
    repeat' split
    all_goals simp_all
  generalize hp : prepare true cfg st = p at hr hsb hne hpl
  obtain ⟨p1, e⟩ := p
  obtain ⟨id, b⟩ := t
  obtain ⟨hw, hb, hl, htq, hrq, hlt, hsc, hal, hsl, hsf, hj, hlog⟩ := hr
  simp only at hw hb hl htq hrq hlt hsc hal hsl hsf hj hlog hsb hne hpl
  have hpolls : cfg.polls = cfg.timeoutMs / 1000 + 1 := rfl
  cases b <;>
    simp [stepDed, hp, qix, putTask, workerTake, idle, workerRun, inner, get_set, hb, hl, htq, hrq, hpolls,
      wait_cons, wait_dead, wait_alive_empty, logStep, pushRes, verdictAlone, forget, killAndForget, lateLands,
      Beh.faulty, hsb, hpl]
  all_goals
    first | refine ⟨?_, hne, ?_⟩ | refine ⟨?_, hne⟩
  all_goals first
    | exact ⟨1, by omega, by omega, rfl, rfl⟩
    | exact ⟨_, by omega, by omega, rfl⟩
    | (constructor <;> simp_all [get_set])
  all_goals first
    | omega
    | (intro e1; split <;> first | omega | exact hsl e1)
    | (intro e1 h1 h2; omega)
    | (intro x hx; rcases hx with hx | hx <;> first | omega | (have := hlog x hx; omega))
    | trace_state

theorem runFrom_append (fresh : Bool) (cfg : Cfg) (a b : List Task) : ∀ st,
    runFrom fresh cfg st (a ++ b) =
      ((runFrom fresh cfg (runFrom fresh cfg st a).1 b).1,
       (runFrom fresh cfg st a).2 ++ (runFrom fresh cfg (runFrom fresh cfg st a).1 b).2) := by
  induction a with
  | nil => intro st; simp [runFrom]
  | cons t ts ih => intro st; simp [runFrom, ih]

/-- every run of the repaired protocol from a good state keeps the invariant and gives every recording its own
verdict -/
theorem run_fixed (cfg : Cfg) (ts : List Task) : ∀ st, PInv cfg st →
    PInv cfg (runFrom true cfg st ts).1 ∧ (runFrom true cfg st ts).2 = ts.map (verdictAlone cfg) := by
  induction ts with
  | nil => intro st h; exact ⟨h, rfl⟩
  | cons t r ih =>
    intro st h
    have hs := step_fixed cfg st t h
    have := ih _ hs.1
    simp only [runFrom, List.map_cons]
    exact ⟨this.1, by rw [hs.2.1, this.2]⟩

theorem pinv_reach (cfg : Cfg) (ts : List Task) : PInv cfg (runFrom true cfg initState ts).1 :=
  (run_fixed cfg ts initState (pinv_init cfg)).1

theorem post_label (cfg : Cfg) (id : Id) (r : PCR) : (post cfg id r).recordingId = id := by
  unfold post
  repeat' split
  all_goals rfl

/-- whatever the protocol variant and the state, the comparison produced for a task is labelled with its id -/
theorem step_label (fresh : Bool) (cfg : Cfg) (st : PState) (t : Task) :
    (stepDed fresh cfg st t).2.recordingId = t.1 := by
  simp only [stepDed]
  split
  · exact post_label _ _ _
  · rfl
  · rfl
  · rfl

theorem run_label (fresh : Bool) (cfg : Cfg) (ts : List Task) : ∀ st,
    (runFrom fresh cfg st ts).2.map (·.recordingId) = ts.map (·.1) := by
  induction ts with
  | nil => intro st; rfl
  | cons t r ih => intro st; simp only [runFrom, List.map_cons, step_label, ih]

theorem verdictAlone_label (cfg : Cfg) (t : Task) : (verdictAlone cfg t).recordingId = t.1 := by
  obtain ⟨id, b⟩ := t
  cases b <;> simp [verdictAlone, inner, outerFailure, post_label]

/-- in-process and dedicated-process verdicts coincide on behaviours that mean the same in both -/
theorem runInProc_eq (cfg : Cfg) (ts : List Task) (h : ∀ t ∈ ts, t.2.inProcessMeaningful = true) :
    runInProc cfg ts = ts.map (verdictAlone cfg) := by
  induction ts with
  | nil => rfl
  | cons t r ih =>
    obtain ⟨id, b⟩ := t
    have hb : b.inProcessMeaningful = true := h (id, b) (by simp)
    have ih' := ih (fun t ht => h t (by simp [ht]))
    cases b <;> simp_all [runInProc, verdictAlone, inner, Beh.inProcessMeaningful]

/-- polls logged per position are between 1 and `polls`, exactly 1 when the worker answers -/
theorem run_polls (cfg : Cfg) (ts : List Task) : ∀ st, PInv cfg st →
    ∃ l, (runFrom true cfg st ts).1.pollsLog = st.pollsLog ++ l ∧ l.length = ts.length ∧
      ∀ i (hi : i < l.length) (hi' : i < ts.length), 1 ≤ l[i] ∧ l[i] ≤ cfg.polls ∧ (ts[i].2.faulty = false → l[i] = 1) := by
  induction ts with
  | nil => intro st _; exact ⟨[], by simp [runFrom]⟩
  | cons t r ih =>
    intro st h
    obtain ⟨hinv, _, _, _, _, k, hk1, hk2, hk3, hk4⟩ := step_fixed cfg st t h
    obtain ⟨l, hl1, hl2, hl3⟩ := ih _ hinv
    refine ⟨k :: l, ?_, by simp [hl2], ?_⟩
    · simp only [runFrom]; rw [hl1, hk4]; simp
    · intro i hi hi'
      cases i with
      | zero => exact ⟨hk1, hk2, hk3⟩
      | succ j => simpa using hl3 j (by simpa using hi) (by simpa using hi')

theorem finish_live_nil (cfg : Cfg) (st : PState) (h : PInv cfg st) : (finish st).live = [] := by
  simp [finish, h.busy_nil]

end PlaybackModel.Equalizer
