import PlaybackProofs.RecorderTransparent
/-! Invariants of the interpreter: a generic preservation principle and its instances. -/
namespace PlaybackModel.Recorder

/-- every `enable_recording()` / `disable_recording()` the running code makes satisfies `E` -/
def Prog.Switches (E : Bool → Prop) : Prog → Prop
  | .done _ => True
  | .callIn _ _ body k => body.Switches E ∧ ∀ o, (k o).Switches E
  | .callOut _ _ body k => body.Switches E ∧ ∀ o, (k o).Switches E
  | .discard k => k.Switches E
  | .force k => k.Switches E
  | .recordData _ _ k => k.Switches E
  | .setEnabled b k => E b ∧ k.Switches E
  | .playData _ k => ∀ o, (k o).Switches E

/-- the running code never touches the recorder's enable switch -/
def Prog.NoSwitch (p : Prog) : Prop := p.Switches (fun _ => False)

theorem Prog.switches_true (p : Prog) : p.Switches (fun _ => True) := by
  induction p with
  | done e => trivial
  | discard k ih => exact ih
  | force k ih => exact ih
  | recordData key v k ih => exact ih
  | setEnabled b k ih => exact ⟨trivial, ih⟩
  | playData key k ih => exact fun o => ih o
  | callIn cfg args body k ihb ihk => exact ⟨ihb, fun o => ihk o⟩
  | callOut cfg args body k ihb ihk => exact ⟨ihb, fun o => ihk o⟩

/-- Any predicate closed under the recorder's elementary state updates - and under the switch flips the program makes - is
preserved by `exec`. -/
theorem exec_preserves_sw (E : Bool → Prop) (P : St → Prop)
    (hJ : ∀ s e, P s → P (addJournal s e))
    (hI : ∀ s b, P s → P (setInt s b))
    (hD : ∀ s, P s → P (doDiscard s))
    (hF : ∀ s, P s → P (doForce s))
    (hR : ∀ s key v, P s → P (doRecordData s key v))
    (hRO : ∀ s (cfg : OutCfg) n args, P s → shouldIntercept s = true → P (recordOutput (bump s cfg.alias) cfg n args))
    (hAI : ∀ cfg args k0 s o, P s → P (afterInput cfg args k0 s o))
    (hAO : ∀ alias n s o, P s → P (afterOutput alias n s o))
    (hE : ∀ s b, E b → P s → P (doSetEnabled s b)) :
    ∀ (p : Prog), p.Switches E → ∀ (s : St), P s → P (exec s p).1 := by
  intro p
  induction p with
  | done e => intro _ s h; exact h
  | discard k ih => intro hq s h; rw [exec]; exact ih hq _ (hD s h)
  | force k ih => intro hq s h; rw [exec]; exact ih hq _ (hF s h)
  | recordData key v k ih => intro hq s h; rw [exec]; exact ih hq _ (hR s key v h)
  | setEnabled b k ih => intro hq s h; rw [exec]; exact ih hq.2 _ (hE s b hq.1 h)
  | playData key k ih => intro hq s h; rw [exec]; exact ih _ (hq _) s h
  | callIn cfg args body k ihb ihk =>
    intro hq s h
    obtain ⟨hqb, hqk⟩ := hq
    have step : ∀ (sb : St) (post : Out → St → St) (postI : St → St), P sb →
        (∀ o t, P t → P (post o t)) → (∀ t, P t → P (postI t)) →
        P (match exec sb body with
            | (s1, .out o) => exec (post o s1) (k o)
            | (s1, .interrupt i) => (postI s1, .interrupt i)).1 := by
      intro sb post postI hsb hpost hpostI
      have hb := ihb hqb sb hsb
      generalize exec sb body = r at hb
      obtain ⟨s1, e⟩ := r
      cases e with
      | out o => exact ihk o (hqk o) _ (hpost o s1 hb)
      | interrupt i => exact hpostI s1 hb
    rw [exec]
    split
    · exact step _ (fun _ t => t) (fun t => t) (hJ s _ h) (fun _ _ ht => ht) (fun _ ht => ht)
    · split
      · split
        · exact ihk _ (hqk _) s h
        · exact step _ (fun _ t => setInt t false) (fun t => setInt t false) (hI _ _ (hJ _ _ (hD s h)))
            (fun _ t ht => hI t false ht) (fun t ht => hI t false ht)
      · split
        · split
          · exact ihk _ (hqk _) s h
          · split
            · exact step _ (fun _ t => t) (fun t => t) (hJ s _ h) (fun _ _ ht => ht) (fun _ ht => ht)
            · split
              · exact ihk _ (hqk _) s h
              · exact ihk _ (hqk _) s h
        · rename_i k0 fallbacks _ _ _
          exact step _ (fun o t => afterInput cfg args k0 (setInt t false) o) (fun t => setInt t false)
            (hI _ _ (hJ s _ h)) (fun o t ht => hAI cfg args k0 _ o (hI t false ht)) (fun t ht => hI t false ht)
  | callOut cfg args body k ihb ihk =>
    intro hq s h
    obtain ⟨hqb, hqk⟩ := hq
    have step : ∀ (sb : St) (post : Out → St → St) (postI : St → St), P sb →
        (∀ o t, P t → P (post o t)) → (∀ t, P t → P (postI t)) →
        P (match exec sb body with
            | (s1, .out o) => exec (post o s1) (k o)
            | (s1, .interrupt i) => (postI s1, .interrupt i)).1 := by
      intro sb post postI hsb hpost hpostI
      have hb := ihb hqb sb hsb
      generalize exec sb body = r at hb
      obtain ⟨s1, e⟩ := r
      cases e with
      | out o => exact ihk o (hqk o) _ (hpost o s1 hb)
      | interrupt i => exact hpostI s1 hb
    rw [exec]
    split
    · exact step _ (fun _ t => t) (fun t => t) (hJ s _ h) (fun _ _ ht => ht) (fun _ ht => ht)
    · rename_i hsi
      have hsi' : shouldIntercept s = true := by simpa using hsi
      have h1 := hRO s cfg (cnt s.counter cfg.alias + 1) args h hsi'
      split
      · exact step _ (fun _ t => t) (fun t => t) (hJ _ _ h1) (fun _ _ ht => ht) (fun _ ht => ht)
      · split
        · split
          · exact ihk _ (hqk _) _ h1
          · split
            · exact ihk _ (hqk _) _ h1
            · exact ihk _ (hqk _) _ h1
        · exact step _ (fun o t => afterOutput cfg.alias (cnt s.counter cfg.alias + 1) (setInt t false) o)
            (fun t => setInt t false) (hI _ _ (hJ _ _ h1))
            (fun o t ht => hAO _ _ _ o (hI t false ht)) (fun t ht => hI t false ht)

theorem exec_preserves (P : St → Prop)
    (hJ : ∀ s e, P s → P (addJournal s e))
    (hI : ∀ s b, P s → P (setInt s b))
    (hD : ∀ s, P s → P (doDiscard s))
    (hF : ∀ s, P s → P (doForce s))
    (hR : ∀ s key v, P s → P (doRecordData s key v))
    (hRO : ∀ s (cfg : OutCfg) n args, P s → shouldIntercept s = true → P (recordOutput (bump s cfg.alias) cfg n args))
    (hAI : ∀ cfg args k0 s o, P s → P (afterInput cfg args k0 s o))
    (hAO : ∀ alias n s o, P s → P (afterOutput alias n s o))
    (hE : ∀ s b, P s → P (doSetEnabled s b)) :
    ∀ (p : Prog) (s : St), P s → P (exec s p).1 :=
  fun p s h => exec_preserves_sw (fun _ => True) P hJ hI hD hF hR hRO hAI hAO (fun s b _ h => hE s b h) p p.switches_true s h

/-- … without the last closure condition for programs that never touch the switch -/
theorem exec_preserves_ns (P : St → Prop)
    (hJ : ∀ s e, P s → P (addJournal s e))
    (hI : ∀ s b, P s → P (setInt s b))
    (hD : ∀ s, P s → P (doDiscard s))
    (hF : ∀ s, P s → P (doForce s))
    (hR : ∀ s key v, P s → P (doRecordData s key v))
    (hRO : ∀ s (cfg : OutCfg) n args, P s → shouldIntercept s = true → P (recordOutput (bump s cfg.alias) cfg n args))
    (hAI : ∀ cfg args k0 s o, P s → P (afterInput cfg args k0 s o))
    (hAO : ∀ alias n s o, P s → P (afterOutput alias n s o)) :
    ∀ (p : Prog), p.NoSwitch → ∀ (s : St), P s → P (exec s p).1 :=
  fun p hp s h => exec_preserves_sw (fun _ => False) P hJ hI hD hF hR hRO hAI hAO (fun _ _ hf _ => hf.elim) p hp s h

/-- components `exec` never touches (the first conjunct was the `enabled` switch until the running code itself could flip
it: `Prog.setEnabled`; see `exec_enabledInv` and `exec_enabled_noSwitch`) -/
theorem exec_frame (p : Prog) (s : St) :
    True ∧ (exec s p).1.store = s.store ∧ (exec s p).1.draws = s.draws ∧
    (exec s p).1.drawn = s.drawn ∧ (exec s p).1.clock = s.clock ∧ (exec s p).1.nextId = s.nextId ∧
    (exec s p).1.playback = s.playback := by
  have := exec_preserves
    (fun t => True ∧ t.store = s.store ∧ t.draws = s.draws ∧ t.drawn = s.drawn ∧
      t.clock = s.clock ∧ t.nextId = s.nextId ∧ t.playback = s.playback)
    (by intro t e h; simpa using h) (by intro t b h; simpa using h) (by intro t h; simpa using h)
    (by intro t h; simpa using h) (by intro t key v h; simpa using h)
    (by intro t cfg n args h _; simpa using h) (by intro cfg args k0 t o h; simpa using h)
    (by intro a n t o h; simpa using h) (by intro t b h; simpa using h) p s ⟨trivial, rfl, rfl, rfl, rfl, rfl, rfl⟩
  exact this

/-- a program that never touches the switch leaves it as it was -/
theorem exec_enabled_noSwitch (p : Prog) (hp : p.NoSwitch) (s : St) : (exec s p).1.enabled = s.enabled :=
  exec_preserves_ns (fun t => t.enabled = s.enabled)
    (by intro t e h; simpa using h) (by intro t b h; simpa using h) (by intro t h; simpa using h)
    (by intro t h; simpa using h) (by intro t key v h; simpa using h)
    (by intro t cfg n args h _; simpa using h) (by intro cfg args k0 t o h; simpa using h)
    (by intro a n t o h; simpa using h) p hp s rfl

/-- **a recording in flight implies the switch is on**: switching recording off aborts the recording (F15), so whatever the
running code does with the switch, `in_recording_mode` is just "a recording is active" -/
def St.EnabledInv (s : St) : Prop := s.active.isSome = true → s.enabled = true

/-- the nested-interception flag is restored by every call -/
theorem exec_inInt (p : Prog) : ∀ s : St, (exec s p).1.inInt = s.inInt := by
  induction p with
  | done e => intro s; rfl
  | discard k ih => intro s; rw [exec, ih]; simp
  | force k ih => intro s; rw [exec, ih]; simp
  | recordData key v k ih => intro s; rw [exec, ih]; simp
  | setEnabled b k ih => intro s; rw [exec, ih]; simp
  | playData key k ih => intro s; rw [exec, ih]
  | callIn cfg args body k ihb ihk =>
    intro s
    have step : ∀ (sb : St) (post : Out → St → St) (postI : St → St),
        (∀ o t, (post o t).inInt = (postI t).inInt) → (∀ t, t.inInt = sb.inInt → (postI t).inInt = s.inInt) →
        (match exec sb body with
            | (s1, .out o) => exec (post o s1) (k o)
            | (s1, .interrupt i) => (postI s1, .interrupt i)).1.inInt = s.inInt := by
      intro sb post postI hpost hpostI
      have hb := ihb sb
      generalize exec sb body = r at hb
      obtain ⟨s1, e⟩ := r
      cases e with
      | out o => simp only; rw [ihk, hpost]; exact hpostI s1 hb
      | interrupt i => exact hpostI s1 hb
    rw [exec]
    split
    · exact step _ (fun _ t => t) (fun t => t) (by simp) (by intro t ht; simpa using ht)
    · rename_i hsi
      have hfl : s.inInt = false := by
        cases h : s.inInt
        · rfl
        · simp [shouldIntercept, h] at hsi
      split
      · split
        · rw [ihk]
        · exact step _ (fun _ t => setInt t false) (fun t => setInt t false) (by simp) (by intro t _; simp [setInt, hfl])
      · split
        · split
          · rw [ihk]
          · split
            · exact step _ (fun _ t => t) (fun t => t) (by simp) (by intro t ht; simpa using ht)
            · split <;> rw [ihk]
        · exact step _ (fun o t => afterInput cfg args _ (setInt t false) o) (fun t => setInt t false)
            (by simp [setInt]) (by intro t _; simp [setInt, hfl])
  | callOut cfg args body k ihb ihk =>
    intro s
    have step : ∀ (sb : St) (post : Out → St → St) (postI : St → St),
        (∀ o t, (post o t).inInt = (postI t).inInt) → (∀ t, t.inInt = sb.inInt → (postI t).inInt = s.inInt) →
        (match exec sb body with
            | (s1, .out o) => exec (post o s1) (k o)
            | (s1, .interrupt i) => (postI s1, .interrupt i)).1.inInt = s.inInt := by
      intro sb post postI hpost hpostI
      have hb := ihb sb
      generalize exec sb body = r at hb
      obtain ⟨s1, e⟩ := r
      cases e with
      | out o => simp only; rw [ihk, hpost]; exact hpostI s1 hb
      | interrupt i => exact hpostI s1 hb
    rw [exec]
    split
    · exact step _ (fun _ t => t) (fun t => t) (by simp) (by intro t ht; simpa using ht)
    · rename_i hsi
      have hfl : s.inInt = false := by
        cases h : s.inInt
        · rfl
        · simp [shouldIntercept, h] at hsi
      split
      · exact step _ (fun _ t => t) (fun t => t) (by simp) (by intro t ht; simpa using ht)
      · split
        · split
          · rw [ihk]; simp
          · split <;> (rw [ihk]; simp)
        · exact step _ (fun o t => afterOutput cfg.alias _ (setInt t false) o) (fun t => setInt t false)
            (by simp [setInt]) (by intro t _; simp [setInt, hfl])

end PlaybackModel.Recorder
