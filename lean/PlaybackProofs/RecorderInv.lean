import PlaybackProofs.RecorderTransparent
/-! Invariants of the interpreter: a generic preservation principle and its instances. -/
namespace PlaybackModel.Recorder

/-- Any predicate closed under the recorder's elementary state updates is preserved by `exec`. -/
theorem exec_preserves (P : St → Prop)
    (hJ : ∀ s e, P s → P (addJournal s e))
    (hI : ∀ s b, P s → P (setInt s b))
    (hD : ∀ s, P s → P (doDiscard s))
    (hF : ∀ s, P s → P (doForce s))
    (hR : ∀ s key v, P s → P (doRecordData s key v))
    (hRO : ∀ s (cfg : OutCfg) n args, P s → shouldIntercept s = true → P (recordOutput (bump s cfg.alias) cfg n args))
    (hAI : ∀ cfg args k0 s o, P s → P (afterInput cfg args k0 s o))
    (hAO : ∀ alias n s o, P s → P (afterOutput alias n s o)) :
    ∀ (p : Prog) (s : St), P s → P (exec s p).1 := by
  intro p
  induction p with
  | done e => intro s h; exact h
  | discard k ih => intro s h; rw [exec]; exact ih _ (hD s h)
  | force k ih => intro s h; rw [exec]; exact ih _ (hF s h)
  | recordData key v k ih => intro s h; rw [exec]; exact ih _ (hR s key v h)
  | playData key k ih => intro s h; rw [exec]; exact ih _ s h
  | callIn cfg args body k ihb ihk =>
    intro s h
    have step : ∀ (sb : St) (post : Out → St → St) (postI : St → St), P sb →
        (∀ o t, P t → P (post o t)) → (∀ t, P t → P (postI t)) →
        P (match exec sb body with
            | (s1, .out o) => exec (post o s1) (k o)
            | (s1, .interrupt i) => (postI s1, .interrupt i)).1 := by
      intro sb post postI hsb hpost hpostI
      have hb := ihb sb hsb
      generalize exec sb body = r at hb
      obtain ⟨s1, e⟩ := r
      cases e with
      | out o => exact ihk o _ (hpost o s1 hb)
      | interrupt i => exact hpostI s1 hb
    rw [exec]
    split
    · exact step _ (fun _ t => t) (fun t => t) (hJ s _ h) (fun _ _ ht => ht) (fun _ ht => ht)
    · split
      · split
        · exact ihk _ s h
        · exact step _ (fun _ t => setInt t false) (fun t => setInt t false) (hI _ _ (hJ _ _ (hD s h)))
            (fun _ t ht => hI t false ht) (fun t ht => hI t false ht)
      · split
        · split
          · exact ihk _ s h
          · split
            · exact step _ (fun _ t => t) (fun t => t) (hJ s _ h) (fun _ _ ht => ht) (fun _ ht => ht)
            · split
              · exact ihk _ s h
              · exact ihk _ s h
        · rename_i k0 fallbacks _ _ _
          exact step _ (fun o t => afterInput cfg args k0 (setInt t false) o) (fun t => setInt t false)
            (hI _ _ (hJ s _ h)) (fun o t ht => hAI cfg args k0 _ o (hI t false ht)) (fun t ht => hI t false ht)
  | callOut cfg args body k ihb ihk =>
    intro s h
    have step : ∀ (sb : St) (post : Out → St → St) (postI : St → St), P sb →
        (∀ o t, P t → P (post o t)) → (∀ t, P t → P (postI t)) →
        P (match exec sb body with
            | (s1, .out o) => exec (post o s1) (k o)
            | (s1, .interrupt i) => (postI s1, .interrupt i)).1 := by
      intro sb post postI hsb hpost hpostI
      have hb := ihb sb hsb
      generalize exec sb body = r at hb
      obtain ⟨s1, e⟩ := r
      cases e with
      | out o => exact ihk o _ (hpost o s1 hb)
      | interrupt i => exact hpostI s1 hb
    rw [exec]
    split
    · exact step _ (fun _ t => t) (fun t => t) (hJ s _ h) (fun _ _ ht => ht) (fun _ ht => ht)
    · rename_i hsi
      have hsi' : shouldIntercept s = true := by simpa using hsi
      have h1 := hRO s cfg (cnt s.counter cfg.alias + 1) args h hsi'
      split
      · exact step _ (fun _ t => t) (fun t => t) (hJ _ _ h1) (fun _ _ ht => ht) (fun _ ht => ht)
      · split
        · split
          · exact ihk _ _ h1
          · split
            · exact ihk _ _ h1
            · exact ihk _ _ h1
        · exact step _ (fun o t => afterOutput cfg.alias (cnt s.counter cfg.alias + 1) (setInt t false) o)
            (fun t => setInt t false) (hI _ _ (hJ _ _ h1))
            (fun o t ht => hAO _ _ _ o (hI t false ht)) (fun t ht => hI t false ht)

/-- components `exec` never touches -/
theorem exec_frame (p : Prog) (s : St) :
    (exec s p).1.enabled = s.enabled ∧ (exec s p).1.store = s.store ∧ (exec s p).1.draws = s.draws ∧
    (exec s p).1.drawn = s.drawn ∧ (exec s p).1.clock = s.clock ∧ (exec s p).1.nextId = s.nextId ∧
    (exec s p).1.playback = s.playback := by
  have := exec_preserves
    (fun t => t.enabled = s.enabled ∧ t.store = s.store ∧ t.draws = s.draws ∧ t.drawn = s.drawn ∧
      t.clock = s.clock ∧ t.nextId = s.nextId ∧ t.playback = s.playback)
    (by intro t e h; simpa using h) (by intro t b h; simpa using h) (by intro t h; simpa using h)
    (by intro t h; simpa using h) (by intro t key v h; simpa using h)
    (by intro t cfg n args h _; simpa using h) (by intro cfg args k0 t o h; simpa using h)
    (by intro a n t o h; simpa using h) p s ⟨rfl, rfl, rfl, rfl, rfl, rfl, rfl⟩
  exact this

/-- the nested-interception flag is restored by every call -/
theorem exec_inInt (p : Prog) : ∀ s : St, (exec s p).1.inInt = s.inInt := by
  induction p with
  | done e => intro s; rfl
  | discard k ih => intro s; rw [exec, ih]; simp
  | force k ih => intro s; rw [exec, ih]; simp
  | recordData key v k ih => intro s; rw [exec, ih]; simp
  | playData key k ih => intro s; rw [exec, ih]
  | callIn cfg args body k ihb ihk =>
    intro s
    have step : ∀ (sb : St) (post : Out → St → St) (postI : St → St),
        (∀ o t, (post o t).inInt = (postI t).inInt) → (∀ t, t.inInt = sb.inInt → (postI t).inInt = s.inInt) →
        (match exec sb body with
            | (s1, .out o) => exec (post o s1) (k o)
            | (s1, .interrupt i) => (postI s1, .interrupt i)).1.inInt = s.inInt := by
      intro sb post postI hpost hpostI
      have hb := ihb sb
      generalize exec sb body = r at hb
      obtain ⟨s1, e⟩ := r
      cases e with
      | out o => simp only; rw [ihk, hpost]; exact hpostI s1 hb
      | interrupt i => exact hpostI s1 hb
    rw [exec]
    split
    · exact step _ (fun _ t => t) (fun t => t) (by simp) (by intro t ht; simpa using ht)
    · rename_i hsi
      have hfl : s.inInt = false := by
        cases h : s.inInt
        · rfl
        · simp [shouldIntercept, h] at hsi
      split
      · split
        · rw [ihk]
        · exact step _ (fun _ t => setInt t false) (fun t => setInt t false) (by simp) (by intro t _; simp [setInt, hfl])
      · split
        · split
          · rw [ihk]
          · split
            · exact step _ (fun _ t => t) (fun t => t) (by simp) (by intro t ht; simpa using ht)
            · split <;> rw [ihk]
        · exact step _ (fun o t => afterInput cfg args _ (setInt t false) o) (fun t => setInt t false)
            (by simp [setInt]) (by intro t _; simp [setInt, hfl])
  | callOut cfg args body k ihb ihk =>
    intro s
    have step : ∀ (sb : St) (post : Out → St → St) (postI : St → St),
        (∀ o t, (post o t).inInt = (postI t).inInt) → (∀ t, t.inInt = sb.inInt → (postI t).inInt = s.inInt) →
        (match exec sb body with
            | (s1, .out o) => exec (post o s1) (k o)
            | (s1, .interrupt i) => (postI s1, .interrupt i)).1.inInt = s.inInt := by
      intro sb post postI hpost hpostI
      have hb := ihb sb
      generalize exec sb body = r at hb
      obtain ⟨s1, e⟩ := r
      cases e with
      | out o => simp only; rw [ihk, hpost]; exact hpostI s1 hb
      | interrupt i => exact hpostI s1 hb
    rw [exec]
    split
    · exact step _ (fun _ t => t) (fun t => t) (by simp) (by intro t ht; simpa using ht)
    · rename_i hsi
      have hfl : s.inInt = false := by
        cases h : s.inInt
        · rfl
        · simp [shouldIntercept, h] at hsi
      split
      · exact step _ (fun _ t => t) (fun t => t) (by simp) (by intro t ht; simpa using ht)
      · split
        · split
          · rw [ihk]; simp
          · split <;> (rw [ihk]; simp)
        · exact step _ (fun o t => afterOutput cfg.alias _ (setInt t false) o) (fun t => setInt t false)
            (by simp [setInt]) (by intro t _; simp [setInt, hfl])

end PlaybackModel.Recorder
