import PlaybackProofs.RecorderStable
/-! C01 core: replaying the FINAL data of a record run of `p` against `p` hands every call the outcome it had while
recording, never runs a body, and captures the recorded outputs one for one and in order. -/
namespace PlaybackModel.Recorder

/-- `play_data` answers `None` while recording and the recorded value while replaying, so a program whose control
flow consumes it is not "the same deterministic code" in both modes; C01 is stated for programs without it (on
the operation's own path; bodies are unconstrained) -/
def Prog.NoPlayData : Prog → Prop
  | .done _ => True
  | .callIn _ _ _ k => ∀ o, (k o).NoPlayData
  | .callOut _ _ _ k => ∀ o, (k o).NoPlayData
  | .discard k => k.NoPlayData
  | .force k => k.NoPlayData
  | .recordData _ _ k => k.NoPlayData
  | .setEnabled _ k => k.NoPlayData
  | .playData _ _ => False

theorem shouldIntercept_record {s : St} {a : Active} (hp : s.playback = none) (he : s.enabled = true)
    (hi : s.inInt = false) (ha : s.active = some a) : shouldIntercept s = true := by
  simp [shouldIntercept, inRecordingMode, inPlaybackMode, hp, he, hi, ha]

theorem shouldIntercept_replay {t : St} {r : Recording} (hp : t.playback = some r) (hi : t.inInt = false) :
    shouldIntercept t = true := by
  simp [shouldIntercept, inPlaybackMode, hp, hi]

theorem hasKey_of_getD {d : Data} {k : Key} {v : RVal} (h : getD d k = some v) : hasKey d k = true := by
  simp [hasKey, h]

/-- the fetched recording agrees with the final data of the record run on every key replay looks up (everything but
the captured-output keys, which are only compared afterwards) -/
def RecExt (r : Recording) (aF : Active) : Prop :=
  ∀ k v, (∀ al n, k ≠ .outArgs al n) → getD aF.data k = some v → getD r.data k = some v

/-- the conclusion of the core lemma, for record start state `s` (recording `a`), final data `aF`, replay state `t` -/
def ReplayOK (s t : St) (a aF : Active) (p : Prog) (o : Out) : Prop :=
  (exec t p).2 = .out o ∧ (exec t p).1.journal = t.journal ∧ (exec t p).1.counter = (exec s p).1.counter ∧
  ∃ outs, extractOutputs aF.data = outs.reverse ++ extractOutputs a.data ∧
          (exec t p).1.playbackOutputs = t.playbackOutputs ++ outs

theorem replay_core (w : Key → RVal) : ∀ (p : Prog), p.Faithful w → p.NoPlayData →
    ∀ (s t : St) (a aF : Active) (r : Recording) (o : Out),
      s.playback = none → s.enabled = true → s.inInt = false → s.active = some a →
      (exec s p).1.active = some aF → (exec s p).2 = .out o →
      t.playback = some r → RecExt r aF → t.inInt = false → t.active = none → t.counter = s.counter →
      ReplayOK s t a aF p o := by
  intro p
  induction p with
  | done e =>
    intro _ _ s t a aF r o _ _ _ ha hact hend _ _ _ _ hc
    simp only [exec] at hact hend
    rw [ha] at hact
    cases hact
    exact ⟨hend, rfl, hc, [], by simp, by simp [exec]⟩
  | discard k ih =>
    intro _ _ s t a aF r o _ _ _ _ hact _ _ _ _ _ _
    rw [exec] at hact
    rw [exec_active_none k (doDiscard s) (doDiscard_active s)] at hact
    cases hact
  | force k ih =>
    intro hF hN s t a aF r o hp he hi ha hact hend tp tr ti ta tc
    rw [exec] at hact hend
    have := ih hF hN (doForce s) t a aF r o (by simpa using hp) (by simpa using he) (by simpa using hi)
      (by simpa using ha) hact hend tp tr ti ta (by simpa using tc)
    unfold ReplayOK at this ⊢
    rw [exec, exec, doForce_inactive ta]
    exact this
  | recordData key v k ih =>
    intro hF hN s t a aF r o hp he hi ha hact hend tp tr ti ta tc
    rw [exec] at hact hend
    have hrm : inRecordingMode s = true := by simp [inRecordingMode, he, ha]
    have hs' : (doRecordData s key v).active = some { a with data := (.free key, .raw v) :: a.data } := by
      simp [doRecordData, hrm, write_active, ha]
    have := ih hF hN (doRecordData s key v) t _ aF r o (by simpa using hp) (by simpa using he) (by simpa using hi)
      hs' hact hend tp tr ti ta (by simpa using tc)
    unfold ReplayOK at this ⊢
    rw [exec, exec, doRecordData_inactive _ _ ta]
    simpa [extractOutputs_free] using this
  | setEnabled b k ih =>
    intro hF hN s t a aF r o hp he hi ha hact hend tp tr ti ta tc
    cases b with
    | false =>
      rw [exec, exec_active_none k _ (doSetEnabled_false_active s)] at hact
      cases hact
    | true =>
      rw [exec, doSetEnabled_true_of_enabled he] at hact hend
      have := ih hF hN s (doSetEnabled t true) a aF r o hp he hi ha hact hend (by simpa using tp) tr (by simpa using ti)
        (doSetEnabled_active_none true ta) (by rw [doSetEnabled_inactive true ta]; exact tc)
      unfold ReplayOK at this ⊢
      rw [exec, exec, doSetEnabled_true_of_enabled he]
      simpa using this
  | playData key k ih =>
    intro _ hN
    exact absurd hN (by simp [Prog.NoPlayData])
  | callIn cfg args body k ihb ihk =>
    intro hF hN s t a aF r o hp he hi ha hact hend tp tr ti ta tc
    obtain ⟨hnode, _, hFk⟩ := hF
    have hsi := shouldIntercept_record hp he hi ha
    have hti := shouldIntercept_replay tp ti
    rw [exec] at hact hend
    simp only [hsi, Bool.not_true, Bool.false_eq_true, if_false] at hact hend
    cases hkeys : cfg.keys args with
    | none =>
      -- key creation failure discards the recording: it cannot be the saved one
      simp only [hkeys, inPlaybackMode, hp, Option.isSome_none, Bool.false_eq_true, if_false] at hact
      have hb := exec_active_none body (setInt (addJournal (doDiscard s) (cfg.name, args)) true)
        (by simpa using doDiscard_active s)
      generalize exec (setInt (addJournal (doDiscard s) (cfg.name, args)) true) body = rb at hact hb
      obtain ⟨s1, e1⟩ := rb
      cases e1 with
      | interrupt i => simp only at hact hb; rw [setInt_active, hb] at hact; cases hact
      | out ob =>
        simp only at hact hb
        rw [exec_active_none (k ob) (setInt s1 false) (by simpa using hb)] at hact
        cases hact
    | some kf =>
      obtain ⟨k0, fb⟩ := kf
      simp only [hkeys, hp] at hact hend
      -- the body runs under the flag
      have hsb_i : (setInt (addJournal s (cfg.name, args)) true).inInt = true := by simp [setInt]
      have hsb_p : (setInt (addJournal s (cfg.name, args)) true).playback = none := by simpa using hp
      have hsb_a : (setInt (addJournal s (cfg.name, args)) true).active = some a := by simpa using ha
      have hbody := exec_flagged_body body _ a hsb_i hsb_p hsb_a
      have hbe := exec_body_end body _ hsb_p
      generalize hrb : exec (setInt (addJournal s (cfg.name, args)) true) body = rb at hact hend hbody hbe
      obtain ⟨s1, e1⟩ := rb
      obtain ⟨b1, b2, b3, b4⟩ := hbody
      simp only at b1 b2 b3 b4 hbe
      cases e1 with
      | interrupt i => simp only at hend; cases hend
      | out ob =>
        simp only at hact hend
        -- the recording must still be active after the body and after `afterInput`
        cases h1a : s1.active with
        | none =>
          have : (afterInput cfg args k0 (setInt s1 false) ob).active = none := by
            rw [afterInput_inactive _ _ _ _ (by simpa using h1a)]; simpa using h1a
          rw [exec_active_none (k ob) _ this] at hact; cases hact
        | some a1 =>
          obtain ⟨c1, c2, c3, c4, c5⟩ := b4 a1 h1a
          cases henv : envelopeOf cfg args ob with
          | none =>
            have : (afterInput cfg args k0 (setInt s1 false) ob).active = none := by
              simp [afterInput, henv, doDiscard_active]
            rw [exec_active_none (k ob) _ this] at hact; cases hact
          | some env =>
            obtain ⟨hshape, hfaith⟩ := hnode
            obtain ⟨hw, hback⟩ := hfaith k0 fb ob env hkeys hbe.symm henv
            obtain ⟨al, tt, aa, kw, hk0⟩ := hshape k0 fb hkeys
            have hs2 : afterInput cfg args k0 (setInt s1 false) ob = write (setInt s1 false) k0 env := by
              simp [afterInput, henv]
            rw [hs2] at hact hend
            have hs2a : (write (setInt s1 false) k0 env).active = some { a1 with data := (k0, env) :: a1.data } := by
              simp [write_active, h1a]
            -- (A): the entry written now is still there at the end
            have hstab := input_stable w k0 ⟨al, tt, aa, kw, hk0⟩ (k ob) (hFk ob) (write (setInt s1 false) k0 env)
              (by
                intro a' ha'
                rw [hs2a] at ha'
                cases ha'
                simp [hw]) aF hact
            -- replay side
            have hrk : getD r.data k0 = some (w k0) := tr k0 _ (by intro al' n'; rw [hk0]; simp) hstab
            have hfp : firstPresent r.data (k0 :: fb) = some k0 := by
              simp [firstPresent, hasKey_of_getD hrk]
            have ih := ihk ob (hFk ob) (hN ob) (write (setInt s1 false) k0 env) t _ aF r o
              (by simpa using b2) (by simpa using b3 (by simpa using he) a1 h1a) (by simp [setInt]) hs2a hact hend
              tp tr ti ta (by rw [tc]; simpa using c2.symm)
            unfold ReplayOK at ih ⊢
            have hexec_t : exec t (.callIn cfg args body k) = exec t (k ob) := by
              rw [exec]
              simp only [hti, Bool.not_true, Bool.false_eq_true, if_false, hkeys, tp, hfp]
              rw [hrk, Option.getD_some, ← hw, hback]
            have hexec_s : exec s (.callIn cfg args body k) = exec (write (setInt s1 false) k0 env) (k ob) := by
              rw [exec]
              simp only [hsi, Bool.not_true, Bool.false_eq_true, if_false, hkeys, hp, hrb, hs2]
            rw [hexec_t, hexec_s]
            obtain ⟨i1, i2, i3, outs, i4, i5⟩ := ih
            refine ⟨i1, i2, i3, outs, ?_, i5⟩
            rw [i4, hk0, extractOutputs_input, c1]
  | callOut cfg args body k ihb ihk =>
    intro hF hN s t a aF r o hp he hi ha hact hend tp tr ti ta tc
    obtain ⟨_, _, hFk⟩ := hF
    have hsi := shouldIntercept_record hp he hi ha
    have hti := shouldIntercept_replay tp ti
    rw [exec] at hact hend
    simp only [hsi, Bool.not_true, Bool.false_eq_true, if_false] at hact hend
    cases hov : outValue cfg args with
    | none =>
      -- the output handler raised: the recording is discarded and cannot be the saved one
      have hs1 : (recordOutput (bump s cfg.alias) cfg (cnt s.counter cfg.alias + 1) args).active = none := by
        simp [recordOutput, hov, doDiscard_active]
      have hns : shouldIntercept (recordOutput (bump s cfg.alias) cfg (cnt s.counter cfg.alias + 1) args) = false := by
        simp [shouldIntercept, inRecordingMode, inPlaybackMode, hs1, hp]
      simp only [hns, Bool.not_false, if_true] at hact
      have hb := exec_active_none body (addJournal (recordOutput (bump s cfg.alias) cfg (cnt s.counter cfg.alias + 1) args)
        (cfg.name, args)) (by simpa using hs1)
      generalize exec (addJournal (recordOutput (bump s cfg.alias) cfg (cnt s.counter cfg.alias + 1) args)
        (cfg.name, args)) body = rb at hact hb
      obtain ⟨s2, e2⟩ := rb
      cases e2 with
      | interrupt i => simp only at hact hb; rw [hb] at hact; cases hact
      | out ob =>
        simp only at hact hb
        rw [exec_active_none (k ob) s2 hb] at hact
        cases hact
    | some val =>
      have hs1 : recordOutput (bump s cfg.alias) cfg (cnt s.counter cfg.alias + 1) args
          = write (bump s cfg.alias) (.outArgs cfg.alias (cnt s.counter cfg.alias + 1)) val := by
        simp [recordOutput, hov, inPlaybackMode, hp]
      have hs1a : (write (bump s cfg.alias) (.outArgs cfg.alias (cnt s.counter cfg.alias + 1)) val).active
          = some { a with data := (.outArgs cfg.alias (cnt s.counter cfg.alias + 1), val) :: a.data } := by
        simp [write_active, ha]
      rw [hs1] at hact hend
      have hsi1 : shouldIntercept (write (bump s cfg.alias) (.outArgs cfg.alias (cnt s.counter cfg.alias + 1)) val) = true := by
        simp [shouldIntercept, inRecordingMode, inPlaybackMode, hs1a, hp, he, hi]
      simp only [hsi1, Bool.not_true, Bool.false_eq_true, if_false, write_playback, bump_playback, hp] at hact hend
      -- the body runs under the flag
      have hbody := exec_flagged_body body
        (setInt (addJournal (write (bump s cfg.alias) (.outArgs cfg.alias (cnt s.counter cfg.alias + 1)) val) (cfg.name, args)) true)
        _ (by simp [setInt]) (by simpa using hp) (by simpa using hs1a)
      generalize hrb : exec (setInt (addJournal (write (bump s cfg.alias) (.outArgs cfg.alias (cnt s.counter cfg.alias + 1)) val)
        (cfg.name, args)) true) body = rb at hact hend hbody
      obtain ⟨s2, e2⟩ := rb
      obtain ⟨b1, b2, b3, b4⟩ := hbody
      simp only at b1 b2 b3 b4
      cases e2 with
      | interrupt i => simp only at hend; cases hend
      | out ob =>
        simp only at hact hend
        cases h2a : s2.active with
        | none =>
          have : (afterOutput cfg.alias (cnt s.counter cfg.alias + 1) (setInt s2 false) ob).active = none := by
            rw [afterOutput_inactive _ _ _ (by simpa using h2a)]; simpa using h2a
          rw [exec_active_none (k ob) _ this] at hact; cases hact
        | some a2 =>
          obtain ⟨c1, c2, c3, c4, c5⟩ := b4 a2 h2a
          -- the envelope stored for the result
          obtain ⟨env, henv, hback⟩ : ∃ env, afterOutput cfg.alias (cnt s.counter cfg.alias + 1) (setInt s2 false) ob
              = write (setInt s2 false) (.outRes cfg.alias (cnt s.counter cfg.alias + 1)) env ∧ envelopeOut Out.ret env = ob := by
            cases ob with
            | ret v => exact ⟨.value v, rfl, rfl⟩
            | exc t' => exact ⟨.exception t', rfl, rfl⟩
          rw [henv] at hact hend
          have hs3a : (write (setInt s2 false) (.outRes cfg.alias (cnt s.counter cfg.alias + 1)) env).active
              = some { a2 with data := (.outRes cfg.alias (cnt s.counter cfg.alias + 1), env) :: a2.data } := by
            simp [write_active, h2a]
          have hcnt : s2.counter = (bump s cfg.alias).counter := by simpa using c2
          -- (B): the result entry written now is still there at the end
          have hwf : (k ob).All (fun cfg args _ => InputKeyShape cfg args) (fun _ _ _ => True) :=
            Prog.All_mono (fun _ _ _ h => h.1) (fun _ _ _ h => h) _ (hFk ob)
          have hstab := outres_stable cfg.alias (cnt s.counter cfg.alias + 1) env (k ob) hwf
            (write (setInt s2 false) (.outRes cfg.alias (cnt s.counter cfg.alias + 1)) env) (by simpa using b2)
            (by
              intro a' ha'
              rw [hs3a] at ha'
              cases ha'
              refine ⟨by simp, ?_⟩
              simp only [write_counter, setInt_counter, hcnt, cnt_bump, if_true]
              omega) aF hact
          -- replay side
          have ht1 : recordOutput (bump t cfg.alias) cfg (cnt t.counter cfg.alias + 1) args
              = pushPlayback (bump t cfg.alias) (.outArgs cfg.alias (cnt t.counter cfg.alias + 1)) val := by
            simp [recordOutput, hov, inPlaybackMode, tp]
          have hti1 : shouldIntercept (pushPlayback (bump t cfg.alias) (.outArgs cfg.alias (cnt t.counter cfg.alias + 1)) val) = true := by
            simp [shouldIntercept, inPlaybackMode, tp, ti]
          have ih := ihk ob (hFk ob) (hN ob)
            (write (setInt s2 false) (.outRes cfg.alias (cnt s.counter cfg.alias + 1)) env)
            (pushPlayback (bump t cfg.alias) (.outArgs cfg.alias (cnt t.counter cfg.alias + 1)) val) _ aF r o
            (by simpa using b2) (by simpa using b3 (by simpa using he) a2 h2a) (by simp [setInt]) hs3a hact hend
            (by simpa using tp) tr (by simpa using ti) (by simpa using ta)
            (by simp only [pushPlayback_counter, write_counter, setInt_counter, hcnt, bump, tc])
          unfold ReplayOK at ih ⊢
          have hexec_t : exec t (.callOut cfg args body k)
              = exec (pushPlayback (bump t cfg.alias) (.outArgs cfg.alias (cnt t.counter cfg.alias + 1)) val) (k ob) := by
            rw [exec]
            simp only [hti, Bool.not_true, Bool.false_eq_true, if_false, ht1, hti1, pushPlayback_playback, bump_playback, tp]
            rw [tc, tr _ _ (by intro al' n'; simp) hstab]
            simp only [hback]
          have hexec_s : exec s (.callOut cfg args body k)
              = exec (write (setInt s2 false) (.outRes cfg.alias (cnt s.counter cfg.alias + 1)) env) (k ob) := by
            rw [exec]
            simp only [hsi, Bool.not_true, Bool.false_eq_true, if_false, hs1, hsi1, write_playback, bump_playback, hp, hrb,
              henv]
          rw [hexec_t, hexec_s]
          obtain ⟨i1, i2, i3, outs, i4, i5⟩ := ih
          refine ⟨i1, ?_, i3, (.outArgs cfg.alias (cnt s.counter cfg.alias + 1), val) :: outs, ?_, ?_⟩
          · simpa using i2
          · rw [i4, extractOutputs_outRes, c1, extractOutputs_outArgs]
            simp
          · rw [i5]
            simp [pushPlayback, tc]

end PlaybackModel.Recorder
