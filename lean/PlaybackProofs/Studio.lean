import PlaybackModel.Studio
import PlaybackProofs.Equalizer
/-! Helper lemmas for C19. -/
namespace PlaybackModel.Studio
open PlaybackModel.Equalizer

theorem mem_insertCat (k x : Cat) (l : List Cat) : x ∈ insertCat k l ↔ x = k ∨ x ∈ l := by
  induction l with
  | nil => simp [insertCat]
  | cons c cs ih =>
    simp only [insertCat]
    split
    · simp
    · split
      · rename_i h1 h2; subst h2; simp
      · simp [ih]; constructor <;> intro h <;> rcases h with h | h | h <;> simp [h]

theorem mem_sortedCats (x : Cat) (l : List Cat) : x ∈ sortedCats l ↔ x ∈ l := by
  induction l with
  | nil => simp [sortedCats]
  | cons k ks ih => simp [sortedCats, mem_insertCat, ih]

theorem insertCat_sorted (k : Cat) (l : List Cat) (h : l.Pairwise (· < ·)) : (insertCat k l).Pairwise (· < ·) := by
  induction l with
  | nil => simp [insertCat]
  | cons c cs ih =>
    have hc := List.pairwise_cons.mp h
    by_cases hlt : k < c
    · simp only [insertCat, hlt, if_true]
      refine List.pairwise_cons.mpr ⟨?_, h⟩
      intro a ha
      rcases List.mem_cons.mp ha with rfl | ha
      · exact hlt
      · exact Nat.lt_trans hlt (hc.1 a ha)
    · by_cases heq : k = c
      · simp only [insertCat, heq, if_true, Nat.lt_irrefl, if_false]
        simpa [heq] using h
      · simp only [insertCat, hlt, heq, if_false]
        have hck : c < k := Nat.lt_of_le_of_ne (Nat.le_of_not_lt hlt) (Ne.symm heq)
        refine List.pairwise_cons.mpr ⟨?_, ih hc.2⟩
        intro a ha
        rcases (mem_insertCat k a cs).mp ha with rfl | ha
        · exact hck
        · exact hc.1 a ha

theorem sortedCats_sorted (l : List Cat) : (sortedCats l).Pairwise (· < ·) := by
  induction l with
  | nil => simp [sortedCats]
  | cons k ks ih => exact insertCat_sorted k _ ih

theorem sortedCats_nodup (l : List Cat) : (sortedCats l).Nodup := by
  have := sortedCats_sorted l
  exact this.imp (fun h => Nat.ne_of_lt h)

theorem mem_dedupFirst (x : Cat) (l : List Cat) : x ∈ dedupFirst l ↔ x ∈ l := by
  induction l with
  | nil => simp [dedupFirst]
  | cons k ks ih =>
    simp only [dedupFirst, List.mem_cons, List.mem_filter, ih, bne_iff_ne, ne_eq]
    constructor
    · rintro (h | ⟨h, _⟩) <;> simp [h]
    · rintro (h | h)
      · exact Or.inl h
      · by_cases hx : x = k
        · exact Or.inl hx
        · exact Or.inr ⟨h, hx⟩

theorem dedupFirst_nodup (l : List Cat) : (dedupFirst l).Nodup := by
  induction l with
  | nil => simp [dedupFirst]
  | cons k ks ih =>
    simp only [dedupFirst]
    refine List.nodup_cons.mpr ⟨by simp, ih.filter _⟩

theorem flatMap_congr_mem {α β : Type} (l : List α) (f g : α → List β) (h : ∀ a ∈ l, f a = g a) :
    l.flatMap f = l.flatMap g := by
  induction l with
  | nil => rfl
  | cons a as ih =>
    simp only [List.flatMap_cons]
    rw [h a (by simp), ih (fun x hx => h x (by simp [hx]))]

/-- the groups of a nodup list of categories that covers the categories of `ids` partition `ids` -/
theorem partition_perm (catOf : Id → Cat) (cats : List Cat) : ∀ (ids : List Id), cats.Nodup →
    (∀ i ∈ ids, catOf i ∈ cats) →
    (cats.flatMap (fun k => ids.filter (fun i => catOf i == k))).Perm ids := by
  induction cats with
  | nil =>
    intro ids _ h
    cases ids with
    | nil => simp
    | cons i is => exact absurd (h i (by simp)) (by simp)
  | cons c cs ih =>
    intro ids hnd hcov
    have hnd' := List.nodup_cons.mp hnd
    simp only [List.flatMap_cons]
    have hpt : ∀ k, k ≠ c → ids.filter (fun i => catOf i == k) =
        (ids.filter (fun i => !(catOf i == c))).filter (fun i => catOf i == k) := by
      intro k hk
      rw [List.filter_filter]
      apply List.filter_congr
      intro i _
      by_cases hik : catOf i = k
      · simp [hik, hk]
      · simp [hik]
    have hgen : ∀ l : List Cat, (∀ k ∈ l, k ≠ c) → l.flatMap (fun k => ids.filter (fun i => catOf i == k)) =
        l.flatMap (fun k => (ids.filter (fun i => !(catOf i == c))).filter (fun i => catOf i == k)) := by
      intro l hl
      induction l with
      | nil => rfl
      | cons a as ih2 =>
        simp only [List.flatMap_cons]
        rw [ih2 (fun k hk => hl k (by simp [hk])), hpt a (hl a (by simp))]
    have hrest := hgen cs (fun k hk h => hnd'.1 (h ▸ hk))
    rw [hrest]
    have ih' := ih (ids.filter (fun i => !(catOf i == c))) hnd'.2 (by
      intro i hi
      have hi' := List.mem_filter.mp hi
      have := hcov i hi'.1
      rcases List.mem_cons.mp this with h | h
      · simp [h] at hi'
      · exact h)
    exact (List.Perm.append_left _ ih').trans (List.filter_append_perm _ ids)

/-- the equalizer of one category, per recording, when its outcome does not depend on the mode -/
theorem runEq_eq (s : Studio) (tasks : List Task)
    (h : s.dedicated = true ∨ ∀ t ∈ tasks, t.2.inProcessMeaningful = true) :
    runEq s tasks = tasks.map (verdictAlone s.cfg) := by
  unfold runEq
  by_cases hd : s.dedicated = true
  · simp only [hd, if_true]
    exact (run_fixed s.cfg tasks initState (pinv_init s.cfg)).2
  · rcases h with h | h
    · exact absurd h hd
    · simp only [hd]
      exact runInProc_eq s.cfg tasks h

theorem lookup_sound (stored : List Rec) (p : Props) (k : Cat) :
    ∀ i ∈ lookup stored p k, ∃ r ∈ stored, r.id = i ∧ r.cat = k ∧ r.selected = true ∧
      (p.skipIncomplete = true → r.incomplete ≠ some true) := by
  intro i hi
  have hi' : i ∈ (stored.filter (keeps p k)).map (·.id) := by
    unfold lookup at hi
    cases hl : p.limit with
    | none => simpa [hl] using hi
    | some n => rw [hl] at hi; exact List.mem_of_mem_take hi
  obtain ⟨r, hr, rfl⟩ := List.mem_map.mp hi'
  obtain ⟨hr1, hr2⟩ := List.mem_filter.mp hr
  refine ⟨r, hr1, rfl, ?_⟩
  simp only [keeps, Bool.and_eq_true, beq_iff_eq, Bool.or_eq_true, Bool.not_eq_true', bne_iff_ne, ne_eq] at hr2
  refine ⟨hr2.1.1, hr2.1.2, ?_⟩
  intro hs
  rcases hr2.2 with h | h
  · simp [hs] at h
  · exact h

/-- without a limit the lookup returns every stored recording that qualifies -/
theorem lookup_complete (stored : List Rec) (p : Props) (k : Cat) (hl : p.limit = none) (r : Rec) (hr : r ∈ stored)
    (hk : keeps p k r = true) : r.id ∈ lookup stored p k := by
  simp only [lookup, hl]
  exact List.mem_map.mpr ⟨r, List.mem_filter.mpr ⟨hr, hk⟩, rfl⟩

/-! interleaved consumption -/

theorem upd_same {α : Type} (f : Cat → α) (k : Cat) (v : α) : upd f k v k = v := by simp [upd]
theorem upd_other {α : Type} (f : Cat → α) (k c : Cat) (v : α) (h : c ≠ k) : upd f k v c = f c := by simp [upd, h]

/-- Consuming the generators in any order: the shared recorder stays clean, and every category has yielded exactly
the next `count` comparisons of its own sequential run. -/
theorem consume_spec (cfg : Cfg) (order : List Cat) : ∀ (st st' : IState), consume cfg st order = some st' →
    st.sh.clean = true →
    st'.sh.clean = true ∧
    ∀ k, st'.out k = st.out k ++ (runInProc cfg (st.todo k)).take (order.count k) := by
  induction order with
  | nil =>
    intro st st' h hc
    simp only [consume, Option.some.injEq] at h
    subst h
    exact ⟨hc, by simp⟩
  | cons k0 ks ih =>
    intro st st' h hc
    simp only [consume] at h
    cases hn : nextOn cfg st k0 with
    | none => simp [hn] at h
    | some st1 =>
      simp only [hn] at h
      unfold nextOn at hn
      cases htodo : st.todo k0 with
      | nil =>
        simp only [htodo, Option.some.injEq] at hn
        subst hn
        obtain ⟨h1, h2⟩ := ih st st' h hc
        refine ⟨h1, ?_⟩
        intro k
        rw [h2 k]
        by_cases hk : k0 = k
        · subst hk; simp [htodo, runInProc]
        · simp [hk]
      | cons t rest =>
        obtain ⟨id, b⟩ := t
        simp only [htodo] at hn
        cases hin : inner id b with
        | none => simp [hin] at hn
        | some r =>
          simp only [hin, Option.some.injEq, hc, if_true] at hn
          subst hn
          obtain ⟨h1, h2⟩ := ih _ st' h (by simp)
          refine ⟨h1, ?_⟩
          intro k
          rw [h2 k]
          by_cases hk : k0 = k
          · subst hk
            simp [upd_same, htodo, runInProc, hin]
          · have hk' : k ≠ k0 := fun h => hk h.symm
            simp [upd_other _ _ _ _ hk', hk]

/-- `next` never fails to return when every remaining behaviour returns in-process -/
theorem consume_total (cfg : Cfg) (order : List Cat) : ∀ (st : IState),
    (∀ k, ∀ t ∈ st.todo k, t.2.inProcessMeaningful = true) → ∃ st', consume cfg st order = some st' := by
  induction order with
  | nil => intro st _; exact ⟨st, rfl⟩
  | cons k0 ks ih =>
    intro st hm
    simp only [consume]
    unfold nextOn
    cases htodo : st.todo k0 with
    | nil => simpa using ih st hm
    | cons t rest =>
      obtain ⟨id, b⟩ := t
      have hb : b.inProcessMeaningful = true := hm k0 (id, b) (by simp [htodo])
      cases hin : inner id b with
      | none => cases b <;> simp [inner, Beh.inProcessMeaningful] at hin hb
      | some r =>
        simp only [hin]
        apply ih
        intro k t ht
        by_cases hk : k = k0
        · subst hk
          simp only [upd_same] at ht
          exact hm k t (by simp [htodo, ht])
        · simp only [upd_other _ _ _ _ hk] at ht
          exact hm k t ht

end PlaybackModel.Studio
