import Drive.Json
import PlaybackModel.Threads
import PlaybackModel.ThreadsReplay
/-! Line-protocol handler for the thread micro-step model (C04, interceptions in flight on worker threads). -/
open Lean
namespace Drive.Threads
open Drive PlaybackModel.Threads

/-- {"m":"c04.threads","main":"return"|"discard"|"join"|"discard-join","workers":[[{"arg":n,"raises":b,"prepare_fails":b,
"key_fails":b}..]..],"schedule":[tid..]} -> what each worker's calls were handed, per worker -/
def threadsH : Handler := fun j => do
  let mainMode ← strField j "main"
  let workersJ ← arrField j "workers"
  let workers ← mapM' (fun wj => do
    let calls ← mapM' (fun cj => do
      let arg ← natField cj "arg"
      let raises ← boolField cj "raises"
      let pf := (asBool (fieldD cj "prepare_fails" (.bool false))).toOption.getD false
      let kf := (asBool (fieldD cj "key_fails" (.bool false))).toOption.getD false
      .ok ({ key := if kf then none else some arg, body := if raises then .exc arg else .ret arg, prepareFails := pf } : Call))
      (← asArr wj)
    .ok ({ todo := calls, pc := .start, recSnap := none, parSnap := none, keyEff := none, toAbort := none, results := [] } : Worker))
    workersJ
  let sched ← mapM' asNat (← arrField j "schedule")
  let mainPc : MainPc := if mainMode == "discard" || mainMode == "discard-join" then .discardRead
                         else if mainMode == "return" then .finalRead else .idle
  let sys : Sys := { shared := { enabled := true, active := some 0, copyFlag := some false, forced := false, counterReset := 0,
                                 recs := [⟨[], false⟩], aborts := [], saves := [] },
                     main := { pc := mainPc, keep := true }, workers := workers }
  -- the given schedule, then round-robin until every worker is done
  let n := workers.length
  let tail := (List.range (60 * (n + 1))).map (fun i => i % (n + 1))
  match runSched stepWorker sys (sched ++ tail) with
  | .error e => .ok (jObj [("error", Json.str (match e with | .attributeError => "AttributeError" | .assertionError => "AssertionError"))])
  | .ok sys' =>
    .ok (jObj [("results", jArr (sys'.workers.map (fun w => jArr (w.handed.map (fun o => match o with
      | .ret v => jArr [Json.str "ret", jNat v]
      | .exc _ => jArr [Json.str "exc", Json.str "KeyError"]))))),
      ("done", Json.bool (sys'.workers.all (fun w => w.todo.isEmpty)))])

/-- {"m":"c01.threads","threads":[[{"in":bool,"name":s,"arg":s,"res":s}..]..],"world":[[key,value]..],"s1":[tid..],"s2":[tid..]}
-> what each thread's calls were handed while recording (schedule s1) and while replaying the recorded data (schedule s2),
the recorded and the captured output arguments.  Both schedules are completed round-robin. -/
def recordReplayH : Handler := fun j => do
  let threadsJ ← arrField j "threads"
  let progs ← mapM' (fun tj => do
    mapM' (fun cj => do
      .ok ({ isIn := ← boolField cj "in", name := ← strField cj "name", arg := ← strField cj "arg", res := ← strField cj "res" }
            : PlaybackModel.ThreadsReplay.TCall)) (← asArr tj)) threadsJ
  let worldL ← mapM' (fun kv => do match ← asArr kv with
    | [k, v] => .ok ((← asStr k), (← asStr v))
    | _ => .error "bad world entry") (← arrField j "world")
  let w : String → String := fun k => (worldL.lookup k).getD "<no live value>"
  let prog : Nat → List PlaybackModel.ThreadsReplay.TCall := fun t => (progs[t]?).getD []
  let n := progs.length
  let total := progs.foldl (fun acc l => acc + l.length) 0
  let tail := (List.range ((total + 1) * (n + 1))).map (fun i => i % (n + 1))
  let s1 ← mapM' asNat (← arrField j "s1")
  let s2 ← mapM' asNat (← arrField j "s2")
  let rec1 := PlaybackModel.ThreadsReplay.runRecord w prog (s1 ++ tail)
  let rep := PlaybackModel.ThreadsReplay.runReplay (PlaybackModel.ThreadsReplay.get rec1.data) prog (s2 ++ tail)
  let seenJ (st : PlaybackModel.ThreadsReplay.St) : Json :=
    jArr ((List.range n).map (fun t => jArr ((st.seen t).reverse.map Json.str)))
  let outsJ (d : PlaybackModel.ThreadsReplay.Data) : Json :=
    jArr (d.filterMap (fun kv => match kv.1 with
      | .outArgs t a k => some (jArr [jNat t, Json.str a, jNat k, Json.str kv.2])
      | _ => Option.none))
  .ok (jObj [("record", seenJ rec1), ("replay", seenJ rep), ("recorded", outsJ rec1.data), ("playback", outsJ rep.pb),
             ("complete", Json.bool ((List.range n).all (fun t => rec1.pc t == (prog t).length && rep.pc t == (prog t).length)))])

def handlers : List (String × Handler) := [("c04.threads", threadsH), ("c01.threads", recordReplayH)]

end Drive.Threads
