import Drive.Json
import PlaybackModel.Threads
/-! Line-protocol handler for the thread micro-step model (C04, interceptions in flight on worker threads). -/
open Lean
namespace Drive.Threads
open Drive PlaybackModel.Threads

/-- {"m":"c04.threads","main":"return"|"discard"|"join"|"discard-join","workers":[[{"arg":n,"raises":b,"prepare_fails":b,
"key_fails":b}..]..],"schedule":[tid..]} -> what each worker's calls were handed, per worker -/
def threadsH : Handler := fun j => do
  let mainMode ← strField j "main"
  let workersJ ← arrField j "workers"
  let workers ← mapM' (fun wj => do
    let calls ← mapM' (fun cj => do
      let arg ← natField cj "arg"
      let raises ← boolField cj "raises"
      let pf := (asBool (fieldD cj "prepare_fails" (.bool false))).toOption.getD false
      let kf := (asBool (fieldD cj "key_fails" (.bool false))).toOption.getD false
      .ok ({ key := if kf then none else some arg, body := if raises then .exc arg else .ret arg, prepareFails := pf } : Call))
      (← asArr wj)
    .ok ({ todo := calls, pc := .start, recSnap := none, parSnap := none, keyEff := none, toAbort := none, results := [] } : Worker))
    workersJ
  let sched ← mapM' asNat (← arrField j "schedule")
  let mainPc : MainPc := if mainMode == "discard" || mainMode == "discard-join" then .discardRead
                         else if mainMode == "return" then .finalRead else .idle
  let sys : Sys := { shared := { enabled := true, active := some 0, copyFlag := some false, forced := false, counterReset := 0,
                                 recs := [⟨[], false⟩], aborts := [], saves := [] },
                     main := { pc := mainPc, keep := true }, workers := workers }
  -- the given schedule, then round-robin until every worker is done
  let n := workers.length
  let tail := (List.range (60 * (n + 1))).map (fun i => i % (n + 1))
  match runSched stepWorker sys (sched ++ tail) with
  | .error e => .ok (jObj [("error", Json.str (match e with | .attributeError => "AttributeError" | .assertionError => "AssertionError"))])
  | .ok sys' =>
    .ok (jObj [("results", jArr (sys'.workers.map (fun w => jArr (w.handed.map (fun o => match o with
      | .ret v => jArr [Json.str "ret", jNat v]
      | .exc _ => jArr [Json.str "exc", Json.str "KeyError"]))))),
      ("done", Json.bool (sys'.workers.all (fun w => w.todo.isEmpty)))])

def handlers : List (String × Handler) := [("c04.threads", threadsH)]

end Drive.Threads
