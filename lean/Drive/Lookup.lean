import Drive.Json
import Drive.C14
import Drive.S3
import PlaybackModel.Lookup
/-! Line-protocol handlers for recording lookup on the three cassettes (C10). -/
open Lean
namespace Drive.Lookup
open Drive PlaybackModel.MetaFilter PlaybackModel.S3 PlaybackModel.Lookup

def toRec (j : Json) : Except String Rec := do
  .ok ⟨(← strField j "id"), (← Drive.S3.toMeta j "md")⟩

def errJson : LErr → Json
  | .typeError => Json.str "TypeError"
  | .noSuchRecording => Json.str "NoSuchRecording"

def flag (j : Json) (k : String) : Bool :=
  (optField j k).map (fun v => v == Json.bool true) |>.getD false

/-- {"m":"c10.list","store":"mem"|"file"|"s3","p":prefix,"recs":[{"id","md"}..],"order":[idx..]?,"cat","f","lim",
     "random","skip":true|false|null,"scalar":bool?,"ch":[..],"rot":k}
    → {"ids":[..],"fetch":[bool..]} | "TypeError" | "NoSuchRecording".
    `recs` in save order; for the file store `order` is the `os.listdir` order (indices into `recs`, default identity).
    `skip` present (true/false): go through `find_matching_recording_ids` with that `skip_incomplete`. -/
def listH : Handler := fun j => do
  let recs ← mapM' toRec (← arrField j "recs")
  let kind ← strField j "store"
  let store : Store ← match kind with
    | "mem" => pure (Store.mem recs)
    | "file" => do
      let order ← match optField j "order" with
        | none => pure (List.range recs.length)
        | some o => mapM' asNat (← asArr o)
      pure (Store.file (dirOf (order.filterMap (fun i => recs[i]?))))
    | "s3" => do
      let c := mkCfg (← strField j "p") false false
      let foreign ← match optField j "foreign" with
        | none => pure []
        | some v => mapM' asStr (← asArr v)
      let b0 : Bucket := foreign.foldl (fun b k => putObj b k ⟨"foreign", [], 0⟩) []
      let b := recs.foldl (fun b r => applyMutations b (saveSteps c 0 ⟨r.id, "payload", r.md⟩)) b0
      pure (Store.s3 c b)
    | _ => throw s!"unknown store {kind}"
  let env : Env := ⟨fnmatch, Drive.S3.rotate ((Drive.S3.optNat j "rot").toOption.join.getD 0),
                   Drive.S3.rotate ((Drive.S3.optNat j "rot").toOption.join.getD 0), Drive.S3.chOf (← Drive.S3.toDraws j)⟩
  let f ← Drive.S3.toMeta j "f"
  let lim ← Drive.S3.optNat j "lim"
  let cat ← strField j "cat"
  let res := match j.getObjVal? "skip" with
    | .ok (.bool skip) =>
      if flag j "scalar" then list env store cat (lookupFilterScalar f skip) lim (flag j "random")
      else findMatching env store cat f lim (flag j "random") skip
    | _ => list env store cat f lim (flag j "random")
  match res with
  | .ok ids => .ok (jObj [("ids", jArr (ids.map Json.str)), ("fetch", jArr (ids.map (fun i => Json.bool (store.fetchable i))))])
  | .error e => .ok (errJson e)

/-- {"m":"c10.category","id":s} → `id.split('/')[0]` -/
def categoryH : Handler := fun j => do
  .ok (Json.str (category (← strField j "id")))

def handlers : List (String × Handler) :=
  [("c10.list", listH), ("c10.category", categoryH)]

end Drive.Lookup
