import Drive.Json
/-! Line-protocol handlers: Lookup (stub until the model lands). -/
open Lean
namespace Drive.Lookup
open Drive

def handlers : List (String × Handler) := []

end Drive.Lookup
