import Drive.Json
/-! Line-protocol handlers: Codec (stub until the model lands). -/
open Lean
namespace Drive.Codec
open Drive

def handlers : List (String × Handler) := []

end Drive.Codec
