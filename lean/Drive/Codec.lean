import Drive.Json
import PlaybackModel.Codec
import PlaybackModel.Lexer
import PlaybackModel.Keys
import PlaybackModel.Cassette
/-! Line-protocol handlers for the codec / key / cassette models (C06, C07).

Wire form of `Val`: null | true | false | {"i":"<decimal>"} | {"f":"<repr>"} | {"s":str} | {"b":[byte..]} (in) /
{"q":"<quoted-printable>"} (out) | {"l":[..]} | {"t":[..]} | {"S":[..]} (set, iteration order) |
{"d":[[k,v]..]} (insertion order) | {"o":[class,[[k,v]..]]} | {"c":class}. -/
open Lean
namespace Drive.Codec
open Drive PlaybackModel.Codec PlaybackModel.Keys PlaybackModel.Cassette

mutual
  partial def toVal (j : Json) : Except String Val :=
    match j with
    | .null => .ok .none
    | .bool b => .ok (.bool b)
    | _ =>
      match optField j "i", optField j "f", optField j "s", optField j "b", optField j "q" with
      | some i, _, _, _, _ => do .ok (.int (← asInt i))
      | _, some f, _, _, _ => do .ok (.float (← asStr f))
      | _, _, some s, _, _ => do .ok (.str (← asStr s))
      | _, _, _, some b, _ => do .ok (.bytes (qpEncode (← mapM' asNat (← asArr b))))
      | _, _, _, _, some q => do .ok (.bytes (← asStr q))
      | _, _, _, _, _ =>
        match optField j "l", optField j "t", optField j "S", optField j "d", optField j "o", optField j "c" with
        | some l, _, _, _, _, _ => do .ok (.list (← toVals (← asArr l)))
        | _, some t, _, _, _, _ => do .ok (.tuple (← toVals (← asArr t)))
        | _, _, some s, _, _, _ => do .ok (.set (← toVals (← asArr s)))
        | _, _, _, some d, _, _ => do .ok (.dict (← toFields (← asArr d)))
        | _, _, _, _, some o, _ => do
          match ← asArr o with
          | [c, fs] => .ok (.obj (← asStr c) (← toFields (← asArr fs)))
          | _ => .error "bad object"
        | _, _, _, _, _, some c => do .ok (.cls (← asStr c))
        | _, _, _, _, _, _ => .error s!"bad value {j.compress}"
  partial def toVals (l : List Json) : Except String Vals :=
    match l with
    | [] => .ok .nil
    | x :: xs => do .ok (.cons (← toVal x) (← toVals xs))
  partial def toFields (l : List Json) : Except String Fields :=
    match l with
    | [] => .ok .nil
    | kv :: rest => do
      match ← asArr kv with
      | [k, v] => .ok (.cons (← asStr k) (← toVal v) (← toFields rest))
      | _ => .error "bad field"
end

mutual
  def ofVal : Val → Json
    | .none => .null
    | .bool b => .bool b
    | .int n => jObj [("i", .str (toString n))]
    | .float r => jObj [("f", .str r)]
    | .str s => jObj [("s", .str s)]
    | .bytes qp => jObj [("q", .str qp)]
    | .list xs => jObj [("l", jArr (ofVals xs))]
    | .tuple xs => jObj [("t", jArr (ofVals xs))]
    | .set xs => jObj [("S", jArr (ofVals xs))]
    | .dict fs => jObj [("d", jArr (ofFields fs))]
    | .obj c fs => jObj [("o", jArr [.str c, jArr (ofFields fs)])]
    | .cls n => jObj [("c", .str n)]
  def ofVals : Vals → List Json
    | .nil => []
    | .cons x xs => ofVal x :: ofVals xs
  def ofFields : Fields → List Json
    | .nil => []
    | .cons k v fs => jArr [.str k, ofVal v] :: ofFields fs
end

def errName : Err → String
  | .indexError => "IndexError"
  | .keyError => "KeyError"
  | .valueError => "ValueError"

def toPVal (j : Json) : Except String PVal :=
  match optField j "i", optField j "s" with
  | some i, _ => do .ok (.int (← asInt i))
  | _, some s => do .ok (.str (← asStr s))
  | _, _ => .error s!"bad alias parameter {j.compress}"

def toParams (j : Json) : Except String (Option (List (String × PVal))) :=
  if isNull j then .ok none else do
    let l ← asArr j
    let ps ← mapM' (fun kv => do
      match ← asArr kv with
      | [k, v] => .ok ((← asStr k), (← toPVal v))
      | _ => .error "bad parameter") l
    .ok (some ps)

def toSel (j : Json) : Except String Sel :=
  if isNull j then .ok .all else do
    let l ← asArr j
    let cs ← mapM' (fun c => do
      match ← asArr c with
      | [p, n] => do
        let pos ← if isNull p then pure none else (do pure (some (← asNat p)))
        let name ← if isNull n then pure none else (do pure (some (← asStr n)))
        .ok (⟨pos, name⟩ : CapturedArg)
      | _ => .error "bad captured arg") l
    .ok (.only cs)

/-- {"m":"c06.key","alias":..,"resolved":null|[[name,pval]..],"sel":null|[[pos|null,name|null]..],"static":bool,
     "args":[v..],"kwargs":[[k,v]..]} → {"key":text} | {"err":name} -/
def keyH : Handler := fun j => do
  let alias ← strField j "alias"
  let resolved ← toParams (fieldD j "resolved" .null)
  let sel ← toSel (fieldD j "sel" .null)
  let static ← boolField j "static"
  let args ← toVals (← arrField j "args")
  let kwargs ← toFields (← arrField j "kwargs")
  match callKey alias resolved sel static args kwargs with
  | .ok k => .ok (jObj [("key", .str k)])
  | .error e => .ok (jObj [("err", .str (errName e))])

/-- {"m":"c06.encode","v":v} → text of jsonpickle.encode(v) -/
def encodeH : Handler := fun j => do
  .ok (.str (encodeText (← toVal (← field j "v"))))

/-- {"m":"c06.roundtrip","v":v} → wire of decode(encode(v)) | null when the model's parser rejects -/
def roundtripH : Handler := fun j => do
  let v ← toVal (← field j "v")
  match decodeToks (encToks v) with
  | some v' => .ok (jObj [("v", ofVal v')])
  | none => .ok .null

/-- {"m":"c06.roundtripText","v":v} → wire of decodeText(encodeText(v)): the TEXT is lexed character by character, then parsed
and restored | null when the model's lexer / parser rejects -/
def roundtripTextH : Handler := fun j => do
  let v ← toVal (← field j "v")
  match decodeText (encodeText v) with
  | some v' => .ok (jObj [("v", ofVal v')])
  | none => .ok .null

/-- {"m":"c06.outkey","alias":..,"n":k} -/
def outkeyH : Handler := fun j => do
  .ok (.str (outputKey (← strField j "alias") (← natField j "n")))

/-! ### cassettes -/
def toKind (j : Json) : Except String Kind := do
  match ← strField j "kind" with
  | "memory" => .ok .memory
  | "file" => .ok .file
  | "s3" => .ok (.s3 (← strField j "prefix"))
  | k => .error s!"bad cassette kind {k}"

def cerrJson : CErr → Json
  | .noSuchRecording _ => jObj [("err", .str "NoSuchRecording")]
  | .decodeError => jObj [("err", .str "DecodeError")]

def blobText (s : Store) (name : String) : Json :=
  match s.get name with
  | some b => .str (render b)
  | none => .null

/-- one operation on the store; returns the new store and the observation -/
def step (c : Kind) (s : Store) (op : Json) : Except String (Store × Json) := do
  let z := Zip.id
  match ← strField op "op" with
  | "save" =>
    let r : Recording := ⟨← strField op "id", ← toFields (← arrField op "data"), ← toFields (← arrField op "meta")⟩
    .ok (save z c s r, .null)
  | "get" =>
    let id ← strField op "id"
    match get z c s id with
    | .ok r => .ok (s, jObj [("id", .str r.id), ("keys", jArr (r.data.keys.map .str)),
                             ("data", jArr (ofFields r.data)), ("meta", jArr (ofFields r.metadata))])
    | .error e => .ok (s, cerrJson e)
  | "meta" =>
    let id ← strField op "id"
    match getMetadata z c s id with
    | .ok m => .ok (s, jObj [("meta", jArr (ofFields m))])
    | .error e => .ok (s, cerrJson e)
  | "blob" =>
    let id ← strField op "id"
    match c with
    | .memory => .ok (s, jObj [("text", blobText s id)])
    | .file => .ok (s, jObj [("name", .str (fileName id)), ("text", blobText s (fileName id))])
    | .s3 kp => .ok (s, jObj [("full_key", .str (fullKey kp id)), ("full", blobText s (fullKey kp id)),
                              ("meta_key", .str (metaKey kp id)), ("metadata", blobText s (metaKey kp id))])
  | "names" =>
    let names := s.map (·.1)
    .ok (s, jArr ((names.eraseDups.toArray.qsort (· < ·)).toList.map .str))
  | o => .error s!"bad op {o}"

def steps (c : Kind) : Store → List Json → Except String (List Json)
  | _, [] => .ok []
  | s, op :: ops => do
    let (s', r) ← step c s op
    let rs ← steps c s' ops
    .ok (r :: rs)

/-- {"m":"c07.run","kind":"memory"|"file"|"s3","prefix":..,"ops":[..]} → one observation per op -/
def runH : Handler := fun j => do
  let c ← toKind j
  .ok (jArr (← steps c [] (← arrField j "ops")))

def handlers : List (String × Handler) :=
  [("c06.key", keyH), ("c06.encode", encodeH), ("c06.roundtrip", roundtripH), ("c06.roundtripText", roundtripTextH),
   ("c06.outkey", outkeyH),
   ("c07.run", runH)]

end Drive.Codec
