import Drive.Json
/-! Line-protocol handlers: Equalizer (stub until the model lands). -/
open Lean
namespace Drive.Equalizer
open Drive

def handlers : List (String × Handler) := []

end Drive.Equalizer
