import Drive.Json
import PlaybackModel.Equalizer
/-! Line-protocol handlers for the Equalizer model (C08, C13).

Request  `{"m":"c08.run"|"c13.run", "mode":"ded"|"inproc"|"unfixed", "keep":bool, "rate":n, "timeoutMs":n,
           "tasks":[[id, beh]…], "k": n (comparisons consumed; omitted = all)}`
`beh` = `{"k":"verdict","s":status,"m":msg}` | `{"k":"bare","s":status}` | `{"k":"playerRaises","m":msg}` |
        `{"k":"extractorRaises","m":msg}` | `{"k":"comparatorRaises","m":msg}` | `{"k":"exit"}` | `{"k":"hang"}` |
        `{"k":"late","s":status,"m":msg}`. -/
open Lean
namespace Drive.Equalizer
open Drive PlaybackModel.Equalizer

def toStatus : String → Except String Status
  | "Equal" => .ok .equal
  | "Fixed" => .ok .fixed
  | "Different" => .ok .different
  | "Failed" => .ok .failed
  | "EqualizerFailure" => .ok .equalizerFailure
  | s => .error s!"bad status {s}"

def statusName : Status → String
  | .equal => "Equal"
  | .fixed => "Fixed"
  | .different => "Different"
  | .failed => "Failed"
  | .equalizerFailure => "EqualizerFailure"

def toBeh (j : Json) : Except String Beh := do
  match ← strField j "k" with
  | "verdict" => .ok (.verdict (← toStatus (← strField j "s")) (← strField j "m"))
  | "bare" => .ok (.bareStatus (← toStatus (← strField j "s")))
  | "playerRaises" => .ok (.playerRaises (← strField j "m"))
  | "extractorRaises" => .ok (.extractorRaises (← strField j "m"))
  | "comparatorRaises" => .ok (.comparatorRaises (← strField j "m"))
  | "unreadable" => .ok (.unreadable (← toStatus (← strField j "s")) (← strField j "m") (← strField j "err"))
  | "exit" => .ok .workerExits
  | "hang" => .ok .hang
  | "late" => .ok (.late (← toStatus (← strField j "s")) (← strField j "m"))
  | k => .error s!"bad behaviour {k}"

def toTask (j : Json) : Except String Task := do
  match ← asArr j with
  | [i, b] => .ok ((← asNat i), (← toBeh b))
  | _ => .error "bad task"

def toCfg (j : Json) : Except String Cfg := do
  .ok ⟨← boolField j "keep", ← natField j "rate", ← natField j "timeoutMs"⟩

def jOpt {α : Type} (f : α → Json) : Option α → Json
  | none => Json.null
  | some a => f a

def jExtracted : Extracted → Json
  | .recorded i => jArr [Json.str "rec", jNat i]
  | .played i => jArr [Json.str "act", jNat i]

def jFlags (f : Bool × Bool) : Json := jArr [Json.bool f.1, Json.bool f.2]

def jComparison (c : Comparison) : Json :=
  jObj [("id", jNat c.recordingId), ("status", Json.str (statusName c.status)), ("message", jOpt Json.str c.message),
        ("playback", jOpt jNat c.playback), ("expected", jOpt jExtracted c.expected), ("actual", jOpt jExtracted c.actual),
        ("flags", jOpt jFlags c.flags)]

/-- distinct epochs of `served`, with their counts, in increasing epoch order -/
def servedTable (st : PState) : List (Nat × Nat) :=
  (List.range st.nextEpoch).map (fun e => (e, get st.served e 0))

def runH : Handler := fun j => do
  let cfg ← toCfg j
  let tasks ← mapM' toTask (← arrField j "tasks")
  let mode ← strField j "mode"
  let k ← match optField j "k" with
    | some v => asNat v
    | none => .ok tasks.length
  let consumed := tasks.take k
  if mode == "inproc" then
    .ok (jObj [("comparisons", jArr ((runInProc cfg consumed).map jComparison))])
  else
    -- "ded": the code as it stands (own queues per worker iff the source says so, fix F9); "unfixed" forces the shared pair
    let fresh := mode != "unfixed" && ownQueues
    let r := runFrom fresh cfg initState consumed
    let st := r.1
    .ok (jObj [("comparisons", jArr (r.2.map jComparison)),
               ("servedBy", jArr (st.servedBy.map jNat)),
               ("served", jArr ((servedTable st).map (fun p => jArr [jNat p.1, jNat p.2]))),
               ("polls", jArr (st.pollsLog.map jNat)),
               ("joinsIdle", Json.bool (st.joins.all (·.2))),
               ("liveBeforeFinish", jNat st.live.length),
               ("left", jNat (finish st).live.length)])

def handlers : List (String × Handler) := [("c08.run", runH), ("c13.run", runH)]

end Drive.Equalizer
