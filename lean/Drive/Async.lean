import Drive.Json
/-! Line-protocol handlers: Async (stub until the model lands). -/
open Lean
namespace Drive.Async
open Drive

def handlers : List (String × Handler) := []

end Drive.Async
