import Drive.Json
import PlaybackModel.Async
import PlaybackModel.AsyncCaller
/-! Line-protocol handlers for the asynchronous cassette model (C12).

* `c12.run`  : `{"programs":[[op..]..],"sched":[step..],"recs":[n..],"cfg":{..}?}` → the state after the schedule
* `c12.sync` : `{"programs":[[op..]..],"recs":[n..]}` → the synchronous twin (producers one after the other)
* `c12.caller` : `{"reqs":[{"r":rec,"k":"set"|"meta"|"save"|"abort","key":n,"val":n}..],"recs":[n..]}` → one caller's requests:
  what it sees and what is stored when it records directly (`direct`) and through the wrapper (`forward`, then the buffered
  operations applied in order)

op   = `{"p":producer,"q":seq,"r":recording,"k":"set"|"meta"|"save","key":n,"val":n,"x":poisoned}`
step = `"p<i>"` (produce i) | `"check"` | `"lock"` | `"swap"` | `"exec"` | `"timer"` | `"close"`
-/
open Lean
namespace Drive.Async
open Drive PlaybackModel.Async

def toOp (j : Json) : Except String Op := do
  let k ← strField j "k"
  let kind ← match k with
    | "set" => do pure (Kind.setData (← natField j "key") (← natField j "val"))
    | "meta" => do pure (Kind.addMeta (← natField j "key") (← natField j "val"))
    | "save" => pure Kind.save
    | _ => throw s!"bad op kind {k}"
  let x := match optField j "x" with
    | some (.bool b) => b
    | _ => false
  pure { prod := (← natField j "p"), seq := (← natField j "q"), recId := (← natField j "r"), kind := kind, poison := x }

def toStep (j : Json) : Except String Step := do
  let s ← asStr j
  match s with
  | "check" => pure .check
  | "lock" => pure .lock
  | "swap" => pure .swap
  | "exec" => pure .exec
  | "timer" => pure .timer
  | "close" => pure .close
  | _ =>
    if s.startsWith "p" then
      match (s.drop 1).toNat? with
      | some i => pure (.produce i)
      | none => throw s!"bad step {s}"
    else throw s!"bad step {s}"

def toCfg (j : Json) : Cfg :=
  let flag (k : String) : Bool := match optField j k with
    | some (.bool b) => b
    | _ => true
  { finalFlush := flag "finalFlush", continueAfterFailure := flag "continueAfterFailure",
    releaseBeforeExec := flag "releaseBeforeExec" }

def opId (o : Op) : Json := jArr [jNat o.prod, jNat o.seq]

def kvs (l : List (Nat × Nat)) : Json := jArr (l.map fun (k, v) => jArr [jNat k, jNat v])

def recJson (r : RecSt) : Json :=
  jObj [("data", kvs r.data), ("meta", kvs r.md), ("closed", Json.bool r.closed),
        ("saved", match r.saved with
                  | none => Json.null
                  | some (d, m) => jArr [kvs d, kvs m])]

def storeJson (w : Store) (recs : List Nat) : Json := jArr (recs.map fun n => jArr [jNat n, recJson (w n)])

def flJson : Fl → Json
  | .atTop => Json.str "atTop"
  | .ready f => Json.str (if f then "finalReady" else "ready")
  | .locked f => Json.str (if f then "finalLocked" else "locked")
  | .batch f _ => Json.str (if f then "finalSwapped" else "swapped")
  | .waiting => Json.str "waiting"
  | .stopped => Json.str "stopped"

def traceJson (l : List (Op × Bool)) : Json := jArr (l.map fun (o, ok) => jArr [jNat o.prod, jNat o.seq, Json.bool ok])

def programs (j : Json) : Except String (List (List Op)) := do
  mapM' (fun p => do mapM' toOp (← asArr p)) (← arrField j "programs")

def recsOf (j : Json) : Except String (List Nat) := do
  match optField j "recs" with
  | some r => mapM' asNat (← asArr r)
  | none => pure []

def runH : Handler := fun j => do
  let ps ← programs j
  let sched ← mapM' toStep (← arrField j "sched")
  let cfg := match optField j "cfg" with
    | some c => toCfg c
    | none => Cfg.code
  let s := run cfg applyOp (init Store.empty ps) sched
  pure (jObj [("applied", traceJson s.applied), ("fl", flJson s.fl), ("batch", jArr ((batchRest s.fl).map opId)),
              ("buf", jArr (s.buf.map opId)), ("pending", jArr (s.pending.map fun p => jNat p.length)),
              ("appended", jArr (s.appended.map opId)), ("beforeClose", jArr (s.beforeClose.map opId)),
              ("stop", Json.bool s.stop), ("lock", Json.bool s.lock), ("store", storeJson s.store (← recsOf j))])

def syncH : Handler := fun j => do
  let ps ← programs j
  let r := syncRun applyOp Store.empty ps.flatten
  pure (jObj [("applied", traceJson r.2), ("store", storeJson r.1 (← recsOf j))])

open PlaybackModel.AsyncCaller in
def toReq (j : Json) : Except String Req := do
  let k ← strField j "k"
  let kind ← match k with
    | "set" => do pure (RKind.setData (← natField j "key") (← natField j "val"))
    | "meta" => do pure (RKind.addMeta (← natField j "key") (← natField j "val"))
    | "save" => pure RKind.save
    | "abort" => pure RKind.abort
    | _ => throw s!"bad request kind {k}"
  pure { recId := (← natField j "r"), kind := kind }

open PlaybackModel.AsyncCaller in
def callerH : Handler := fun j => do
  let reqs ← mapM' toReq (← arrField j "reqs")
  let recs ← recsOf j
  let d := direct Store.empty reqs
  let f := forward 0 0 (fun _ => false) reqs
  let w := (syncRun applyOp Store.empty f.1).1
  let viewJson (st : Store) : Json := jArr (recs.map fun n =>
    jArr [jNat n, match (st n).saved with
                  | none => Json.null
                  | some (dd, m) => jArr [kvs dd, kvs m]])
  pure (jObj [("directSeen", jArr (d.2.map Json.bool)), ("asyncSeen", jArr (f.2.map Json.bool)),
              ("directStored", viewJson d.1), ("asyncStored", viewJson w)])

def handlers : List (String × Handler) := [("c12.run", runH), ("c12.sync", syncH), ("c12.caller", callerH)]

end Drive.Async
