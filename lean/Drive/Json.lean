import Lean.Data.Json
/-! Small helpers shared by the line-protocol handlers.  One JSON object per input line, one per output line. -/
open Lean
namespace Drive

abbrev Handler := Json → Except String Json

def field (j : Json) (k : String) : Except String Json :=
  match j.getObjVal? k with
  | .ok v => .ok v
  | .error _ => .error s!"missing field {k}"

def fieldD (j : Json) (k : String) (d : Json) : Json :=
  match j.getObjVal? k with
  | .ok v => v
  | .error _ => d

def asStr : Json → Except String String
  | .str s => .ok s
  | j => .error s!"expected string, got {j.compress}"

def asArr : Json → Except String (List Json)
  | .arr a => .ok a.toList
  | j => .error s!"expected array, got {j.compress}"

def asBool : Json → Except String Bool
  | .bool b => .ok b
  | j => .error s!"expected bool, got {j.compress}"

/-- integers travel as JSON numbers or (for safety with huge values) as decimal strings -/
def asInt : Json → Except String Int
  | .num n => if n.exponent = 0 then .ok n.mantissa else .error s!"expected integer, got {n}"
  | .str s => match s.toInt? with
    | some i => .ok i
    | none => .error s!"expected integer string, got {s}"
  | j => .error s!"expected integer, got {j.compress}"

def asNat (j : Json) : Except String Nat := do
  let i ← asInt j
  if i < 0 then .error s!"expected natural, got {i}" else .ok i.toNat

def strField (j : Json) (k : String) : Except String String := do asStr (← field j k)
def intField (j : Json) (k : String) : Except String Int := do asInt (← field j k)
def natField (j : Json) (k : String) : Except String Nat := do asNat (← field j k)
def boolField (j : Json) (k : String) : Except String Bool := do asBool (← field j k)
def arrField (j : Json) (k : String) : Except String (List Json) := do asArr (← field j k)

def isNull : Json → Bool
  | .null => true
  | _ => false

def optField (j : Json) (k : String) : Option Json :=
  match j.getObjVal? k with
  | .ok .null => none
  | .ok v => some v
  | .error _ => none

def mapM' {α β} (f : α → Except String β) : List α → Except String (List β)
  | [] => .ok []
  | x :: xs => do
    let y ← f x
    let ys ← mapM' f xs
    .ok (y :: ys)

def jInt (i : Int) : Json := Json.num ⟨i, 0⟩
def jNat (n : Nat) : Json := Json.num ⟨n, 0⟩
def jArr (l : List Json) : Json := Json.arr l.toArray
def jObj (l : List (String × Json)) : Json := Json.mkObj l

end Drive
