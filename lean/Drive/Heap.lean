import Drive.Json
/-! Line-protocol handlers: Heap (stub until the model lands). -/
open Lean
namespace Drive.Heap
open Drive

def handlers : List (String × Handler) := []

end Drive.Heap
