import Drive.Json
import PlaybackModel.Heap
/-! Line-protocol handlers for the heap model (C11).

One request = one whole scenario: `{"m":"c11.run","copy":bool,"direct":bool,"steps":[…]}`.  The driver keeps the
model state and a table from script variables to addresses; every change of the state goes through
`PlaybackModel.Heap.runClient` (so the C11 theorems, which quantify over all operation lists, cover every scenario). -/
open Lean
namespace Drive.Heap
open Drive PlaybackModel.Heap

partial def toTree (j : Json) : Except String Tree :=
  match optField j "a" with
  | some a => do .ok (.atom (← asStr a))
  | none => do
    let k ← strField j "k"
    let ls ← mapM' asStr (← arrField j "l")
    let kids ← mapM' toTree (← arrField j "c")
    .ok (.node k ls kids)

partial def treeJson : Tree → Json
  | .atom s => jObj [("a", Json.str s)]
  | .node k ls kids => jObj [("k", Json.str k), ("l", jArr (ls.map Json.str)), ("c", jArr (kids.map treeJson))]

inductive PathElem where
  | idx (n : Nat)
  | key (s : String)

def toPath (j : Json) : Except String (List PathElem) := do
  mapM' (fun e =>
    match optField e "i", optField e "k" with
    | some i, _ => do .ok (.idx (← asNat i))
    | _, some k => do .ok (.key (← asStr k))
    | _, _ => .error s!"bad path element {e.compress}") (← asArr j)

def isSeq (kind : String) : Bool := kind == "list" || kind == "tuple"
def isMap (kind : String) : Bool := kind == "dict" || kind.startsWith "obj:"

/-- follow a path of list indices / dict keys / attribute names from an address -/
def navigate (h : Heap) : Nat → List PathElem → Option Nat
  | a, [] => some a
  | a, .idx n :: r =>
    match h[a]? with
    | some (.node k _ kids) => if isSeq k then (kids[n]?).bind (fun b => navigate h b r) else none
    | _ => none
  | a, .key s :: r =>
    match h[a]? with
    | some (.node k ls kids) =>
      if isMap k then (kids[ls.idxOf s]?).bind (fun b => if ls.contains s then navigate h b r else none) else none
    | _ => none

structure DSt where
  st : St
  vars : List (String × Nat)        -- script variable ↦ address
  recs : List (String × Nat)        -- script recording name ↦ index in st.recs
  out : List Json                   -- observations, most recent first

def DSt.run (d : DSt) (cfg : Cfg) (ops : List ClientOp) : DSt := { d with st := runClient cfg d.st ops }
def DSt.emit (d : DSt) (j : Json) : DSt := { d with out := j :: d.out }
def DSt.bind (d : DSt) (v : String) (a : Nat) : DSt := { d with vars := (v, a) :: d.vars }

def lastHanded (st : St) : Option Nat := st.handed.getLast?

/-- an operand of an edit: a new value, or an object the client already holds -/
def operand (cfg : Cfg) (d : DSt) (x : Json) : Except String (DSt × Option Nat) :=
  match optField x "tree" with
  | some t => do
    let d' := d.run cfg [.new (← toTree t)]
    .ok (d', lastHanded d'.st)
  | none => do
    let v ← strField x "var"
    let p ← toPath (fieldD x "path" (jArr []))
    .ok (d, (d.vars.lookup v).bind (fun a => navigate d.st.heap a p))

def removeAt {α : Type} (l : List α) (i : Nat) : List α := l.take i ++ l.drop (i + 1)

/-- the cell after an edit, `none` when the edit does not apply to this kind of object -/
def editCell (h : Heap) (c : Cell) (e : String) (key : Option PathElem) (x : Option Nat) : Option Cell :=
  match c with
  | .atom _ => none
  | .node k ls kids =>
    match e, key, x with
    | "append", _, some a => if k == "list" then some (.node k ls (kids ++ [a])) else none
    | "pop", _, _ => if k == "list" && !kids.isEmpty then some (.node k ls kids.dropLast) else none
    | "clear", _, _ => if k == "list" || k == "dict" || k == "set" then some (.node k [] []) else none
    | "setitem", some (.idx n), some a => if k == "list" && n < kids.length then some (.node k ls (kids.set n a)) else none
    | "setitem", some (.key s), some a =>
      if k == "dict" then
        if ls.contains s then some (.node k ls (kids.set (ls.idxOf s) a)) else some (.node k (ls ++ [s]) (kids ++ [a]))
      else none
    | "setattr", some (.key s), some a =>
      if k.startsWith "obj:" then
        if ls.contains s then some (.node k ls (kids.set (ls.idxOf s) a)) else some (.node k (ls ++ [s]) (kids ++ [a]))
      else none
    | "delitem", some (.key s), _ =>
      if k == "dict" && ls.contains s then some (.node k (removeAt ls (ls.idxOf s)) (removeAt kids (ls.idxOf s))) else none
    | "add", _, some a =>
      if k == "set" then
        if kids.any (fun b => decide (readD h b = readD h a)) then some (.node k ls kids) else some (.node k ls (kids ++ [a]))
      else none
    | _, _, _ => none

def obsJson (d : DSt) (a : Option Nat) : Json :=
  match a with
  | some a => treeJson (readD d.st.heap a)
  | none => Json.str "<none>"

def step (cfg : Cfg) (d : DSt) (j : Json) : Except String DSt := do
  let op ← strField j "op"
  -- a variable is unbound when the read that should have bound it handed nothing out: such steps are no-ops
  let var := fun (k : String) => do
    let v ← strField j k
    pure (d.vars.lookup v)
  let rec' := do
    let r ← strField j "rec"
    match d.recs.lookup r with
    | some i => pure i
    | none => throw s!"unbound recording {r}"
  match op with
  | "new" =>
    let d' := d.run cfg [.new (← toTree (← field j "tree"))]
    match lastHanded d'.st with
    | some a => .ok (d'.bind (← strField j "var") a)
    | none => .error "new: nothing handed"
  | "recordIn" =>
    match ← var "var" with
    | some a => .ok (d.run cfg [.recordIn (← strField j "key") a])
    | none => .error "recordIn: unbound variable"
  | "recordRaw" =>
    match ← var "var" with
    | some a => .ok (d.run cfg [.recordRaw (← strField j "key") a])
    | none => .error "recordRaw: unbound variable"
  | "recordOut" =>
    let args ← mapM' (fun v => do
      match d.vars.lookup (← asStr v) with
      | some a => pure a
      | none => throw "unbound arg") (← arrField j "args")
    let kwl ← mapM' asStr (← arrField j "kwl")
    let kwv ← mapM' (fun v => do
      match d.vars.lookup (← asStr v) with
      | some a => pure a
      | none => throw "unbound kwarg") (← arrField j "kwv")
    .ok (d.run cfg [.recordOut (← strField j "key") args kwl kwv])
  | "save" => .ok (d.run cfg [.save (← toTree (← field j "md"))])
  | "fetch" =>
    let n := d.st.recs.length
    let d' := d.run cfg [.fetch (← natField j "id")]
    if d'.st.recs.length == n then .ok (d'.emit (Json.str "NoSuchRecording"))
    else .ok { d' with recs := ((← strField j "rec"), n) :: d'.recs }
  | "get" =>
    let r ← rec'
    let n := d.st.handed.length
    let d' := d.run cfg [.getData r (← strField j "key")]
    if d'.st.handed.length == n then .ok (d'.emit (Json.str "RecordingKeyError"))
    else
      let sub ← toPath (fieldD j "sub" (jArr []))
      let vname ← strField j "var"
      let a := (lastHanded d'.st).bind (fun a => navigate d'.st.heap a sub)
      let d'' := match a with
        | some a => d'.bind vname a
        | none => d'
      .ok (d''.emit (obsJson d'' a))
  | "meta" =>
    let r ← rec'
    let d' := d.run cfg [.getMeta r]
    let sub ← toPath (fieldD j "sub" (jArr []))
    let vname ← strField j "var"
    let a := (lastHanded d'.st).bind (fun a => navigate d'.st.heap a sub)
    let d'' := match a with
      | some a => d'.bind vname a
      | none => d'
    .ok (d''.emit (obsJson d'' a))
  | "set" =>
    match ← var "var" with
    | some a => .ok (d.run cfg [.setData (← rec') (← strField j "key") a])
    | none => .ok d
  | "obs" => .ok (d.emit (obsJson d (← var "var")))
  | "mut" =>
    let base? ← var "var"
    let p ← toPath (fieldD j "path" (jArr []))
    let e ← field j "edit"
    let ename ← strField e "e"
    let key ← match optField e "key" with
      | some k => do
        match ← toPath (jArr [k]) with
        | [pe] => pure (some pe)
        | _ => pure none
      | none => pure none
    match base?.bind (fun base => navigate d.st.heap base p) with
    | none => .ok (d.emit (Json.bool false))
    | some a =>
      let (d1, x) ← match optField e "x" with
        | some xj => operand cfg d xj
        | none => pure (d, none)
      match d1.st.heap[a]? with
      | none => .ok (d1.emit (Json.bool false))
      | some c =>
        match editCell d1.st.heap c ename key x with
        | none => .ok (d1.emit (Json.bool false))
        | some c' => .ok ((d1.run cfg [.mutate a c']).emit (Json.bool true))
  | _ => .error s!"unknown step {op}"

/-- {"m":"c11.run","copy":bool,"direct":bool,"steps":[…]} → the list of observations -/
def runH : Handler := fun j => do
  let cfg : Cfg := { copyOnIntercept := ← boolField j "copy", direct := (← asBool (fieldD j "direct" (Json.bool false))) }
  let steps ← arrField j "steps"
  let d0 : DSt := { st := init [], vars := [], recs := [], out := [] }
  let d ← steps.foldlM (step cfg) d0
  .ok (jArr d.out.reverse)

def handlers : List (String × Handler) := [("c11.run", runH)]

end Drive.Heap
