import Drive.Json
/-! Line-protocol handlers: Files (stub until the model lands). -/
open Lean
namespace Drive.Files
open Drive

def handlers : List (String × Handler) := []

end Drive.Files
