import Drive.Json
import PlaybackModel.FileIntercept
/-! Line-protocol handlers for the file interception model (C20). -/
open Lean
namespace Drive.Files
open Drive PlaybackModel.FileIntercept

def hexVal (c : Char) : Option Nat :=
  if '0' ≤ c ∧ c ≤ '9' then some (c.toNat - 48)
  else if 'a' ≤ c ∧ c ≤ 'f' then some (c.toNat - 87)
  else none

/-- hex text → bytes (tail recursive: contents may be a few MB) -/
def unhexGo : List Char → List UInt8 → Except String (List UInt8)
  | [], acc => .ok acc.reverse
  | [_], _ => .error "odd hex length"
  | a :: b :: r, acc =>
    match hexVal a, hexVal b with
    | some x, some y => unhexGo r (UInt8.ofNat (x * 16 + y) :: acc)
    | _, _ => .error "bad hex digit"

def unhex (s : String) : Except String Bytes := unhexGo s.toList []

def hexDigit (n : Nat) : Char := if n < 10 then Char.ofNat (48 + n) else Char.ofNat (87 + n)

def hexGo : List UInt8 → List Char → List Char
  | [], acc => acc.reverse
  | b :: r, acc => hexGo r (hexDigit (b.toNat % 16) :: hexDigit (b.toNat / 16) :: acc)

def hex (bs : Bytes) : String := String.ofList (hexGo bs [])

/-- content: {"hex": "…"} | {"zeros": n} -/
def toContent (j : Json) : Except String Bytes :=
  match optField j "hex", optField j "zeros" with
  | some h, _ => do unhex (← asStr h)
  | _, some n => do .ok (List.replicate (← asNat n) 0)
  | _, _ => .error s!"bad content {j.compress}"

def toPVal (j : Json) : Except String PVal :=
  match j with
  | .null => .ok .none
  | .str "o" => .ok .other
  | _ => match optField j "s" with
    | some s => do .ok (.str (← asStr s))
    | none => .error s!"bad pval {j.compress}"

def pvalJson : PVal → Json
  | .none => Json.null
  | .other => Json.str "o"
  | .str s => jObj [("s", Json.str s)]

def toKwargs (j : Json) : Except String (List (String × PVal)) := do
  mapM' (fun kv => do
    match ← asArr kv with
    | [k, v] => .ok ((← asStr k), (← toPVal v))
    | _ => .error "bad kwarg") (← asArr j)

structure Call where
  args : List PVal
  kwargs : List (String × PVal)

def toCall (j : Json) : Except String Call := do
  .ok { args := ← mapM' toPVal (← arrField j "args"), kwargs := ← toKwargs (← field j "kwargs") }

def toFiles (j : Json) : Except String (List (String × Bytes)) := do
  mapM' (fun kv => do
    match ← asArr kv with
    | [k, v] => .ok ((← asStr k), (← toContent v))
    | _ => .error "bad file") (← asArr j)

def toRatio (j : Json) : Except String (Int × Nat) := do
  match ← asArr j with
  | [a, b] => .ok ((← asInt a), (← asNat b))
  | _ => .error "bad ratio"

def toLimit (j : Json) : Except String Limit := do
  let explicit ← match optField j "explicit" with
    | some r => do let (n, d) ← toRatio r; pure (some ({ num := n, den := d } : Limit))
    | none => pure none
  let env ← match optField j "env" with
    | some r => do pure (some (← toRatio r))
    | none => pure none
  .ok (effectiveLimit explicit env)

abbrev FH := PlaybackModel.FileIntercept.Handler

def toHandler (j : Json) (lim : Limit) : Except String FH := do
  .ok { index := ← natField j "index", name := ← strField j "name", limit := lim }

def errName : Err → String
  | .indexError => "IndexError"
  | .typeError => "TypeError"
  | .osError => "OSError"

def envJson (e : Envelope) : List (String × Json) :=
  [("stored", Json.str (hex e.content)), ("path", pvalJson e.path)]

def holderJson (hd : Holder) : List (String × Json) :=
  [("holder", Json.str (hex hd.content)), ("holder_path", pvalJson hd.path)]

def readsJson (fs : FS) : Json := jArr (fs.reads.reverse.map Json.str)

/-- {"m":"c20.path","h":{index,name},"call":{args,kwargs}} → pval | "IndexError" -/
def pathH : Drive.Handler := fun j => do
  let h ← toHandler (← field j "h") ⟨0, 1⟩
  let c ← toCall (← field j "call")
  match filePath h c.args c.kwargs with
  | .ok v => .ok (jObj [("path", pvalJson v)])
  | .error e => .ok (jObj [("error", Json.str (errName e))])

/-- {"m":"c20.limit","limit":{explicit,env},"sizes":[n..]} → {"limit":[num,den],"above":[bool..]} -/
def limitH : Drive.Handler := fun j => do
  let lim ← toLimit (← field j "limit")
  let sizes ← mapM' asNat (← arrField j "sizes")
  .ok (jObj [("limit", jArr [Json.str (toString lim.num), Json.str (toString lim.den)]),
             ("above", jArr (sizes.map fun s => Json.bool (aboveLimit s lim)))])

/-- {"m":"c20.b64","hex":…} → {"b64":hex,"back":hex} -/
def b64H : Drive.Handler := fun j => do
  let bs ← unhex (← strField j "hex")
  .ok (jObj [("b64", Json.str (hex (b64 bs))), ("back", Json.str (hex (unb64 (b64 bs))))])

/-- the full trip: record (input then output), cassette, replay in an empty file system.
The operation modelled is the harness operation: call the input function (its body writes `inContent` at `recInPath`), read
the file back (harness I/O, not logged), write the output file (`out` content, or an echo of what was read) at
`recOutPath`, call the output function. -/
def tripH : Drive.Handler := fun j => do
  let lim ← toLimit (← field j "limit")
  let inH ← toHandler (← field j "inH") lim
  let outH ← toHandler (← field j "outH") lim
  let recIn ← toCall (← field j "recIn")
  let repIn ← toCall (← field j "repIn")
  let recOut ← toCall (← field j "recOut")
  let repOut ← toCall (← field j "repOut")
  let repInPath ← strField j "repInPath"
  let recOutPath ← strField j "recOutPath"
  let repOutPath ← strField j "repOutPath"
  let recFiles ← toFiles (← field j "recFiles")
  let repFiles ← toFiles (← field j "repFiles")
  let recInPath ← strField j "recInPath"
  let repDecoy ← strField j "repDecoy"
  let echo := match fieldD j "out" Json.null with
    | .str "echo" => true
    | _ => false
  let outGiven ← if echo then pure [] else toContent (← field j "out")
  -- record
  let fs1 : FS := { files := recFiles, reads := [] }
  let inContent := (fs1.get recInPath).getD []
  let (fsA, r1) := prepare fs1 inH recIn.args recIn.kwargs
  let outRec := if echo then inContent else outGiven
  let fsB := fsA.write recOutPath outRec
  let (fsC, r2) := prepare fsB outH recOut.args recOut.kwargs
  match r1, r2 with
  -- a failing prepare discards the recording: later calls are no longer intercepted (no output prepare, no read)
  | .error e, _ => .ok (jObj [("discarded", Json.str (errName e)), ("rec_reads", readsJson fsA)])
  | _, .error e => .ok (jObj [("discarded", Json.str (errName e)), ("rec_reads", readsJson fsC)])
  | .ok envIn, .ok envOut =>
    -- replay in a fresh directory
    let fs0 : FS := { files := repFiles, reads := [] }
    let (fsD, r3) := restoreInput fs0 inH (cassetteRT envIn) repIn.args repIn.kwargs
    let restored := fsD.get repInPath
    let restoredJson : Json := match restored with
      | some bs => Json.str (hex bs)
      | none => Json.null
    let retJson : Json := match r3 with
      | .ok p => jObj [("s", Json.str p)]
      | .error e => Json.str (errName e)
    let outRep := if echo then restored.getD [] else outGiven
    let fsE := fsD.write repOutPath outRep
    let (fsF, r4) := prepare fsE outH repOut.args repOut.kwargs
    let pb : Json := match r4 with
      | .ok envPb => jObj (envJson envPb ++ holderJson (restoreOutput envPb))
      | .error e => Json.str (errName e)
    .ok (jObj [("in", jObj (envJson envIn)), ("rec_reads", readsJson fsC),
               ("out", jObj (envJson envOut ++ holderJson (restoreOutput (cassetteRT envOut)))),
               ("restored_ret", retJson), ("restored_bytes", restoredJson),
               ("rep_decoy", match fsD.get repDecoy with
                  | some bs => Json.str (hex bs)
                  | none => Json.null),
               ("rep_reads", readsJson fsF), ("pb", pb)])

def handlers : List (String × Drive.Handler) :=
  [("c20.path", pathH), ("c20.limit", limitH), ("c20.b64", b64H), ("c20.trip", tripH)]

end Drive.Files
