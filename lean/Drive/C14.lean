import Drive.Json
import PlaybackModel.MetaFilter
/-! Line-protocol handlers for the metadata matcher model (C14, reused by C10). -/
open Lean
namespace Drive.C14
open Drive PlaybackModel.MetaFilter

/-- wire form of `MVal`: null | true/false | {"n":[int,exp]} | {"s":str} | {"l":[..]} | {"t":[..]} | {"d":[[k,v]..]} | {"c":name} -/
partial def toMVal (j : Json) : Except String MVal :=
  match j with
  | .null => .ok .none
  | .bool b => .ok (.bool b)
  | _ =>
    match optField j "n", optField j "s", optField j "l", optField j "t", optField j "d", optField j "c" with
    | some n, _, _, _, _, _ => do
      match ← asArr n with
      | [a, b] => .ok (.num (← asInt a) (← asNat b))
      | _ => .error "bad num"
    | _, some s, _, _, _, _ => do .ok (.str (← asStr s))
    | _, _, some l, _, _, _ => do .ok (.list (← mapM' toMVal (← asArr l)))
    | _, _, _, some t, _, _ => do .ok (.tuple (← mapM' toMVal (← asArr t)))
    | _, _, _, _, some d, _ => do .ok (.dict (← toFields d))
    | _, _, _, _, _, some c => do .ok (.cls (← asStr c))
    | _, _, _, _, _, _ => .error s!"bad MVal {j.compress}"
where
  toFields (d : Json) : Except String (List (String × MVal)) := do
    mapM' (fun kv => do
      match ← asArr kv with
      | [k, v] => .ok ((← asStr k), (← toMVal v))
      | _ => .error "bad field") (← asArr d)

def resJson : Except Err Bool → Json
  | .ok b => Json.bool b
  | .error .typeError => Json.str "TypeError"

/-- {"m":"c14.match","f":[[k,v]..],"md":[[k,v]..]} → true | false | "TypeError" -/
def matchH : Handler := fun j => do
  let f ← toMVal.toFields (← field j "f")
  let md ← toMVal.toFields (← field j "md")
  .ok (resJson (matchMeta fnmatch f md))

/-- {"m":"c14.value","f":v,"r":v} -/
def valueH : Handler := fun j => do
  let f ← toMVal (← field j "f")
  let r ← toMVal (← field j "r")
  .ok (resJson (matchValue fnmatch f r))

/-- {"m":"c14.glob","p":pat,"s":str} -/
def globH : Handler := fun j => do
  .ok (Json.bool (fnmatch (← strField j "p") (← strField j "s")))

def handlers : List (String × Handler) :=
  [("c14.match", matchH), ("c14.value", valueH), ("c14.glob", globH)]

end Drive.C14
