import Drive.Json
/-! Line-protocol handlers: Recorder (stub until the model lands). -/
open Lean
namespace Drive.Recorder
open Drive

def handlers : List (String × Handler) := []

end Drive.Recorder
