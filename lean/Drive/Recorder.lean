import Drive.Json
import PlaybackModel.Recorder
/-!
Line-protocol handler for the recorder model: a *history* of runs (operations and replays) on one recorder.
First-order scripts (what the harness generates) are embedded into `Prog` by `toProg`; values are canonical texts.
-/
open Lean
namespace Drive.Recorder
open Drive PlaybackModel.Recorder

/-! ### value texts -/
/-- the exception type the harness uses for "an exception the serializer rejects" -/
def unserExc : String := "UnserError"

/-- `_serializable_exception_form`: the exception itself when `encode` accepts it, else `{'error_type', 'error_repr'}` -/
def valText : Val → String
  | .atom s => s
  | .excForm t => if t == unserExc then "{\"error_repr\":\"UnserError()\",\"error_type\":cls:UnserError}" else "exc:" ++ t

/-- does `jsonpickle.encode` raise on this stored entry?  (the harness's unserialisable value carries the text `<unser>`,
wherever it is embedded; an exception of type `UnserError` stored as such) -/
def textUnser (s : String) : Bool := (s.splitOn "<unser>").length > 1 || (s.splitOn "exc:UnserError").length > 1
def valUnser : Val → Bool
  | .atom s => textUnser s
  | .excForm _ => false
def rvalUnser : RVal → Bool
  | .value v => valUnser v
  | .exception t => t == unserExc
  | .sent args kwargs => args.any valUnser || kwargs.any (fun kv => valUnser kv.2)
  | .prepared v => valUnser v
  | .raw v => valUnser v
def dataUnser (d : Data) : Bool := d.any (fun kv => rvalUnser kv.2)

def outText : Out → String
  | .ret v => valText v
  | .exc t => "exc:" ++ t

def tupleText (l : List String) : String := "(" ++ String.intercalate "," l ++ ")"
def wrapText (t : String) : String := "{\"W\":" ++ t ++ "}"
def unwrapText (t : String) : String := ((t.drop 5).dropEnd 1).toString

/-! ### site tables -/
inductive CaptureSel where
  | all | none
  | sel (l : List (Option Nat × String))

inductive Resolver where
  | none | fails
  | arg (i : Nat)

inductive Subst where
  | none
  | const (v : String)
  | echo            -- callable returning the tuple of positional arguments
  | raises (t : String)

structure SiteSpec where
  name : String
  isOut : Bool
  alias : String
  capture : CaptureSel
  resolver : Resolver
  fallbacks : Option (List String)          -- `none`: the fallback function raises
  handler : String                          -- "", "wrap", "fail"
  runOriginal : Bool
  substitute : Subst
  failOnMissing : Bool
  default : String
  body : Json                               -- script

def lookupKw (k : String) : List (String × Val) → Option Val
  | [] => Option.none
  | (k', v) :: r => if k' = k then some v else lookupKw k r

def insertSorted (kv : String × Val) : List (String × Val) → List (String × Val)
  | [] => [kv]
  | x :: r => if kv.1 < x.1 then kv :: x :: r else x :: insertSorted kv r

def sortKw (l : List (String × Val)) : List (String × Val) := l.foldl (fun acc kv => insertSorted kv acc) []

/-- capture selection of `_input_interception_key` (positions index the arguments without `self`) -/
def captured (c : CaptureSel) (a : Args) : Option (List Val × List (String × Val)) :=
  match c with
  | .all => some (a.pos, sortKw a.kw)
  | .none => some ([], [])
  | .sel l =>
    let rec go : List (Option Nat × String) → List Val → List (String × Val) → Option (List Val × List (String × Val))
      | [], ps, ks => some (ps.reverse, sortKw ks)
      | (pos, name) :: rest, ps, ks =>
        match lookupKw name a.kw with
        | some v => go rest ps ((name, v) :: ks.filter (fun kv => kv.1 != name))
        | Option.none =>
          match pos with
          | Option.none => go rest ps ks
          | some i => match a.pos[i]? with
            | some v => go rest (v :: ps) ks
            | Option.none => Option.none          -- IndexError
    go l [] []

def siteKeys (sp : SiteSpec) (a : Args) : Option (Key × List Key) :=
  let alias? : Option String := match sp.resolver with
    | .none => some sp.alias
    | .fails => Option.none
    | .arg i => (a.pos[i]?).map (fun v => sp.alias ++ "{" ++ valText v ++ "}")
  let tup := match sp.capture with
    | .all => true
    | _ => false
  match alias?, captured sp.capture a, sp.fallbacks with
  | some al, some (ps, ks), some fb =>
    -- the captured arguments are encoded into the key text: a value the serializer rejects makes key creation raise
    if ps.any valUnser || ks.any (fun kv => valUnser kv.2) then Option.none
    else some (Key.input al tup ps ks, fb.map (fun f => Key.input f tup ps ks))
  | _, _, _ => Option.none

def inCfgOf (sp : SiteSpec) : InCfg :=
  { name := sp.name
    keys := siteKeys sp
    prepare := if sp.handler == "wrap" then some (fun _ v => some (.atom (wrapText (valText v))))
               else if sp.handler == "fail" then some (fun _ _ => Option.none) else Option.none
    restore := if sp.handler == "wrap" then (fun _ v =>
        let t := valText v
        if t.startsWith "{\"W\":" then .ret (.atom (unwrapText t))
        else if t.startsWith "{" then .exc "KeyError" else .exc "TypeError")
      else (fun _ v => .ret v)
    runOriginal := sp.runOriginal
    substitute := match sp.substitute with
      | .none => Option.none
      | .const v => some (fun _ => .ret (.atom v))
      | .echo => some (fun a => .ret (.atom (tupleText (a.pos.map valText))))
      | .raises t => some (fun _ => .exc t) }

def outCfgOf (sp : SiteSpec) : OutCfg :=
  { name := sp.name
    alias := sp.alias
    prepare := if sp.handler == "wrap" then some (fun a => some (.atom (wrapText (tupleText (a.pos.map valText)))))
               else if sp.handler == "fail" then some (fun _ => Option.none) else Option.none
    failOnMissing := sp.failOnMissing
    default := .atom sp.default }

instance : Inhabited Prog := ⟨.done (.out (.ret (.atom "")))⟩

/-! ### scripts -/
abbrev Env := List (String × Out)

def envGet (env : Env) (x : String) : Out :=
  match env with
  | [] => .ret (.atom "\"<unbound>\"")
  | (y, o) :: r => if x = y then o else envGet r x

/-- expressions: {"c": text} | {"v": var} | {"t": [expr..]} -/
partial def evalExpr (env : Env) (j : Json) : String :=
  match optField j "c", optField j "v", optField j "t" with
  | some (.str s), _, _ => s
  | _, some (.str x), _ => outText (envGet env x)
  | _, _, some (.arr a) => tupleText (a.toList.map (evalExpr env))
  | _, _, _ => "<bad-expr>"

def parseArgs (env : Env) (j : Json) : Args :=
  let pos := match optField j "args" with
    | some (.arr a) => a.toList.map (fun e => Val.atom (evalExpr env e))
    | _ => []
  let kw := match optField j "kw" with
    | some (.arr a) => a.toList.filterMap (fun kv => match kv with
        | .arr #[.str k, e] => some (k, Val.atom (evalExpr env e))
        | _ => Option.none)
    | _ => []
  { pos := pos, kw := kw }

def bindArgs (a : Args) : Env :=
  (a.pos.zipIdx.map (fun (v, i) => ("a" ++ toString i, Out.ret v))) ++ a.kw.map (fun (k, v) => ("kw:" ++ k, Out.ret v))

def isExc : Out → Bool
  | .exc _ => true
  | .ret _ => false

/-- script (JSON array of statements) -> interaction tree.  Site bodies are scripts looked up by name; `fuel` bounds
the nesting of bodies. -/
partial def toProg (sites : List (String × SiteSpec)) (fuel : Nat) (env : Env) (stmts : List Json) : Prog :=
  match stmts with
  | [] => .done (.out (.ret (.atom "None")))
  | st :: rest =>
    match optField st "op" with
    | some (.str "ret") => .done (.out (.ret (.atom (evalExpr env (fieldD st "e" Json.null)))))
    | some (.str "raise") => .done (.out (.exc ((asStr (fieldD st "t" Json.null)).toOption.getD "Exception")))
    | some (.str "interrupt") => .done (.interrupt ((asStr (fieldD st "t" Json.null)).toOption.getD "KeyboardInterrupt"))
    | some (.str "reraise") =>
      (match envGet env ((asStr (fieldD st "x" Json.null)).toOption.getD "") with
       | .exc t => .done (.out (.exc t))
       | .ret _ => toProg sites fuel env rest)
    | some (.str "let") =>
      -- the program binds a value to a name (values are texts here: aliasing between two uses is invisible to the model)
      let x := (asStr (fieldD st "x" Json.null)).toOption.getD "_"
      toProg sites fuel ((x, .ret (.atom (evalExpr env (fieldD st "e" Json.null)))) :: env) rest
    | some (.str "discard") => .discard (toProg sites fuel env rest)
    | some (.str "force") => .force (toProg sites fuel env rest)
    | some (.str "enable") => .setEnabled true (toProg sites fuel env rest)
    | some (.str "disable") => .setEnabled false (toProg sites fuel env rest)
    | some (.str "rec") =>
      .recordData ((asStr (fieldD st "k" Json.null)).toOption.getD "") (.atom (evalExpr env (fieldD st "e" Json.null)))
        (toProg sites fuel env rest)
    | some (.str "play") =>
      let x := (asStr (fieldD st "x" Json.null)).toOption.getD "_"
      .playData ((asStr (fieldD st "k" Json.null)).toOption.getD "") (fun o => toProg sites fuel ((x, o) :: env) rest)
    | some (.str "ifexc") =>
      let x := (asStr (fieldD st "x" Json.null)).toOption.getD ""
      let br := if isExc (envGet env x) then fieldD st "then" (Json.arr #[]) else fieldD st "else" (Json.arr #[])
      toProg sites fuel env ((asArr br).toOption.getD [] ++ rest)
    | some (.str "ifeq") =>
      let x := (asStr (fieldD st "x" Json.null)).toOption.getD ""
      let c := evalExpr env (fieldD st "e" Json.null)
      let br := if outText (envGet env x) == c then fieldD st "then" (Json.arr #[]) else fieldD st "else" (Json.arr #[])
      toProg sites fuel env ((asArr br).toOption.getD [] ++ rest)
    | some (.str "call") =>
      let sname := (asStr (fieldD st "s" Json.null)).toOption.getD ""
      let x := (asStr (fieldD st "x" Json.null)).toOption.getD "_"
      let args := parseArgs env st
      match sites.lookup sname, fuel with
      | some sp, f + 1 =>
        let body := toProg sites f (bindArgs args) ((asArr sp.body).toOption.getD [])
        let k := fun o => toProg sites fuel ((x, o) :: env) rest
        if sp.isOut then .callOut (outCfgOf sp) args body k else .callIn (inCfgOf sp) args body k
      | _, _ => .done (.out (.exc "BadScript"))
    | _ => .done (.out (.exc "BadScript"))

/-! ### decoding -/
def parseCapture (j : Json) : Except String CaptureSel :=
  match j with
  | .str "all" => .ok .all
  | .str "none" => .ok .none
  | .arr a => do
    let l ← mapM' (fun e => match e with
      | .arr #[p, .str n] => (match p with
          | .null => .ok (Option.none, n)
          | _ => do .ok (some (← asNat p), n))
      | _ => .error "bad capture entry") a.toList
    .ok (.sel l)
  | _ => .error "bad capture"

def parseSite (name : String) (j : Json) : Except String SiteSpec := do
  let kind ← strField j "kind"
  let resolver ← match fieldD j "resolver" Json.null with
    | .null => .ok Resolver.none
    | .str "fails" => .ok Resolver.fails
    | r => do .ok (Resolver.arg (← natField r "arg"))
  let fallbacks ← match fieldD j "fallbacks" Json.null with
    | .null => .ok (some [])
    | .str "raises" => .ok Option.none
    | f => do .ok (some (← mapM' asStr (← asArr f)))
  let subst ← match fieldD j "substitute" Json.null with
    | .null => .ok Subst.none
    | .str "echo" => .ok Subst.echo
    | sj => match optField sj "const", optField sj "raises" with
      | some (.str c), _ => .ok (Subst.const c)
      | _, some (.str t) => .ok (Subst.raises t)
      | _, _ => .error "bad substitute"
  .ok { name := name, isOut := kind == "out", alias := ← strField j "alias",
        capture := ← parseCapture (fieldD j "capture" (.str "all")),
        resolver := resolver, fallbacks := fallbacks,
        handler := (asStr (fieldD j "handler" (.str ""))).toOption.getD "",
        runOriginal := (asBool (fieldD j "runOriginal" (.bool false))).toOption.getD false,
        substitute := subst,
        failOnMissing := (asBool (fieldD j "failOnMissing" (.bool true))).toOption.getD true,
        default := (asStr (fieldD j "default" (.str "None"))).toOption.getD "None",
        body := fieldD j "body" (Json.arr #[]) }

def parseQ (j : Json) : Except String Q := do
  match ← asArr j with
  | [a, b] => .ok ⟨← asInt a, ← asNat b⟩
  | _ => .error "bad rational"

def parseParams (j : Json) : Except String Params :=
  match j with
  | .null => .ok {}
  | _ => do
    .ok { rate := ← parseQ (← field j "rate"), ignoreForce := ← boolField j "ignore",
          skipped := ← boolField j "skipped", copy := ← boolField j "copy" }

/-! ### encoding -/
def jVal (v : Val) : Json := Json.str (valText v)
def jKw (l : List (String × Val)) : Json := jArr (l.map (fun (k, v) => jArr [Json.str k, jVal v]))

def jEnd : End → Json
  | .out (.ret v) => jArr [Json.str "ret", jVal v]
  | .out (.exc t) => jArr [Json.str "exc", Json.str t]
  | .interrupt k => jArr [Json.str "interrupt", Json.str k]

def jRVal : RVal → Json
  | .value v => jArr [Json.str "value", jVal v]
  | .exception t => jArr [Json.str "exception", Json.str t]
  | .sent a kw => jArr [Json.str "sent", jArr (a.map jVal), jKw kw]
  | .prepared v => jArr [Json.str "prepared", jVal v]
  | .raw v => jArr [Json.str "raw", jVal v]

def outKeyText (a : String) (n : Nat) : String := "output: " ++ a ++ " #" ++ toString n

/-- data as a canonical object: output / result / free keys by their text; input keys as the list of their values
(key TEXT is C06's layer); the harness sorts both sides -/
def jData (d : Data) : Json :=
  -- the assoc list is latest-first with shadowing: keep the first occurrence of each key
  let rec dedup (seen : List Key) : Data → Data
    | [] => []
    | (k, v) :: r => if seen.contains k then dedup seen r else (k, v) :: dedup (k :: seen) r
  let dd := dedup [] d
  let named := dd.filterMap (fun (k, v) => match k with
    | .outArgs a n => some (jArr [Json.str (outKeyText a n ++ ".output"), jRVal v])
    | .outRes a n => some (jArr [Json.str (outKeyText a n ++ ".result"), jRVal v])
    | .free t => some (jArr [Json.str t, jRVal v])
    | .input _ _ _ _ => Option.none)
  let inputs := dd.filterMap (fun (k, v) => match k with
    | .input _ _ _ _ => some (jRVal v)
    | _ => Option.none)
  jObj [("named", jArr named), ("inputs", jArr inputs)]

def jOutputs (d : Data) : Json :=
  jArr (d.filterMap (fun (k, v) => match k with
    | .outArgs a n => some (jArr [Json.str (outKeyText a n ++ ".output"), jRVal v])
    | _ => Option.none))

def jEv : Ev → Json
  | .create i => jArr [Json.str "create", jNat i]
  | .save i => jArr [Json.str "save", jNat i]
  | .abort i => jArr [Json.str "abort", jNat i]
  | .get i => jArr [Json.str "get", jNat i]

def jMeta (m : Meta) : Json :=
  jObj [("cls", Json.str m.cls),
        ("excFlag", match m.excFlag with | some b => Json.bool b | Option.none => Json.null),
        ("duration", jInt m.duration), ("incomplete", Json.bool m.incomplete), ("user", jKw m.user)]

def jJournal (j : List (String × Args)) : Json :=
  jArr (j.map (fun (n, a) => jArr [Json.str n, jArr (a.pos.map jVal), jKw (sortKw a.kw)]))

def jIdle (s : St) : Json :=
  jObj [("recording", Json.bool (inRecordingMode s)), ("playback", Json.bool (inPlaybackMode s)),
        ("forced", Json.bool s.forced), ("counter", jNat s.counter.length), ("inInt", Json.bool s.inInt),
        ("active", Json.bool s.active.isSome), ("pbOutputs", jNat s.playbackOutputs.length)]

/-- substring test used by the incomplete flag -/
def containsOp (a : String) : Bool := (a.splitOn opAlias).length > 1

def aliasOracle : AliasOracle := ⟨fun a => a == opAlias || containsOp a, by simp [opAlias]⟩

/-- {"m":"rec.hist","sites":{name:site..},"runs":[run..]} -> one transcript per run -/
def histH : Handler := fun j => do
  let sitesJ ← field j "sites"
  let sites ← match sitesJ with
    | .obj kvs => mapM' (fun (kv : String × Json) => do .ok (kv.1, ← parseSite kv.1 kv.2)) kvs.toList
    | _ => .error "sites must be an object"
  let runs ← arrField j "runs"
  let mut s : St := {}
  let mut out : List Json := []
  -- seeded histories: one stream of draws shared by all runs (the recorder's own generator)
  let mut stream : Option (List Q) := Option.none
  match optField j "stream" with
  | some sj => stream := some (← mapM' parseQ (← asArr sj))
  | Option.none => pure ()
  for r in runs do
    let kind ← strField r "run"
    let script ← arrField r "script"
    let prog := toProg sites 6 [] script
    let enabled ← boolField r "enabled"
    let draws ← match stream with
      | some st => pure st
      | Option.none => mapM' parseQ ((asArr (fieldD r "draws" (Json.arr #[]))).toOption.getD [])
    let clock ← mapM' asNat ((asArr (fieldD r "clock" (Json.arr #[]))).toOption.getD [])
    let s0 : St := { s with enabled := enabled, draws := draws, drawn := 0, clock := clock, log := [], journal := [] }
    let extractor ← match fieldD r "extractor" Json.null with
      | .null => .ok Option.none
      | .str "fails" => .ok (some Extracted.fails)
      | e => do
        let kvs ← mapM' (fun kv => do match ← asArr kv with
          | [k, v] => .ok ((← asStr k), Val.atom (← asStr v))
          | _ => .error "bad extractor field") (← asArr e)
        .ok (some (Extracted.ok kvs))
    let cfg : OpCfg := { cls := ← strField r "cls", params := ← parseParams (fieldD r "params" Json.null),
                         extractor := extractor, saveFails := (asBool (fieldD r "saveFails" (.bool false))).toOption.getD false,
                         unser := dataUnser }
    let twin := runPlain [] prog
    if kind == "foreign" then
      -- a recording that was not made by the recorder: saved straight through the cassette API, with or without the
      -- duration metadata `play()` reads, with or without an operation output
      let id := s0.nextId
      let data : Data := match fieldD r "output" Json.null with
        | .str v => [(Key.outArgs opAlias 1, RVal.sent [Val.atom v] [])]
        | _ => []
      let dur := (asBool (fieldD r "duration" (.bool true))).toOption.getD true
      let recd : Recording := { id := id, data := data,
                                md := { cls := cfg.cls, excFlag := Option.none, duration := 3, incomplete := false, user := [],
                                        hasDuration := dur } }
      let s1 := { s0 with nextId := id + 1, store := recd :: s0.store, log := [.create id, .save id] }
      out := out ++ [jObj [("foreign", jArr (s1.log.map jEv)), ("idle", jIdle s1)]]
      s := s1
    else if kind == "op" then
      let (s1, e) := runOperation aliasOracle cfg s0 prog
      let saved := match s1.log.findSome? (fun ev => match ev with | .save i => some i | _ => Option.none) with
        | some i => (match fetch s1.store i with
            | some rec => if s1.store.length > s0.store.length then jObj [("data", jData rec.data), ("meta", jMeta rec.md)] else Json.null
            | Option.none => Json.null)
        | Option.none => Json.null
      -- a write to the recording object of this run after the fact (`Recording.set_data` / `add_metadata`)
      let late := match s1.log.findSome? (fun ev => match ev with | .create i => some i | _ => Option.none) with
        | some i => (match lateWrite s1 i with
            | .ok _ => Json.str "accepted"
            | .error t => Json.str t)
        | Option.none => Json.null
      out := out ++ [jObj [("end", jEnd e), ("journal", jJournal s1.journal), ("log", jArr (s1.log.map jEv)),
                           ("saved", saved), ("late", late), ("idle", jIdle s1), ("drawn", jNat s1.drawn),
                           ("twinEnd", jEnd twin.2), ("twinJournal", jJournal twin.1)]]
      s := s1
      if stream.isSome then stream := some s1.draws
    else
      let id ← natField r "rec"
      let (s1, res) := runPlay aliasOracle cfg s0 id prog
      let resJ := match res with
        | .played po ro => jArr [Json.str "played", jOutputs po, jOutputs ro]
        | .raised t => jArr [Json.str "raised", Json.str t]
        | .interrupted k => jArr [Json.str "interrupted", Json.str k]
      out := out ++ [jObj [("result", resJ), ("journal", jJournal s1.journal), ("log", jArr (s1.log.map jEv)),
                           ("idle", jIdle s1), ("stored", jNat s1.store.length)]]
      s := s1
  .ok (jArr out)

/-- {"m":"c17.s3","ratio":[n,d]|null,"draw":[n,d]} -> stored? -/
def s3SampleH : Handler := fun j => do
  let ratio ← match fieldD j "ratio" Json.null with
    | .null => pure Option.none
    | r => do pure (some (← parseQ r))
  let d ← parseQ (← field j "draw")
  .ok (Json.bool (s3ShouldSample ratio d))

def handlers : List (String × Handler) := [("rec.hist", histH), ("c17.s3", s3SampleH)]

end Drive.Recorder
