import Drive.Json
/-! Line-protocol handlers: S3 (stub until the model lands). -/
open Lean
namespace Drive.S3
open Drive

def handlers : List (String × Handler) := []

end Drive.S3
