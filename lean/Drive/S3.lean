import Drive.Json
import Drive.C14
import PlaybackModel.S3
/-! Line-protocol handlers for the S3 cassette model: C15 (confinement, crash points) and C16 (time windows).

Times are minutes since 1970-01-01T00:00 (UTC).  `strftime('%Y%m%d')` is a parameter of the model; the request carries its
graph on the days it needs as `"daytab": [[dayNumber, "YYYYMMDD"], …]` (computed by Python's `strftime` in the harness). -/
open Lean
namespace Drive.S3
open Drive PlaybackModel.MetaFilter PlaybackModel.S3

def dayStrOf (tab : List (Nat × String)) (d : Nat) : String :=
  match tab.find? (fun e => e.1 == d) with
  | some e => e.2
  | none => s!"?{d}"

def toDayTab (j : Json) : Except String (List (Nat × String)) := do
  mapM' (fun e => do
    match ← asArr e with
    | [d, s] => .ok ((← asNat d), (← asStr s))
    | _ => .error "bad daytab entry") (← asArr j)

def optNat (j : Json) (k : String) : Except String (Option Nat) :=
  match optField j k with
  | none => .ok none
  | some v => do .ok (some (← asNat v))

def toMeta (j : Json) (k : String) : Except String Meta :=
  match optField j k with
  | none => .ok []
  | some v => Drive.C14.toMVal.toFields v

def toCfg (j : Json) : Except String Cfg := do
  .ok (mkCfg (← strField j "p") (← boolField j "ro") (← boolField j "tr"))

/-- the `random.choice` stream: the given draws, cycled -/
def chOf (draws : List Nat) (step : Nat) : Nat :=
  if draws.isEmpty then 0 else draws.getD (step % draws.length) 0

/-- the harness' deterministic stand-in for `random.shuffle`: rotate left by `k` -/
def rotate {α : Type} (k : Nat) (l : List α) : List α :=
  if l.isEmpty then l else l.drop (k % l.length) ++ l.take (k % l.length)

def toDraws (j : Json) : Except String (List Nat) :=
  match optField j "ch" with
  | none => .ok []
  | some v => do mapM' asNat (← asArr v)

def mutJson (m : Mutation) : Json :=
  jArr [Json.str (if m.isPut then "put" else "delete"), Json.str m.key]

def resJson : Res → Json
  | .done => Json.str "ok"
  | .assertionError => Json.str "AssertionError"
  | .noSuchRecording => Json.str "NoSuchRecording"
  | .crashed => Json.str "crashed"
  | .id s => jObj [("id", Json.str s)]
  | .found _ => Json.str "found"
  | .ids l => jObj [("ids", jArr (l.map Json.str))]
  | .raised _ => Json.str "TypeError"

def toOp (j : Json) : Except String PlaybackModel.S3.Op := do
  let kind ← strField j "op"
  let t := (optNat j "t").toOption.join.getD 0
  let req : Except String SaveReq := do
    .ok ⟨(← strField j "id"), "payload", (← toMeta j "md")⟩
  match kind with
  | "create" => .ok (.create (← strField j "cat") (← strField j "uid") t)
  | "save" => .ok (.save (← req) t)
  | "savecrash" => .ok (.saveCrash (← req) t (← natField j "k"))
  | "get" => .ok (.get (← strField j "id"))
  | "getmeta" => .ok (.getMeta (← strField j "id"))
  | "list" => .ok (.list (← strField j "cat"))
  | "close" => .ok .close
  | "exit" => .ok .exit
  | _ => .error s!"unknown op {kind}"

/-- {"m":"c15.run","daytab":[..],"foreign":[key..],"cfgs":[{"p","ro","tr"}..],"ops":[{"c":idx,"op":..,…}..]}
    → {"steps":[{"res":…,"log":[[kind,key]..],"keys":[all keys after the step],"visible":[[id,fetchable]..]}..]}
    (`visible`: what a fresh read-only cassette with the same key prefix can discover after the step) -/
def runH : Handler := fun j => do
  let tab ← toDayTab (fieldD j "daytab" (Json.arr #[]))
  let foreign ← mapM' asStr (← arrField j "foreign")
  let cfgs ← mapM' toCfg (← arrField j "cfgs")
  let b0 : Bucket := foreign.foldl (fun b k => putObj b k ⟨"foreign", [], 0⟩) []
  let mut st : St := ⟨b0, []⟩
  let mut out : List Json := []
  for oj in (← arrField j "ops") do
    let ci ← natField oj "c"
    let c ← match cfgs[ci]? with
      | some c => pure c
      | none => throw "bad cassette index"
    let op ← toOp oj
    let (st', res) := step fnmatch (dayStrOf tab) c st op
    let new := st'.log.drop st.log.length
    let reader : Cfg := ⟨c.kp, true, false⟩
    let visible := (listPrefix st'.bucket (metaRoot reader)).map (fun e =>
      jArr [Json.str (idOfKey reader e.1), Json.bool (fetchable reader st'.bucket (idOfKey reader e.1))])
    out := out ++ [jObj [("res", resJson res), ("log", jArr (new.map (fun e => mutJson e.2))),
                         ("keys", jArr (st'.bucket.map (fun e => Json.str e.1))), ("visible", jArr visible)]]
    st := st'
  .ok (jObj [("steps", jArr out)])

/-- {"m":"c15.visible","p":prefix,"keys":[..]} → for a fresh read-only cassette on a bucket with exactly these keys:
    the discoverable ids and whether each one is fetchable -/
def visibleH : Handler := fun j => do
  let c := mkCfg (← strField j "p") true false
  let keys ← mapM' asStr (← arrField j "keys")
  let b : Bucket := keys.foldl (fun b k => putObj b k ⟨"", [], 0⟩) []
  let ids := (listPrefix b (metaRoot c)).map (fun e => idOfKey c e.1)
  .ok (jArr (ids.map (fun id => jArr [Json.str id, Json.bool (fetchable c b id)])))

/-- the bucket after every recording of `recs` ([{"cat","uid","t","md"}..]) was created and saved at its own instant `t`
    through the model's cassette operations -/
def buildBucket (dayStr : Nat → String) (c : Cfg) (recs : List Json) : Except String Bucket := do
  let mut st : St := ⟨[], []⟩
  for rj in recs do
    let t ← natField rj "t"
    let (_, r) := step fnmatch dayStr c st (.create (← strField rj "cat") (← strField rj "uid") t)
    match r with
    | .id rid =>
      let (st', _) := step fnmatch dayStr c st (.save ⟨rid, "payload", (← toMeta rj "md")⟩ t)
      st := st'
    | _ => throw "create failed"
  .ok st.bucket

/-- one lookup {"cat","s","e","now","f","lim","random","ch","rot","unfixed"} on a bucket → {"ids":[..]} | "TypeError" -/
def oneWindow (dayStr : Nat → String) (c : Cfg) (b : Bucket) (j : Json) : Except String Json := do
  let unfixed := (optField j "unfixed").map (fun v => v == Json.bool true) |>.getD false
  let days := if unfixed then prefixDaysUnfixed else prefixDaysSrc
  let rot := (optNat j "rot").toOption.join.getD 0
  let draws ← toDraws j
  let random := (optField j "random").map (fun v => v == Json.bool true) |>.getD false
  match iterRecordingIds fnmatch dayStr days c b (← strField j "cat") (← optNat j "s") (← optNat j "e")
      (← natField j "now") (← toMeta j "f") (← optNat j "lim") random (chOf draws) (rotate rot) with
  | .ok ids => .ok (jObj [("ids", jArr (ids.map Json.str))])
  | .error _ => .ok (Json.str "TypeError")

/-- {"m":"c16.list","p":prefix,"daytab":[..],"recs":[{"cat","uid","t","md"}..], + the fields of one lookup}
    → {"ids":[..]} | "TypeError" -/
def listH : Handler := fun j => do
  let dayStr := dayStrOf (← toDayTab (fieldD j "daytab" (Json.arr #[])))
  let c := mkCfg (← strField j "p") false false
  let b ← buildBucket dayStr c (← arrField j "recs")
  oneWindow dayStr c b j

/-- {"m":"c16.multi","p":prefix,"daytab":[..],"recs":[..],"windows":[{lookup}..]} → [answer per lookup] -/
def multiH : Handler := fun j => do
  let dayStr := dayStrOf (← toDayTab (fieldD j "daytab" (Json.arr #[])))
  let c := mkCfg (← strField j "p") false false
  let b ← buildBucket dayStr c (← arrField j "recs")
  .ok (jArr (← mapM' (oneWindow dayStr c b) (← arrField j "windows")))

/-- {"m":"c16.days","s","e","unfixed"} → the enumerated day numbers -/
def daysH : Handler := fun j => do
  let unfixed := (optField j "unfixed").map (fun v => v == Json.bool true) |>.getD false
  let days := if unfixed then prefixDaysUnfixed else prefixDaysSrc
  .ok (jArr ((days (← natField j "s") (← natField j "e")).map jNat))

def handlers : List (String × Handler) :=
  [("c15.run", runH), ("c15.visible", visibleH), ("c16.list", listH), ("c16.multi", multiH), ("c16.days", daysH)]

end Drive.S3
