import Drive.Json
/-! Line-protocol handlers: Studio (stub until the model lands). -/
open Lean
namespace Drive.Studio
open Drive

def handlers : List (String × Handler) := []

end Drive.Studio
