import Drive.Json
import Drive.Equalizer
import PlaybackModel.Studio
/-! Line-protocol handlers for the Studio model (C19).

Request `{"m":"c19.play", "cats":[[id,cat]…], "stored":[[id,cat,incomplete|null,selected]…], "failing":[[cat,msg]…],
          "beh":[[cat,id,beh]…], "keep":b, "rate":n, "timeoutMs":n, "dedicated":b, "skipIncomplete":b, "limit":n|null,
          "categories":[cat…], "ids":[id…], "order":[cat…]|null}`
Answer  `{"result":[[cat, {"err":msg} | {"ok":[comparison…]}]…], "interleaved":[[cat,[comparison…]]…]|null, "clean":b}` -/
open Lean
namespace Drive.Studio
open Drive PlaybackModel.Equalizer PlaybackModel.Studio

def pairNat (j : Json) : Except String (Nat × Nat) := do
  match ← asArr j with
  | [a, b] => .ok ((← asNat a), (← asNat b))
  | _ => .error "bad pair"

def toRec (j : Json) : Except String Rec := do
  match ← asArr j with
  | [i, c, inc, sel] =>
    let incomplete ← match inc with
      | .null => pure none
      | v => do pure (some (← asBool v))
    .ok ⟨← asNat i, ← asNat c, incomplete, ← asBool sel⟩
  | _ => .error "bad stored recording"

def toFailing (j : Json) : Except String (Nat × String) := do
  match ← asArr j with
  | [c, m] => .ok ((← asNat c), (← asStr m))
  | _ => .error "bad failing entry"

def toBehEntry (j : Json) : Except String ((Nat × Nat) × Beh) := do
  match ← asArr j with
  | [c, i, b] => .ok (((← asNat c), (← asNat i)), (← Drive.Equalizer.toBeh b))
  | _ => .error "bad beh entry"

def lookupD {α β : Type} [BEq α] (l : List (α × β)) (k : α) (d : β) : β :=
  match l.lookup k with
  | some v => v
  | none => d

def mkStudio (j : Json) : Except String Studio := do
  let cats ← mapM' pairNat (← arrField j "cats")
  let stored ← mapM' toRec (← arrField j "stored")
  let failing ← mapM' toFailing (← arrField j "failing")
  let beh ← mapM' toBehEntry (← arrField j "beh")
  let limit ← match optField j "limit" with
    | some v => do pure (some (← asNat v))
    | none => pure none
  .ok { catOf := fun i => lookupD cats i 0,
        stored := stored,
        tuner := fun k => match failing.lookup k with
          | some m => .error m
          | none => .ok (fun i => lookupD beh (k, i) (.verdict .different "foreign tuning")),
        cfg := ⟨← boolField j "keep", ← natField j "rate", ← natField j "timeoutMs"⟩,
        dedicated := ← boolField j "dedicated",
        props := ⟨← boolField j "skipIncomplete", limit⟩,
        categories := ← mapM' asNat (← arrField j "categories"),
        recordingIds := ← mapM' asNat (← arrField j "ids") }

def jResult : Except String (List Comparison) → Json
  | .error e => jObj [("err", Json.str e)]
  | .ok cs => jObj [("ok", jArr (cs.map Drive.Equalizer.jComparison))]

def playH : Handler := fun j => do
  let s ← mkStudio j
  let res := play s
  let inter ← match optField j "order" with
    | none => pure (Json.null, Json.null)
    | some o => do
      let order ← mapM' asNat (← asArr o)
      let gs := groups s
      let todo : Cat → List Task := fun k =>
        match gs.lookup k with
        | none => []
        | some g => match s.tuner k with
          | .error _ => []
          | .ok tun => tasksOf (idsFor s k g) tun
      match consume s.cfg (startState todo) order with
      | none => pure (Json.null, Json.null)
      | some st =>
        pure (jArr (gs.map (fun g => jArr [jNat g.1, jArr ((st.out g.1).map Drive.Equalizer.jComparison)])),
              Json.bool st.sh.clean)
  .ok (jObj [("result", jArr (res.map (fun p => jArr [jNat p.1, jResult p.2]))),
             ("interleaved", inter.1), ("clean", inter.2)])

def handlers : List (String × Handler) := [("c19.play", playH)]

end Drive.Studio
