/-
Record and replay of an operation whose intercepted calls are made by worker threads (C01, "threads" clause).

Every intercepted call is one atomic step on the recorder state (in-flight interceptions are the micro-step model of
`Threads.lean`, C04); a schedule is an arbitrary list of thread numbers, a thread that has finished is skipped.
Inputs are looked up by key, so their order does not matter.  Outputs are numbered per alias in call order
(`_invoke_counter[alias] += 1`), so the outcome of a replay is schedule-independent exactly when no alias is shared by two
threads that may run concurrently: here every output alias is owned by the thread that uses it (the alias carries the
thread number), which is the shape the correspondence check drives on the real recorder.
Import-free, executable.
-/
namespace PlaybackModel.ThreadsReplay

inductive Key where
  | inp (k : String)                          -- "input: <alias> args=…, kwargs=…"
  | outArgs (t : Nat) (a : String) (n : Nat)  -- "output: <alias of thread t> #n.output"
  | outRes (t : Nat) (a : String) (n : Nat)   -- "output: <alias of thread t> #n.result"
  deriving DecidableEq, Repr

/-- one intercepted call of a thread's (straight-line) program -/
structure TCall where
  isIn : Bool
  name : String      -- input: the key text (alias + captured arguments); output: the alias
  arg : String       -- output: what is sent
  res : String       -- output: what the live body returns
  deriving DecidableEq, Repr

abbrev Data := List (Key × String)

def get (d : Data) (k : Key) : Option String :=
  match d with
  | [] => none
  | (k', v) :: rest => if k' = k then some v else get rest k

def upd {α : Type} (f : Nat → α) (t : Nat) (v : α) : Nat → α := fun x => if x = t then v else f x

structure St where
  pc : Nat → Nat                      -- calls completed by each thread
  cnt : Nat → String → Nat            -- `_invoke_counter` (per owner thread and alias)
  data : Data                         -- the recording being written (record run)
  pb : Data                           -- `_playback_outputs` (replay run), in call order
  seen : Nat → List String            -- what each thread's calls were handed, latest first

def init : St := { pc := fun _ => 0, cnt := fun _ _ => 0, data := [], pb := [], seen := fun _ => [] }

def missing : String := "<RecordingKeyError>"

/-- one call of thread `t` while recording; `w` gives the live value of an input (a function of its key) -/
def stepRecord (w : String → String) (prog : Nat → List TCall) (s : St) (t : Nat) : St :=
  match (prog t)[s.pc t]? with
  | none => s
  | some c =>
    if c.isIn then
      { s with pc := upd s.pc t (s.pc t + 1), data := (.inp c.name, w c.name) :: s.data,
               seen := upd s.seen t (w c.name :: s.seen t) }
    else
      { s with pc := upd s.pc t (s.pc t + 1),
               cnt := upd s.cnt t (fun b => if b = c.name then s.cnt t c.name + 1 else s.cnt t b),
               data := (.outRes t c.name (s.cnt t c.name + 1), c.res) :: (.outArgs t c.name (s.cnt t c.name + 1), c.arg) :: s.data,
               seen := upd s.seen t (c.res :: s.seen t) }

/-- one call of thread `t` while replaying the recording `R` -/
def stepReplay (R : Key → Option String) (prog : Nat → List TCall) (s : St) (t : Nat) : St :=
  match (prog t)[s.pc t]? with
  | none => s
  | some c =>
    if c.isIn then
      { s with pc := upd s.pc t (s.pc t + 1), seen := upd s.seen t ((R (.inp c.name)).getD missing :: s.seen t) }
    else
      { s with pc := upd s.pc t (s.pc t + 1),
               cnt := upd s.cnt t (fun b => if b = c.name then s.cnt t c.name + 1 else s.cnt t b),
               pb := s.pb ++ [(.outArgs t c.name (s.cnt t c.name + 1), c.arg)],
               seen := upd s.seen t ((R (.outRes t c.name (s.cnt t c.name + 1))).getD missing :: s.seen t) }

def runRecord (w : String → String) (prog : Nat → List TCall) (sched : List Nat) : St :=
  sched.foldl (stepRecord w prog) init

def runReplay (R : Key → Option String) (prog : Nat → List TCall) (sched : List Nat) : St :=
  sched.foldl (stepReplay R prog) init

/-- every thread has made all its calls -/
def Complete (prog : Nat → List TCall) (s : St) : Prop := ∀ t, s.pc t = (prog t).length

/-! ### what a thread's program determines on its own -/
def isOutOf (a : String) (c : TCall) : Bool := !c.isIn && c.name == a

/-- number of output calls on alias `a` in `l` -/
def ordOf (l : List TCall) (a : String) : Nat := (l.filter (isOutOf a)).length

/-- the `n`-th (from 1) output call on alias `a` in `l` -/
def nthOut (l : List TCall) (a : String) (n : Nat) : Option TCall :=
  if n = 0 then none else (l.filter (isOutOf a))[n - 1]?

/-- what the calls of a straight-line program are handed while recording -/
def specSeen (w : String → String) (l : List TCall) : List String :=
  l.map (fun c => if c.isIn then w c.name else c.res)

end PlaybackModel.ThreadsReplay
