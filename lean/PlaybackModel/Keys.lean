import PlaybackModel.Codec
/-! Model of the interception keys of `playback/tape_recorder.py`:
  `_format_alias` (l.758-778), `_input_interception_key` (l.920-964), `_output_interception_key` (l.966-977).

  Positional arguments are the full `*args` of the decorated function (for an instance interception `args[0]` is `self`),
  keyword arguments are insertion-ordered fields.  Python exceptions are explicit (`Except Err`). -/
namespace PlaybackModel.Codec

def Vals.get? : Vals → Nat → Option Val
  | .nil, _ => none
  | .cons x _, 0 => some x
  | .cons _ xs, n+1 => xs.get? n

def Vals.tail : Vals → Vals
  | .nil => .nil
  | .cons _ xs => xs

def Vals.snoc : Vals → Val → Vals
  | .nil, v => .cons v .nil
  | .cons x xs, v => .cons x (xs.snoc v)

def Fields.lookup (k : String) : Fields → Option Val
  | .nil => none
  | .cons k' v fs => if k = k' then some v else fs.lookup k

/-- `d[k] = v` on an insertion-ordered dict -/
def Fields.set (k : String) (v : Val) : Fields → Fields
  | .nil => .cons k v .nil
  | .cons k' v' fs => if k = k' then .cons k v fs else .cons k' v' (fs.set k v)

/-- `d.pop(k, None)` : the value (if present) and the remaining items -/
def Fields.pop (k : String) : Fields → Option Val × Fields
  | .nil => (none, .nil)
  | .cons k' v fs => if k = k' then (some v, fs) else ((fs.pop k).1, .cons k' v (fs.pop k).2)

end PlaybackModel.Codec

namespace PlaybackModel.Keys
open PlaybackModel.Codec

inductive Err where
  | indexError | keyError | valueError
  deriving DecidableEq, Repr

/-- `CapturedArg(position, name)` -/
structure CapturedArg where
  position : Option Nat
  name : Option String

/-- `capture_args`: `None` (all) or a list (the empty list captures nothing) -/
inductive Sel where
  | all
  | only (l : List CapturedArg)

/-- the loop of l.948-958: a captured name present in kwargs wins, else the position indexes the full `args` -/
def captureLoop (args : Vals) (kwargs : Fields) : List CapturedArg → Vals → Fields → Except Err (Vals × Fields)
  | [], a, k => .ok (a, k)
  | c :: cs, a, k =>
    match c.name.bind kwargs.lookup with
    | some v => captureLoop args kwargs cs a (k.set (c.name.getD "") v)
    | none =>
      match c.position with
      | none => captureLoop args kwargs cs a k
      | some p =>
        match args.get? p with
        | some v => captureLoop args kwargs cs (a.snoc v) k
        | none => .error .indexError

/-- `(args_for_keys, kwargs_for_key)`: a tuple slice when everything is captured, a list otherwise -/
def capture (sel : Sel) (static : Bool) (args : Vals) (kwargs : Fields) : Except Err (Val × Fields) :=
  match sel with
  | .all => .ok (.tuple (if static then args else args.tail), kwargs)
  | .only l =>
    match captureLoop args kwargs l .nil .nil with
    | .ok (a, k) => .ok (.list a, k)
    | .error e => .error e

def kwPairs : Fields → Vals
  | .nil => .nil
  | .cons k v fs => .cons (.tuple (.cons (.str k) (.cons v .nil))) (kwPairs fs)

/-- `sorted(list(kwargs_for_key.items()), key=lambda k_v: k_v[0])` -/
def kwargsVal (kw : Fields) : Val := .list (kwPairs kw.sort)

/-- `u'input: {} args={}, kwargs={}'.format(alias, encode(args_for_keys), encode(sorted kwargs items))` -/
def keyText (alias : String) (a : Val) (kw : Fields) : String :=
  "input: " ++ alias ++ " args=" ++ encodeText a ++ ", kwargs=" ++ encodeText (kwargsVal kw)

def inputKey (alias : String) (sel : Sel) (static : Bool) (args : Vals) (kwargs : Fields) : Except Err String :=
  match capture sel static args kwargs with
  | .ok (a, k) => .ok (keyText alias a k)
  | .error e => .error e

/-- `u'output: {} #{}'.format(alias, invocation_number)` -/
def outputKey (alias : String) (n : Nat) : String :=
  "output: " ++ alias ++ " #" ++ toString n

/-! ### the key as a stream of alias characters, the two separators and JSON tokens (token level) -/
inductive KTok where
  | ch (c : Char) | argsSep | kwargsSep | tok (t : Tok)
  deriving DecidableEq, Repr

def inputKeyToks (alias : String) (a : Val) (kw : Fields) : List KTok :=
  alias.toList.map .ch ++ .argsSep :: ((encToks a).map .tok ++ .kwargsSep :: (encToks (kwargsVal kw)).map .tok)

/-! ### alias resolver: `alias.format(**alias_params_resolver(*args, **kwargs))` with plain `{name}` fields -/
inductive PVal where
  | int (n : Int) | str (s : String)

def PVal.text : PVal → String
  | .int n => toString n
  | .str s => s

def lookupParam (name : String) : List (String × PVal) → Option PVal
  | [] => none
  | (k, v) :: ps => if name = k then some v else lookupParam name ps

inductive FmtSt where
  | normal | opened | field (acc : List Char) | closed

/-- `str.format` restricted to `{{`, `}}` and `{identifier}` replacement fields, keyword arguments only -/
def fmtGo (params : List (String × PVal)) : FmtSt → List Char → Except Err (List Char)
  | .normal, [] => .ok []
  | .opened, [] => .error .valueError
  | .field _, [] => .error .valueError
  | .closed, [] => .error .valueError
  | .normal, c :: r =>
    if c = '{' then fmtGo params .opened r
    else if c = '}' then fmtGo params .closed r
    else (fmtGo params .normal r).map (c :: ·)
  | .opened, c :: r =>
    if c = '{' then (fmtGo params .normal r).map ('{' :: ·)
    else if c = '}' then .error .indexError
    else fmtGo params (.field [c]) r
  | .field acc, c :: r =>
    if c = '}' then
      match lookupParam (String.ofList acc.reverse) params with
      | none => .error .keyError
      | some v => (fmtGo params .normal r).map (v.text.toList ++ ·)
    else fmtGo params (.field (c :: acc)) r
  | .closed, c :: r =>
    if c = '}' then (fmtGo params .normal r).map ('}' :: ·)
    else .error .valueError

/-- `_format_alias`: the alias itself without a resolver, else the formatted template -/
def formatAlias (alias : String) (resolved : Option (List (String × PVal))) : Except Err String :=
  match resolved with
  | none => .ok alias
  | some ps => (fmtGo ps .normal alias.toList).map String.ofList

/-- the whole key of one intercepted call -/
def callKey (alias : String) (resolved : Option (List (String × PVal))) (sel : Sel) (static : Bool)
    (args : Vals) (kwargs : Fields) : Except Err String :=
  match formatAlias alias resolved with
  | .ok a => inputKey a sel static args kwargs
  | .error e => .error e

/-- resolved alias contains no `=` (then the first `=` of the key text ends the alias part) -/
def AliasWF (alias : List Char) : Prop := '=' ∉ alias

end PlaybackModel.Keys
