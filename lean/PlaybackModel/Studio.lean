import PlaybackModel.Equalizer
/-
Model of `playback/studio/studio.py` (`PlaybackStudio.play` l.41-55, `_group_recording_ids_by_categories` l.57-67,
`_play_category` l.69-99) and `playback/studio/recordings_lookup.py` (`find_matching_recording_ids`).
Imports only the Equalizer model (core Lean otherwise); executable.

Categories are natural numbers: the harness renames category names to their rank in Python's string order, so
`sorted(grouping.items())` is the increasing order here.  A tuning (playback function + extractor + comparator of one
category) is what it makes of every recording: `Id → Beh`.
-/
namespace PlaybackModel.Studio
open PlaybackModel.Equalizer

abbrev Cat := Nat

/-- a stored recording as the lookup sees it -/
structure Rec where
  id : Id
  /-- `extract_recording_category(id)` -/
  cat : Cat
  /-- metadata `_tape_recorder_incomplete_recording`: absent / False / True -/
  incomplete : Option Bool
  /-- satisfies the user-supplied part of the lookup (metadata filter, date window) - see C10 -/
  selected : Bool
  deriving DecidableEq, Repr, Inhabited

/-- `RecordingLookupProperties` as far as the studio adds to it -/
structure Props where
  skipIncomplete : Bool
  limit : Option Nat
  deriving DecidableEq, Repr, Inhabited

/-- the filter `find_matching_recording_ids` hands to `iter_recording_ids(category, …)`: exact category, the user's
filter, and with `skip_incomplete` the added `incomplete ∈ [False, None]` -/
def keeps (p : Props) (k : Cat) (r : Rec) : Bool :=
  r.cat == k && r.selected && (!p.skipIncomplete || r.incomplete != some true)

def lookup (stored : List Rec) (p : Props) (k : Cat) : List Id :=
  let l := (stored.filter (keeps p k)).map (·.id)
  match p.limit with
  | some n => l.take n
  | none => l

/-- sorted insertion without duplicates -/
def insertCat (k : Cat) : List Cat → List Cat
  | [] => [k]
  | c :: cs => if k < c then k :: c :: cs else if k = c then c :: cs else c :: insertCat k cs

/-- the keys of `OrderedDict(sorted(grouping.items()))`: every category once, increasing -/
def sortedCats : List Cat → List Cat
  | [] => []
  | k :: ks => insertCat k (sortedCats ks)

/-- the keys of `{c: None for c in categories}`: every category once, in order of first occurrence -/
def dedupFirst : List Cat → List Cat
  | [] => []
  | k :: ks => k :: (dedupFirst ks).filter (fun c => c != k)

structure Studio where
  /-- `tape_cassette.extract_recording_category` -/
  catOf : Id → Cat
  /-- cassette content in listing order -/
  stored : List Rec
  /-- `equalizer_tuner.create_category_tuning`: raises (`.error text`) or returns the tuning -/
  tuner : Cat → Except String (Id → Beh)
  cfg : Cfg
  /-- `compare_execution_config.compare_in_dedicated_process` -/
  dedicated : Bool
  props : Props
  categories : List Cat
  /-- `recording_ids` (`None` and `[]` are both falsy: `[]`) -/
  recordingIds : List Id

/-- l.47-50: explicit ids are grouped by category and sorted; otherwise the given categories, each to be looked up -/
def groups (s : Studio) : List (Cat × Option (List Id)) :=
  match s.recordingIds with
  | [] => (dedupFirst s.categories).map (fun k => (k, none))
  | ids => (sortedCats (ids.map s.catOf)).map (fun k => (k, some (ids.filter (fun i => s.catOf i == k))))

/-- l.87-91: `if recording_ids:` the given ones, else the lookup -/
def idsFor (s : Studio) (k : Cat) : Option (List Id) → List Id
  | some (i :: is) => i :: is
  | some [] => lookup s.stored s.props k
  | none => lookup s.stored s.props k

def runEq (s : Studio) (tasks : List Task) : List Comparison :=
  if s.dedicated then runDedT s.cfg tasks else runInProc s.cfg tasks

/-- `_play_category` l.69-99: a tuner failure is that category's result -/
def playCategory (s : Studio) (k : Cat) (g : Option (List Id)) : Except String (List Comparison) :=
  match s.tuner k with
  | .error e => .error e
  | .ok tun => .ok (runEq s (tasksOf (idsFor s k g) tun))

/-- `PlaybackStudio.play` with every generator consumed to the end -/
def play (s : Studio) : List (Cat × Except String (List Comparison)) :=
  (groups s).map (fun g => (g.1, playCategory s g.1 g.2))

/-! ## Lazy generators consumed in an arbitrary interleaving (in-process mode)

`play()` returns one generator per category; the consumer calls `next` on them in any order.  All of them use the one
tape recorder: a `next` runs one complete `TapeRecorder.play`, which needs the recorder clean (`_playback_recording`
unset, `_playback_outputs` empty, fresh invoke counter) and leaves it clean again. -/

structure Shared where
  clean : Bool
  plays : Nat
  deriving DecidableEq, Repr, Inhabited

structure IState where
  sh : Shared
  /-- recordings each category's generator still has to play -/
  todo : Cat → List Task
  /-- comparisons each category's generator has yielded so far -/
  out : Cat → List Comparison

def upd {α : Type} (f : Cat → α) (k : Cat) (v : α) : Cat → α := fun c => if c = k then v else f c

/-- one `next()` on category `k`'s generator; `none`: the call never returns (the player hung or took the process
down - in-process there is nobody left to go on) -/
def nextOn (cfg : Cfg) (st : IState) (k : Cat) : Option IState :=
  match st.todo k with
  | [] => some st                                     -- StopIteration
  | (id, b) :: rest =>
    match inner id b with
    | none => none
    | some r =>
      let c := if st.sh.clean then post cfg id r else outerFailure id "tape recorder is not idle"
      some { sh := ⟨st.sh.clean, st.sh.plays + 1⟩, todo := upd st.todo k rest, out := upd st.out k (st.out k ++ [c]) }

def consume (cfg : Cfg) : IState → List Cat → Option IState
  | st, [] => some st
  | st, k :: ks =>
    match nextOn cfg st k with
    | none => none
    | some st' => consume cfg st' ks

def startState (todo : Cat → List Task) : IState := { sh := ⟨true, 0⟩, todo := todo, out := fun _ => [] }

end PlaybackModel.Studio
