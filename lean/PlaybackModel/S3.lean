import PlaybackModel.MetaFilter
/-
Model of `playback/tape_cassettes/s3/s3_basic_facade.py` and `playback/tape_cassettes/s3/s3_tape_cassette.py`
(the code as it is now, with the `fix:` commits F6 4c0afec and F7 f547d41 in).

  bucket            `List (String × Obj)` kept in key order (the listing order of S3 and of the harness' fake) + mutation log
  facade            `put_string` l.22-42, `get_string` l.44-53, `iter_keys` l.55-101, `delete_by_prefix` l.103-109
  cassette          key layout l.27-30/57, `create_new_recording` l.113-128, `_save_recording` l.136-183 (two puts: the full
                    object first, the discoverable metadata object second), `get_recording` l.68-91,
                    `get_recording_metadata` l.93-111, `_get_id_prefixes` l.262-283, `iter_recording_ids` l.310-348,
                    `close` l.361-373, `__exit__` (tape_cassette.py l.15-16)
  crash             a save interrupted after its j-th bucket mutation
  time              SECONDS since an epoch (the resolution of S3's LastModified); `day t = t / 86400`; `strftime('%Y%m%d')` is the parameter `dayStr`

No imports besides the matcher model (the S3 content filter calls it).  External behaviour that is a parameter:
`glob` (fnmatch), `dayStr` (strftime), `ch` (the `random.choice` stream), `shuf` (`random.shuffle`).
-/
namespace PlaybackModel.S3
open PlaybackModel.MetaFilter

abbrev Meta := List (String × MVal)

/-! ### strings (through their character lists, so that the proofs are list proofs) -/

/-- Python `s.startswith(p)` -/
def startsWith (s p : String) : Bool := p.toList.isPrefixOf s.toList

/-- Python `s[n:]` -/
def dropChars (n : Nat) (s : String) : String := String.ofList (s.toList.drop n)

/-- `ch not in s` -/
def noChar (ch : Char) (s : String) : Prop := ch ∉ s.toList

instance (ch : Char) (s : String) : Decidable (noChar ch s) := inferInstanceAs (Decidable (ch ∉ s.toList))

/-! ### the bucket -/

/-- an S3 object: opaque payload, the metadata it carries (what `json.loads`/`decode` of a metadata object, or the
`_metadata` entry of a full object, yields before any view is applied) and its last-modified time in minutes -/
structure Obj where
  payload : String
  md : Meta
  lm : Nat
  deriving Repr, Inhabited

abbrev Bucket := List (String × Obj)

inductive Mutation where
  | put (k : String) (o : Obj)
  | delete (k : String)
  deriving Repr, Inhabited

def Mutation.key : Mutation → String
  | .put k _ => k
  | .delete k => k

def Mutation.isPut : Mutation → Bool
  | .put _ _ => true
  | .delete _ => false

def hasKey (b : Bucket) (k : String) : Bool := b.any (fun e => e.1 == k)

def getObj (b : Bucket) (k : String) : Option Obj := (b.find? (fun e => e.1 == k)).map (·.2)

def insertSorted (e : String × Obj) (b : Bucket) : Bucket :=
  b.takeWhile (fun x => decide (x.1 < e.1)) ++ e :: b.dropWhile (fun x => decide (x.1 < e.1))

/-- `client.put_object`: replaces the object under `k`; the bucket stays in key order -/
def putObj (b : Bucket) (k : String) (o : Obj) : Bucket :=
  insertSorted (k, o) (b.filter (fun x => x.1 != k))

def deleteKey (b : Bucket) (k : String) : Bucket := b.filter (fun x => x.1 != k)

/-- `bucket.objects.filter(Prefix=p)` (in listing order) -/
def listPrefix (b : Bucket) (p : String) : Bucket := b.filter (fun x => startsWith x.1 p)

/-- `bucket.objects.filter(Prefix=p).delete()` -/
def deletePrefix (b : Bucket) (p : String) : Bucket := b.filter (fun x => !startsWith x.1 p)

/-- the individual deletions `delete_by_prefix` performs -/
def deleteSteps (b : Bucket) (p : String) : List Mutation := (listPrefix b p).map (fun e => Mutation.delete e.1)

def applyMutation (b : Bucket) : Mutation → Bucket
  | .put k o => putObj b k o
  | .delete k => deleteKey b k

def applyMutations (b : Bucket) (ms : List Mutation) : Bucket := ms.foldl applyMutation b

/-! ### cassette configuration and key layout (l.27-30, l.57) -/

structure Cfg where
  /-- the normalised key prefix `self.key_prefix` -/
  kp : String
  readOnly : Bool
  transient : Bool
  deriving Repr, DecidableEq, Inhabited

/-- l.57: `(key_prefix + '/') if key_prefix else ''` -/
def normPrefix (p : String) : String := if p = "" then "" else p ++ "/"

def mkCfg (p : String) (readOnly transient : Bool) : Cfg := ⟨normPrefix p, readOnly, transient⟩

def base : String := "tape_recorder_recordings/"
def root (c : Cfg) : String := base ++ c.kp
def fullRoot (c : Cfg) : String := root c ++ "full/"
def metaRoot (c : Cfg) : String := root c ++ "metadata/"
/-- `FULL_KEY.format(key_prefix=…, id=…)` -/
def fullKey (c : Cfg) (id : String) : String := fullRoot c ++ id
/-- `METADATA_KEY.format(key_prefix=…, id=…)` -/
def metaKey (c : Cfg) (id : String) : String := metaRoot c ++ id

/-- l.343 (after F6): the id is the listed key minus this cassette's metadata-key prefix -/
def idOfKey (c : Cfg) (key : String) : String := dropChars (metaRoot c).toList.length key

/-! ### time -/

def day (t : Nat) : Nat := t / 86400

/-- l.278 (after F7): `range((end.date() - start.date()).days + 1)`, the i-th day being `start + i days` -/
def prefixDays (s e : Nat) : List Nat :=
  if day e < day s then [] else (List.range (day e - day s + 1)).map (day s + ·)

/-- l.278 as it stands in the source: `range(<day difference> + k)` with the difference counted as
`PlaybackModel.Source.dayCountKind` says; the theorems need (calendar, 1) (`prefixDaysSrc_eq`) -/
def prefixDaysSrc (s e : Nat) : List Nat :=
  match PlaybackModel.Source.dayCountKind with
  | .calendar => if day e < day s then [] else (List.range (day e - day s + PlaybackModel.Source.dayCountPlus)).map (day s + ·)
  | .elapsed => if e < s then [] else (List.range ((e - s) / 86400 + PlaybackModel.Source.dayCountPlus)).map (day s + ·)

/-- l.278 before F7: `range((end - start).days + 1)` counts whole 24 h periods -/
def prefixDaysUnfixed (s e : Nat) : List Nat :=
  if e < s then [] else (List.range ((e - s) / 86400 + 1)).map (day s + ·)

/-- l.276-281; `end_date or utcnow()` bounds only the day enumeration -/
def idPrefixes (dayStr : Nat → String) (days : Nat → Nat → List Nat) (cat : String) (s e : Option Nat) (now : Nat) :
    List String :=
  match s with
  | some s => (days s (e.getD now)).map (fun d => cat ++ "/" ++ dayStr d ++ "/")
  | none => [cat ++ "/"]

/-- facade l.76-81: the last-modified predicate (absent bounds are not checked) -/
def windowPred (s e : Option Nat) (lm : Nat) : Bool :=
  (match s with
   | none => true
   | some s => PlaybackModel.Atoms.Cmp.nat PlaybackModel.Source.windowStartCmp s lm) &&     -- `start_date <= o.last_modified`
  (match e with
   | none => true
   | some e => PlaybackModel.Atoms.Cmp.nat PlaybackModel.Source.windowEndCmp lm e)          -- `o.last_modified <= end_date`
  -- the operators as they stand in the source; the theorems need both to mean `<=` (windowPred_def)

/-! ### what the S3 content filter sees: `json.loads` of the jsonpickle text of the metadata (K3) -/

mutual
def jsonView : MVal → MVal
  | .tuple xs => .dict [("py/tuple", .list (jsonViewList xs))]
  | .cls n => .dict [("py/type", .str ("builtins." ++ n))]
  | .list xs => .list (jsonViewList xs)
  | .dict fs => .dict (jsonViewFields fs)
  | .none => .none
  | .bool b => .bool b
  | .num n e => .num n e
  | .str s => .str s
def jsonViewList : List MVal → List MVal
  | [] => []
  | x :: xs => jsonView x :: jsonViewList xs
def jsonViewFields : List (String × MVal) → List (String × MVal)
  | [] => []
  | (k, v) :: rest => (k, jsonView v) :: jsonViewFields rest
end

mutual
/-- None / bool / number / string / list / string-keyed dict all the way down -/
def jsonNative : MVal → Bool
  | .tuple _ => false
  | .cls _ => false
  | .list xs => jsonNativeList xs
  | .dict fs => jsonNativeFields fs
  | .none => true
  | .bool _ => true
  | .num _ _ => true
  | .str _ => true
def jsonNativeList : List MVal → Bool
  | [] => true
  | x :: xs => jsonNative x && jsonNativeList xs
def jsonNativeFields : List (String × MVal) → Bool
  | [] => true
  | (_, v) :: rest => jsonNative v && jsonNativeFields rest
end

/-! ### facade `iter_keys` -/

def takeOpt {α : Type} : Option Nat → List α → List α
  | none, l => l
  | some n, l => l.take n

/-- a filter whose predicate may raise; the first exception aborts -/
def filterE {ε α : Type} (p : α → Except ε Bool) : List α → Except ε (List α)
  | [] => .ok []
  | x :: xs =>
    match p x with
    | .error e => .error e
    | .ok keep =>
      match filterE p xs with
      | .error e => .error e
      | .ok r => .ok (if keep then x :: r else r)

def mapE {ε α β : Type} (g : α → Except ε β) : List α → Except ε (List β)
  | [] => .ok []
  | x :: xs =>
    match g x with
    | .error e => .error e
    | .ok y =>
      match mapE g xs with
      | .error e => .error e
      | .ok ys => .ok (y :: ys)

/-- l.98: `carry and current(obj)` over [window predicate, content filter] -/
def relevant (s e : Option Nat) (cf : Option (Meta → Except Err Bool)) (x : String × Obj) : Except Err Bool :=
  if windowPred s e x.2.lm then
    (match cf with
     | none => .ok true
     | some g => g x.2.md)
  else .ok false

/-- `iter_keys` l.55-101: everything this generator can yield, in order.  (The generator is lazy; the content filter
is total - C14 - so evaluating it on objects the consumer never asks for is unobservable.) -/
def iterKeys (b : Bucket) (pre : String) (s e : Option Nat) (cf : Option (Meta → Except Err Bool))
    (lim : Option Nat) (shuf : Bucket → Bucket) : Except Err (List String) :=
  match filterE (relevant s e cf) (shuf (listPrefix b pre)) with
  | .error err => .error err
  | .ok objs => .ok (takeOpt lim (objs.map (·.1)))

/-! ### cassette `iter_recording_ids` l.330-348: merge of the day iterators -/

def total {α : Type} (its : List (List α)) : Nat := (its.map List.length).sum

/-- `next(days_iterators[i], None)`: the head (or `none`: exhausted, the iterator is removed) and the updated list -/
def pick {α : Type} : Nat → List (List α) → Option (Option α × List (List α))
  | _, [] => none
  | 0, [] :: r => some (none, r)
  | 0, (x :: xs) :: r => some (some x, xs :: r)
  | i + 1, it :: r =>
    match pick i r with
    | none => none
    | some (h, r') => some (h, it :: r')

/-- the `while count != limit and days_iterators` loop; `ch step` is `iter_index` (round robin, `ch = id`) or the
`random.choice` draw of that iteration -/
def mergeAux {α : Type} (ch : Nat → Nat) (lim : Option Nat) : Nat → List (List α) → Nat → Nat → List α
  | 0, _, _, _ => []
  | fuel + 1, its, step, count =>
    if lim = some count then []
    else if its.isEmpty then []
    else
      match pick (ch step % its.length) its with
      | none => []
      | some (none, its') => mergeAux ch lim fuel its' (step + 1) count
      | some (some x, its') => x :: mergeAux ch lim fuel its' (step + 1) (count + 1)

def merge {α : Type} (ch : Nat → Nat) (lim : Option Nat) (its : List (List α)) : List α :=
  mergeAux ch lim (total its + its.length + 1) its 0 0

/-- l.304: `content_filter = … if metadata else None`; l.256-258: the filter sees `json.loads(text)` -/
def contentFilter (glob : String → String → Bool) (f : Meta) : Option (Meta → Except Err Bool) :=
  if f.isEmpty then none else some (fun md => matchMeta glob f (jsonViewFields md))

/-- `S3TapeCassette.iter_recording_ids` -/
def iterRecordingIds (glob : String → String → Bool) (dayStr : Nat → String) (days : Nat → Nat → List Nat)
    (c : Cfg) (b : Bucket) (cat : String) (s e : Option Nat) (now : Nat) (f : Meta) (lim : Option Nat)
    (random : Bool) (ch : Nat → Nat) (shuf : Bucket → Bucket) : Except Err (List String) :=
  match mapE (fun p => iterKeys b (metaKey c p) s e (contentFilter glob f) lim (if random then shuf else id))
      (idPrefixes dayStr days cat s e now) with
  | .error err => .error err
  | .ok its => .ok ((merge (if random then ch else id) lim its).map (idOfKey c))

/-! ### cassette operations -/

/-- what `_save_recording` writes for one recording -/
structure SaveReq where
  id : String
  payload : String
  md : Meta
  deriving Repr, Inhabited

/-- l.168-176: the full object first, the metadata object second -/
def saveSteps (c : Cfg) (t : Nat) (r : SaveReq) : List Mutation :=
  [.put (fullKey c r.id) ⟨r.payload, r.md, t⟩, .put (metaKey c r.id) ⟨"", r.md, t⟩]

/-- the two writes in the opposite order (a mutation of the code, for the counterexample theorem) -/
def saveStepsSwapped (c : Cfg) (t : Nat) (r : SaveReq) : List Mutation :=
  [.put (metaKey c r.id) ⟨"", r.md, t⟩, .put (fullKey c r.id) ⟨r.payload, r.md, t⟩]

/-- l.365-373: nothing unless writable and transient; then the full objects, then the metadata objects -/
def closeSteps (c : Cfg) (b : Bucket) : List Mutation :=
  if c.readOnly || !c.transient then []
  else deleteSteps b (fullRoot c) ++ deleteSteps (deletePrefix b (fullRoot c)) (metaRoot c)

def closeBucket (c : Cfg) (b : Bucket) : Bucket :=
  if c.readOnly || !c.transient then b
  else deletePrefix (deletePrefix b (fullRoot c)) (metaRoot c)

inductive Op where
  /-- `create_new_recording(cat)` at clock `t` (`uid` is the uuid drawn) -/
  | create (cat uid : String) (t : Nat)
  /-- `save_recording(r)` at clock `t` -/
  | save (r : SaveReq) (t : Nat)
  /-- `save_recording(r)` interrupted after its `k`-th bucket mutation -/
  | saveCrash (r : SaveReq) (t : Nat) (k : Nat)
  | get (id : String)
  | getMeta (id : String)
  /-- `list(iter_recording_ids(cat))` -/
  | list (cat : String)
  | close
  /-- leaving `with cassette:` -/
  | exit
  deriving Repr, Inhabited

inductive Res where
  | done
  | assertionError
  | noSuchRecording
  | crashed
  | id (s : String)
  | found (o : Obj)
  | ids (l : List String)
  | raised (e : Err)
  deriving Repr, Inhabited

/-- bucket plus the log of every mutation, tagged with the configuration of the cassette that issued it -/
structure St where
  bucket : Bucket
  log : List (Cfg × Mutation)
  deriving Repr, Inhabited

def St.apply (st : St) (c : Cfg) (ms : List Mutation) : St :=
  ⟨applyMutations st.bucket ms, st.log ++ ms.map (fun m => (c, m))⟩

def step (glob : String → String → Bool) (dayStr : Nat → String) (c : Cfg) (st : St) : Op → St × Res
  | .create cat uid t =>
    if c.readOnly then (st, .assertionError)
    else (st, .id (cat ++ "/" ++ dayStr (day t) ++ "/" ++ uid))
  | .save r t =>
    if c.readOnly then (st, .assertionError)
    else (st.apply c (saveSteps c t r), .done)
  | .saveCrash r t k =>
    if c.readOnly then (st, .assertionError)
    else (st.apply c ((saveSteps c t r).take k), .crashed)      -- k = 0: the store refused the first put, nothing was written
  | .get id =>
    match getObj st.bucket (fullKey c id) with
    | some o => (st, .found o)
    | none => (st, .noSuchRecording)
  | .getMeta id =>
    match getObj st.bucket (metaKey c id) with
    | some o => (st, .found o)
    | none => (st, .noSuchRecording)
  | .list cat =>
    match iterRecordingIds glob dayStr prefixDays c st.bucket cat none none 0 [] none false id id with
    | .ok l => (st, .ids l)
    | .error e => (st, .raised e)
  | .close => (⟨closeBucket c st.bucket, st.log ++ (closeSteps c st.bucket).map (fun m => (c, m))⟩, .done)
  | .exit => (⟨closeBucket c st.bucket, st.log ++ (closeSteps c st.bucket).map (fun m => (c, m))⟩, .done)

/-- any interleaving of operations of several cassettes on one bucket: each operation names its cassette -/
def runShared (glob : String → String → Bool) (dayStr : Nat → String) (st : St) : List (Cfg × Op) → St
  | [] => st
  | (c, op) :: rest => runShared glob dayStr (step glob dayStr c st op).1 rest

/-- operations of one cassette -/
def runOps (glob : String → String → Bool) (dayStr : Nat → String) (c : Cfg) (st : St) (ops : List Op) : St :=
  runShared glob dayStr st (ops.map (fun op => (c, op)))

/-! ### discoverable / fetchable -/

/-- lookup through a cassette with configuration `c` can return `id`: its metadata object exists -/
def discoverable (c : Cfg) (b : Bucket) (id : String) : Bool := hasKey b (metaKey c id)
/-- `get_recording(id)` finds the full object -/
def fetchable (c : Cfg) (b : Bucket) (id : String) : Bool := hasKey b (fullKey c id)

end PlaybackModel.S3
