import PlaybackModel.Async
/-!
# The caller's side of `AsyncRecording` (property C12): which requests become buffered operations

`AsyncRecording` (async_record_only_tape_cassette.py l.139-175) extends `MemoryRecording`: `_set_data` / `_add_metadata`
first do the caller-side write (`Recording.set_data` / `add_metadata` assert `not self._closed`: a closed recording raises
`AssertionError` to the caller and nothing is buffered), then append the operation on the wrapped recording to the buffer.
`TapeCassette.save_recording` (tape_cassette.py l.52-60) calls `_save_recording` (which buffers the save of the wrapped
recording) and then closes the caller-side recording; `TapeCassette.abort_recording` (l.62-69) only closes the caller-side
recording - the wrapper forwards nothing, the wrapped recording is never aborted.

`Req` is what one caller asks for, in its order.  `forward` is what the wrapper buffers for it (and what the caller sees);
`direct` is recording straight into the wrapped cassette, where `abort_recording` closes the wrapped recording itself.
-/
namespace PlaybackModel.AsyncCaller
open PlaybackModel.Async

/-- one request of a caller on recording `recId` -/
inductive RKind where
  | setData (key val : Nat)
  | addMeta (key val : Nat)
  | save
  | abort
  deriving DecidableEq, Repr

structure Req where
  recId : Nat
  kind : RKind
  deriving DecidableEq, Repr

/-- caller-side `_closed` flags of the `AsyncRecording` objects -/
abbrev Closed := Nat → Bool

def close (c : Closed) (r : Nat) : Closed := fun n => if n = r then true else c n

/-- the buffered operation of an accepted request (`prod` / `seq` are ghosts of the transition system) -/
def mkOp (prod seq : Nat) (r : Nat) (k : Kind) : Op := { prod := prod, seq := seq, recId := r, kind := k, poison := false }

/-- one request through the wrapper: new flags, the operation it buffers (if any), "the caller saw no exception" -/
def forward1 (prod seq : Nat) (c : Closed) (q : Req) : Closed × Option Op × Bool :=
  match q.kind with
  | .setData k v => if c q.recId then (c, none, false) else (c, some (mkOp prod seq q.recId (.setData k v)), true)
  | .addMeta k v => if c q.recId then (c, none, false) else (c, some (mkOp prod seq q.recId (.addMeta k v)), true)
  | .save => (close c q.recId, some (mkOp prod seq q.recId .save), true)
  | .abort => (close c q.recId, none, true)

/-- all requests of one caller: the operations buffered, in order, and what the caller saw -/
def forward (prod : Nat) : Nat → Closed → List Req → List Op × List Bool
  | _, _, [] => ([], [])
  | seq, c, q :: qs =>
    let r := forward1 prod seq c q
    let rest := forward prod (seq + 1) r.1 qs
    (match r.2.1 with
     | some o => o :: rest.1
     | none => rest.1, r.2.2 :: rest.2)

/-- recording directly into the wrapped cassette: `abort_recording` closes the wrapped recording -/
def directRec (r : RecSt) : RKind → RecSt × Bool
  | .setData k v => applyRec r (.setData k v)
  | .addMeta k v => applyRec r (.addMeta k v)
  | .save => applyRec r .save
  | .abort => ({ r with closed := true }, true)

def direct1 (w : Store) (q : Req) : Store × Bool :=
  let res := directRec (w q.recId) q.kind
  (fun n => if n = q.recId then res.1 else w n, res.2)

def direct : Store → List Req → Store × List Bool
  | w, [] => (w, [])
  | w, q :: qs =>
    let r := direct1 w q
    let rest := direct r.1 qs
    (rest.1, r.2 :: rest.2)

/-- what a store holds for reading: per recording the data, the metadata and the saved snapshot (not the `closed` flag of the
wrapped recording object, which nothing reads back) -/
def view (w : Store) (n : Nat) : List (Nat × Nat) × List (Nat × Nat) × Option (List (Nat × Nat) × List (Nat × Nat)) :=
  ((w n).data, (w n).md, (w n).saved)

end PlaybackModel.AsyncCaller
