import PlaybackModel.Source
/-
Model of `playback/tape_recorder.py` (TapeRecorder): operation / intercept_input / intercept_output decorators,
recording scope, discard / force, sampling, post-operation metadata, play().  Imports only the decision atoms read from the source; executable.

Programs are interaction trees (`Prog`): the continuation `k` is an arbitrary function of what the intercepted call
handed back to its caller, so a theorem over all `Prog` covers every deterministic operation.  The body of an
intercepted function is itself a `Prog` (it may call other intercepted functions, discard, force, record data).
One interpreter `exec` transcribes the decorators in all modes (recording, replaying, pass-through); `runOperation`
is the `@operation` decorator, `runPlay` is `TapeRecorder.play`, `runPlain` is the undecorated twin.

Values are opaque atoms: the recorder never looks inside a value (serialisation faithfulness is C06/C07's layer);
keys are structured (`Key`), their text rendering and its injectivity are C06/C03's layer.
-/
namespace PlaybackModel.Recorder

/-- opaque Python value (canonical text supplied by the harness) or the serialisable form of an exception -/
inductive Val where
  | atom (s : String)
  | excForm (t : String)
  deriving DecidableEq, Repr, Inhabited

/-- how an ordinary call ends for its caller: a value or an ordinary `Exception`, identified by its type
(jsonpickle keeps the type and loses the arguments) -/
inductive Out where
  | ret (v : Val)
  | exc (t : String)
  deriving DecidableEq, Repr, Inhabited

/-- … or a `BaseException` (KeyboardInterrupt, SystemExit, GeneratorExit) escapes -/
inductive End where
  | out (o : Out)
  | interrupt (kind : String)
  deriving DecidableEq, Repr, Inhabited

structure Args where
  pos : List Val
  kw : List (String × Val)
  deriving DecidableEq, Repr, Inhabited

inductive Key where
  | input (alias : String) (asTuple : Bool) (args : List Val) (kwargs : List (String × Val))
      -- `asTuple`: all arguments captured (`args[1:]`, a tuple) vs. a selection (a list): the texts differ
  | outArgs (alias : String) (n : Nat)      -- "output: <alias> #<n>.output"
  | outRes (alias : String) (n : Nat)       -- "output: <alias> #<n>.result"
  | free (k : String)                       -- record_data(key, …)
  deriving DecidableEq, Repr, Inhabited

/-- what is stored under a key -/
inductive RVal where
  | value (v : Val)                                             -- {'value': v}
  | exception (t : String)                                      -- {'exception': ex}
  | sent (args : List Val) (kwargs : List (String × Val))       -- {'args': [...], 'kwargs': {...}}
  | prepared (v : Val)                                          -- output data handler's result
  | raw (v : Val)                                               -- record_data
  deriving DecidableEq, Repr, Inhabited

/-- `TapeRecorder.OPERATION_OUTPUT_ALIAS`, as it stands in the source -/
def opAlias : String := PlaybackModel.Source.opOutputAlias

/-- subclasses of `TapeRecorderException`: re-raised by `_execute_operation_func` without an operation output -/
def isFramework (t : String) : Bool :=
  t == "RecordingKeyError" || t == "InputInterceptionKeyCreationError" || t == "OperationExceptionDuringPlayback"
    || t == "NoSuchRecording" || t == "TapeRecorderException"

/-- exact rational `num / den` (den > 0) for sampling rates and PRNG draws -/
structure Q where
  num : Int
  den : Nat
  deriving DecidableEq, Repr, Inhabited

def Q.le (a b : Q) : Bool := decide (a.num * b.den ≤ b.num * a.den)
def Q.geOne (a : Q) : Bool := decide ((a.den : Int) ≤ a.num)
/-- `a <op> b` on exact rationals (denominators positive) -/
def Q.cmp (c : PlaybackModel.Atoms.Cmp) (a b : Q) : Bool := c.int (a.num * b.den) (b.num * a.den)
/-- `recording_parameters.sampling_rate >= 1`, with the operator as it stands in the source -/
def rateAlways (r : Q) : Bool := Q.cmp PlaybackModel.Source.rateAlwaysCmp r ⟨1, 1⟩
/-- `sample_value <= recording_parameters.sampling_rate`, with the operator as it stands in the source -/
def drawKeeps (d r : Q) : Bool := Q.cmp PlaybackModel.Source.drawKeepCmp d r

structure Params where
  rate : Q := ⟨1, 1⟩
  ignoreForce : Bool := false
  skipped : Bool := false
  copy : Bool := false
  deriving DecidableEq, Repr, Inhabited

/-- `@intercept_input` configuration, already applied to the call's arguments where it is a function of them -/
structure InCfg where
  name : String                                   -- identity of the wrapped function (journal)
  keys : Args → Option (Key × List Key)           -- main key, fallback keys; `none`: key creation raises
  prepare : Option (Args → Val → Option Val)      -- data handler `prepare_input_for_recording`; inner `none`: raises
  restore : Args → Val → Out                      -- data handler `restore_input_from_recording` (`.ret` without one; may raise)
  runOriginal : Bool                              -- run_intercepted_when_missing
  substitute : Option (Args → Out)                -- value_when_missing (constant or callable)

/-- `@intercept_output` configuration -/
structure OutCfg where
  name : String
  alias : String
  prepare : Option (Args → Option Val)            -- `prepare_output_for_recording`; inner `none`: raises
  failOnMissing : Bool                            -- fail_on_no_recorded_result
  default : Val                                   -- default_result_when_not_recorded

inductive Prog where
  | done (e : End)
  | callIn (cfg : InCfg) (args : Args) (body : Prog) (k : Out → Prog)
  | callOut (cfg : OutCfg) (args : Args) (body : Prog) (k : Out → Prog)
  | discard (k : Prog)
  | force (k : Prog)
  | recordData (key : String) (v : Val) (k : Prog)
  | setEnabled (b : Bool) (k : Prog)              -- `enable_recording()` / `disable_recording()` called by the running code
  | playData (key : String) (k : Out → Prog)

inductive Ev where
  | create (id : Nat)
  | save (id : Nat)
  | abort (id : Nat)
  | get (id : Nat)
  deriving DecidableEq, Repr, Inhabited

/-- metadata the recorder writes (timestamps other than the duration are not modelled) -/
structure Meta where
  cls : String
  excFlag : Option Bool          -- `_tape_recorder_exception_in_operation`; absent on interrupt
  duration : Int
  incomplete : Bool
  user : List (String × Val)     -- merged result of the metadata extractor
  hasDuration : Bool := true     -- false only for a recording that was not made by the recorder (saved through the
                                 -- cassette API without `_tape_recorder_recording_duration`)
  deriving DecidableEq, Repr, Inhabited

abbrev Data := List (Key × RVal)

structure Recording where
  id : Nat
  data : Data
  md : Meta
  deriving DecidableEq, Repr, Inhabited

structure Active where
  id : Nat
  data : Data
  params : Params
  deriving DecidableEq, Repr, Inhabited

structure St where
  enabled : Bool := false
  active : Option Active := none                 -- `_active_recording` + `_active_recording_parameters`
  forced : Bool := false                         -- `_force_sample`
  counter : List (String × Nat) := []            -- `_invoke_counter`
  playback : Option Recording := none            -- `_playback_recording`
  playbackOutputs : Data := []                   -- `_playback_outputs` (call order)
  inInt : Bool := false                          -- thread-local "currently in interception"
  draws : List Q := []                           -- remaining PRNG draws
  drawn : Nat := 0                               -- draws consumed so far
  clock : List Nat := []                         -- remaining `time()` readings
  nextId : Nat := 0
  store : List Recording := []                   -- the cassette's saved recordings (latest first)
  log : List Ev := []                            -- calls that reached the cassette
  journal : List (String × Args) := []           -- wrapped bodies executed
  deriving Repr, Inhabited

/-! ### small state helpers -/
def getD (d : Data) (k : Key) : Option RVal :=
  match d with
  | [] => none
  | (k', v) :: rest => if k' = k then some v else getD rest k

def hasKey (d : Data) (k : Key) : Bool := (getD d k).isSome

def cnt (c : List (String × Nat)) (a : String) : Nat :=
  match c with
  | [] => 0
  | (a', n) :: rest => if a' = a then n else cnt rest a

def inRecordingMode (s : St) : Bool := s.enabled && s.active.isSome
def inPlaybackMode (s : St) : Bool := s.playback.isSome
/-- `_should_intercept` -/
def shouldIntercept (s : St) : Bool := !s.inInt && (inRecordingMode s || inPlaybackMode s)

def addJournal (s : St) (e : String × Args) : St := { s with journal := s.journal ++ [e] }
def addLog (s : St) (e : Ev) : St := { s with log := s.log ++ [e] }
def bump (s : St) (a : String) : St := { s with counter := (a, cnt s.counter a + 1) :: s.counter }
def setInt (s : St) (b : Bool) : St := { s with inInt := b }

/-- `_reset_active_recording` -/
def resetActive (s : St) : St := { s with active := none, forced := false, counter := [] }

/-- `discard_recording` -/
def doDiscard (s : St) : St :=
  match s.active with
  | some a => resetActive (addLog s (.abort a.id))
  | none => s

/-- `enable_recording` / `disable_recording` (after F15: switching recording off aborts the recording in flight - from
that point on its interceptions would go uncaptured) -/
def doSetEnabled (s : St) (b : Bool) : St :=
  if b then { s with enabled := true }
  else if PlaybackModel.Source.disableDiscards then { doDiscard s with enabled := false }      -- as it stands in the source
  else { s with enabled := false }

/-- `force_sample_recording` -/
def doForce (s : St) : St :=
  match s.active with
  | some a => if a.params.ignoreForce then s else { s with forced := true }
  | none => s

/-- `recording[key] = value` on the recording the interception belongs to.  After a discard that recording is dead
and unobservable, so the write is dropped. -/
def write (s : St) (k : Key) (v : RVal) : St :=
  match s.active with
  | some a => { s with active := some { a with data := (k, v) :: a.data } }
  | none => s

def pushPlayback (s : St) (k : Key) (v : RVal) : St := { s with playbackOutputs := s.playbackOutputs ++ [(k, v)] }

/-- `record_data(key, value)`: only in recording mode -/
def doRecordData (s : St) (key : String) (v : Val) : St :=
  if inRecordingMode s then write s (.free key) (.raw v) else s

/-- the value handed to the caller for a recorded envelope (`_playback_recorded_interception`) -/
def envelopeOut (restore : Val → Out) : RVal → Out
  | .value v => restore v
  | .exception t => .exc t
  | .sent _ _ => .exc "KeyError"
  | .prepared _ => .exc "KeyError"
  | .raw _ => .exc "KeyError"

def firstPresent (d : Data) : List Key → Option Key
  | [] => none
  | k :: rest => if hasKey d k then some k else firstPresent d rest

/-- what `_record_output` stores / captures: the handler's result or `{'args','kwargs'}`; `none`: handler raised -/
def outValue (cfg : OutCfg) (args : Args) : Option RVal :=
  match cfg.prepare with
  | some f => (f args).map RVal.prepared
  | none => some (.sent args.pos args.kw)

/-- `_record_output(alias, n, args, kwargs, handler)` -/
def recordOutput (s : St) (cfg : OutCfg) (n : Nat) (args : Args) : St :=
  match outValue cfg args with
  | none => doDiscard s
  | some v =>
    if inPlaybackMode s then pushPlayback s (.outArgs cfg.alias n) v
    else write s (.outArgs cfg.alias n) v

/-- `play_data(key)` -/
def doPlayData (s : St) (key : String) : Out :=
  match s.playback with
  | none => .ret (.atom "None")
  | some r => match getD r.data (.free key) with
    | some (.raw v) => .ret v
    | some _ => .ret (.atom "<envelope>")
    | none => .exc "RecordingKeyError"

/-- the envelope `_execute_func_and_record_interception` stores for the outcome of an intercepted input;
`none`: the data handler raised (the recording is discarded) -/
def envelopeOf (cfg : InCfg) (args : Args) : Out → Option RVal
  | .exc t => some (.exception t)
  | .ret v =>
    match cfg.prepare with
    | none => some (.value v)
    | some f => (f args v).map RVal.value

/-- what `_execute_func_and_record_interception` does with the outcome of an intercepted input (flag already reset) -/
def afterInput (cfg : InCfg) (args : Args) (k0 : Key) (s : St) (o : Out) : St :=
  match envelopeOf cfg args o with
  | some env => write s k0 env
  | none => doDiscard s

/-- … and with the outcome of an intercepted output's body (no data handler on the result) -/
def afterOutput (alias : String) (n : Nat) (s : St) : Out → St
  | .exc t => write s (.outRes alias n) (.exception t)
  | .ret v => write s (.outRes alias n) (.value v)

/-- the interpreter: every decorator in every mode.  Every branch that runs a wrapped body has the shape
`match exec sb body with | (s1, .out o) => exec (post o s1) (k o) | (s1, .interrupt i) => (postI s1, .interrupt i)`. -/
def exec : St → Prog → St × End
  | s, .done e => (s, e)
  | s, .discard k => exec (doDiscard s) k
  | s, .force k => exec (doForce s) k
  | s, .recordData key v k => exec (doRecordData s key v) k
  | s, .setEnabled b k => exec (doSetEnabled s b) k
  | s, .playData key k => exec s (k (doPlayData s key))
  | s, .callIn cfg args body k =>
    if !shouldIntercept s then
      -- pass-through: `return func(*args, **kwargs)`
      match exec (addJournal s (cfg.name, args)) body with
      | (s1, .out o) => exec s1 (k o)
      | (s1, .interrupt i) => (s1, .interrupt i)
    else
      match cfg.keys args with
      | none =>
        if inPlaybackMode s then exec s (k (.exc "InputInterceptionKeyCreationError"))
        else
          -- key creation failed while recording: discard, still run the original (no key, nothing recorded)
          match exec (setInt (addJournal (doDiscard s) (cfg.name, args)) true) body with
          | (s1, .out o) => exec (setInt s1 false) (k o)
          | (s1, .interrupt i) => (setInt s1 false, .interrupt i)
      | some (k0, fallbacks) =>
        match s.playback with
        | some r =>
          match firstPresent r.data (k0 :: fallbacks) with
          | some key => exec s (k (envelopeOut (cfg.restore args) ((getD r.data key).getD (.raw (.atom "")))))
          | none =>
            if cfg.runOriginal then
              match exec (addJournal s (cfg.name, args)) body with
              | (s1, .out o) => exec s1 (k o)
              | (s1, .interrupt i) => (s1, .interrupt i)
            else match cfg.substitute with
              | some f => exec s (k (f args))
              | none => exec s (k (.exc "RecordingKeyError"))
        | none =>
          -- recording: `_execute_func_and_record_interception`
          match exec (setInt (addJournal s (cfg.name, args)) true) body with
          | (s1, .out o) => exec (afterInput cfg args k0 (setInt s1 false) o) (k o)
          | (s1, .interrupt i) => (setInt s1 false, .interrupt i)
  | s, .callOut cfg args body k =>
    if !shouldIntercept s then
      match exec (addJournal s (cfg.name, args)) body with
      | (s1, .out o) => exec s1 (k o)
      | (s1, .interrupt i) => (s1, .interrupt i)
    else
      if !shouldIntercept (recordOutput (bump s cfg.alias) cfg (cnt s.counter cfg.alias + 1) args) then
        -- the recording was discarded by a failing output handler: plain call
        match exec (addJournal (recordOutput (bump s cfg.alias) cfg (cnt s.counter cfg.alias + 1) args) (cfg.name, args)) body with
        | (s2, .out o) => exec s2 (k o)
        | (s2, .interrupt i) => (s2, .interrupt i)
      else
        match (recordOutput (bump s cfg.alias) cfg (cnt s.counter cfg.alias + 1) args).playback with
        | some r =>
          match getD r.data (.outRes cfg.alias (cnt s.counter cfg.alias + 1)) with
          | some rv => exec (recordOutput (bump s cfg.alias) cfg (cnt s.counter cfg.alias + 1) args) (k (envelopeOut Out.ret rv))
          | none =>
            if cfg.failOnMissing then
              exec (recordOutput (bump s cfg.alias) cfg (cnt s.counter cfg.alias + 1) args) (k (.exc "RecordingKeyError"))
            else exec (recordOutput (bump s cfg.alias) cfg (cnt s.counter cfg.alias + 1) args) (k (.ret cfg.default))
        | none =>
          match exec (setInt (addJournal (recordOutput (bump s cfg.alias) cfg (cnt s.counter cfg.alias + 1) args) (cfg.name, args)) true) body with
          | (s2, .out o) => exec (afterOutput cfg.alias (cnt s.counter cfg.alias + 1) (setInt s2 false) o) (k o)
          | (s2, .interrupt i) => (setInt s2 false, .interrupt i)

/-- `_execute_operation_func`: run the operation, capture its result / exception as the implicit output -/
def execOperationFunc (s : St) (p : Prog) : St × End :=
  match exec s p with
  | (s1, .interrupt i) => (s1, .interrupt i)
  | (s1, .out (.ret v)) =>
    let val := RVal.sent [v] []
    (if inPlaybackMode s1 then pushPlayback s1 (.outArgs opAlias 1) val else write s1 (.outArgs opAlias 1) val,
     .out (.ret v))
  | (s1, .out (.exc t)) =>
    if isFramework t then (s1, .out (.exc t))
    else
      let val := RVal.sent [.excForm t] []
      if inPlaybackMode s1 then
        (pushPlayback s1 (.outArgs opAlias 1) val, .out (.exc "OperationExceptionDuringPlayback"))
      else (write s1 (.outArgs opAlias 1) val, .out (.exc t))

/-- result of the metadata extractor: a mapping, or a failure (raises / returns junk) -/
inductive Extracted where
  | ok (fields : List (String × Val))
  | fails
  deriving Repr, Inhabited

structure OpCfg where
  cls : String                                   -- operation class name = category
  params : Params := {}                          -- registered via `recording_params` (default otherwise)
  extractor : Option Extracted := none           -- metadata extractor and what it yields for this run
  saveFails : Bool := false                      -- the cassette raises on save: storage fault
  unser : Data → Bool := fun _ => false          -- … or the recording holds a value the serializer rejects (`encode` raises)

/-- does `save_recording` raise for this recording?  (the failure is swallowed by the recording scope, l.98-104) -/
def OpCfg.saveFailsOn (cfg : OpCfg) (d : Data) : Bool := cfg.saveFails || cfg.unser d

def tick (s : St) : St × Nat :=
  match s.clock with
  | [] => (s, 0)
  | t :: rest => ({ s with clock := rest }, t)

def draw (s : St) : St × Q :=
  match s.draws with
  | [] => ({ s with drawn := s.drawn + 1 }, ⟨0, 1⟩)
  | d :: rest => ({ s with draws := rest, drawn := s.drawn + 1 }, d)

/-- `_should_sample_active_recording` -/
def shouldSample (s : St) (params : Params) (forced : Bool) : St × Bool :=
  if forced then (s, true)
  else if rateAlways params.rate then (s, true)
  else
    let (s1, d) := draw s
    (s1, drawKeeps d params.rate)

/-- the next PRNG draw -/
def headDraw (s : St) : Q :=
  match s.draws with
  | [] => ⟨0, 1⟩
  | d :: _ => d

/-- the documented keep rule once a recording reaches the end of its scope: forced, or rate >= 1, or draw <= rate -/
def keepDecision (forced : Bool) (params : Params) (d : Q) : Bool :=
  forced || params.rate.geOne || d.le params.rate

/-- a draw is consumed exactly when neither forcing nor a rate >= 1 decides -/
def drawsUsed (forced : Bool) (params : Params) : Nat :=
  if forced || params.rate.geOne then 0 else 1

/-- `S3TapeCassette._should_sample`: no calculator keeps everything; otherwise the same rule on the calculator's ratio -/
def s3ShouldSample (ratio : Option Q) (d : Q) : Bool :=
  match ratio with
  | none => true
  | some r => Q.cmp PlaybackModel.Source.s3RateAlwaysCmp r ⟨1, 1⟩ || Q.cmp PlaybackModel.Source.s3DrawKeepCmp d r

/-- is there an output whose key contains the reserved operation alias?  (`OPERATION_OUTPUT_ALIAS in o.key`) -/
def hasOpOutput (aliasContainsOp : String → Bool) : Data → Bool
  | [] => false
  | (.outArgs a _, _) :: rest => aliasContainsOp a || hasOpOutput aliasContainsOp rest
  | (.input _ _ _ _, _) :: rest => hasOpOutput aliasContainsOp rest
  | (.outRes _ _, _) :: rest => hasOpOutput aliasContainsOp rest
  | (.free _, _) :: rest => hasOpOutput aliasContainsOp rest

/-- substring test on alias text, supplied concretely by the driver; in theorems only its value on `opAlias` matters -/
structure AliasOracle where
  containsOp : String → Bool
  self : containsOp opAlias = true

/-- `_add_post_operation_metadata` -/
def postMeta (ao : AliasOracle) (cfg : OpCfg) (data : Data) (excFlag : Option Bool) (duration : Int) : Meta :=
  { cls := cfg.cls, excFlag := excFlag, duration := duration,
    incomplete := !(hasOpOutput ao.containsOp data),
    user := match cfg.extractor with
      | some (.ok fields) => fields
      | some .fails => []
      | none => [] }

def saveRecording (s : St) (cfg : OpCfg) (r : Recording) : St :=
  let s1 := addLog s (.save r.id)
  if cfg.saveFailsOn r.data then s1 else { s1 with store := r :: s1.store }

/-- the `finally` block of `start_recording` -/
def finishRecording (ao : AliasOracle) (cfg : OpCfg) (s : St) (excFlag : Option Bool) (tStart : Nat) : St :=
  match s.active with
  | none => s                                     -- the recording was discarded
  | some a =>
    let forced := s.forced
    let s1 := resetActive s
    let (s2, keep) := shouldSample s1 a.params forced
    if !keep then addLog s2 (.abort a.id)
    else
      let (s3, tEnd) := tick s2
      let m := postMeta ao cfg a.data excFlag ((tEnd : Int) - (tStart : Int))
      saveRecording s3 cfg { id := a.id, data := a.data, md := m }

/-- `_tape_recorder_exception_in_operation`: set to False after a normal return, True in the `except Exception` arm,
left unset when a `BaseException` passes through -/
def excFlagOf : End → Option Bool
  | .out (.ret _) => some false
  | .out (.exc _) => some true
  | .interrupt _ => none

/-- `create_new_recording` + registration of the active recording in `start_recording` -/
def startRec (cfg : OpCfg) (s : St) : St :=
  addLog { s with active := some { id := s.nextId, data := [], params := cfg.params }, nextId := s.nextId + 1 }
    (.create s.nextId)

/-- the `@operation` decorator -/
def runOperation (ao : AliasOracle) (cfg : OpCfg) (s : St) (p : Prog) : St × End :=
  if inPlaybackMode s then execOperationFunc s p
  else if !s.enabled then exec s p
  else if cfg.params.skipped then exec s p
  else
    match s.active with
    | some _ => (s, .out (.exc "AssertionError"))   -- another recording is already running (K6)
    | none =>
      let (s1, tStart) := tick (startRec cfg s)
      let (s2, e) := execOperationFunc s1 p
      (finishRecording ao cfg s2 (excFlagOf e) tStart, e)

/-- outputs attached to a recording: keys of the `.output` shape (`_extract_recorded_output`) -/
def extractOutputs : Data → Data
  | [] => []
  | (.outArgs a n, v) :: rest => (.outArgs a n, v) :: extractOutputs rest
  | (.input _ _ _ _, _) :: rest => extractOutputs rest
  | (.outRes _ _, _) :: rest => extractOutputs rest
  | (.free _, _) :: rest => extractOutputs rest

def fetch (store : List Recording) (id : Nat) : Option Recording :=
  match store with
  | [] => none
  | r :: rest => if r.id = id then some r else fetch rest id

/-- `Recording._closed` (recording.py): set by `abort_recording`, and by a `save_recording` whose storage step succeeded
(`TapeCassette.save_recording` closes the recording after `_save_recording`; a save that raises leaves it open) -/
def isClosed (s : St) (id : Nat) : Bool := s.log.contains (.abort id) || (fetch s.store id).isSome

/-- `Recording.set_data` / `add_metadata` on the recording object `id` after the fact: a closed recording rejects the
write (`assert not self._closed`) -/
def lateWrite (s : St) (id : Nat) : Except String Unit :=
  if isClosed s id then .error "AssertionError" else .ok ()

inductive PlayResult where
  | played (playbackOutputs recordedOutputs : Data)     -- a `Playback` object
  | raised (t : String)                                 -- exception out of `play()`
  | interrupted (kind : String)
  deriving Repr, Inhabited

/-- `TapeRecorder.play(recording_id, playback_function)` where the playback function invokes the operation `p` -/
def runPlay (ao : AliasOracle) (cfg : OpCfg) (s : St) (id : Nat) (p : Prog) : St × PlayResult :=
  let s0 := addLog s (.get id)
  match fetch s.store id with
  | none => (s0, .raised "NoSuchRecording")
  | some r =>
    let (s0', _) := tick s0                          -- `start = time()`
    let s1 := { s0' with playback := some r }
    let (s2', e) := runOperation ao cfg s1 p
    let (s2, _) := tick s2'                          -- `playback_duration = time() - start` in the finally block
    let outs := s2.playbackOutputs
    let s3 := { s2 with playback := none, playbackOutputs := [], counter := [] }
    -- after the `finally` block: `recorded_duration = recording.get_metadata()[DURATION]` (KeyError without it)
    let fin : PlayResult := if r.md.hasDuration then .played outs (extractOutputs r.data) else .raised "KeyError"
    match e with
    | .interrupt i => (s3, .interrupted i)
    | .out (.ret _) => (s3, fin)
    | .out (.exc t) =>
      if t == "OperationExceptionDuringPlayback" then (s3, fin)
      else (s3, .raised t)

/-- the undecorated twin: every body runs, nothing else happens -/
def runPlain : List (String × Args) → Prog → List (String × Args) × End
  | j, .done e => (j, e)
  | j, .discard k => runPlain j k
  | j, .force k => runPlain j k
  | j, .recordData _ _ k => runPlain j k
  | j, .setEnabled _ k => runPlain j k
  | j, .playData _ k => runPlain j (k (.ret (.atom "None")))
  | j, .callIn cfg args body k =>
    match runPlain (j ++ [(cfg.name, args)]) body with
    | (j1, .out o) => runPlain j1 (k o)
    | (j1, .interrupt i) => (j1, .interrupt i)
  | j, .callOut cfg args body k =>
    match runPlain (j ++ [(cfg.name, args)]) body with
    | (j1, .out o) => runPlain j1 (k o)
    | (j1, .interrupt i) => (j1, .interrupt i)

/-- a predicate on every intercepted-call node of a program (bodies and all continuations included) -/
def Prog.All (Qi : InCfg → Args → Prog → Prop) (Qo : OutCfg → Args → Prog → Prop) : Prog → Prop
  | .done _ => True
  | .callIn cfg args body k => Qi cfg args body ∧ body.All Qi Qo ∧ ∀ o, (k o).All Qi Qo
  | .callOut cfg args body k => Qo cfg args body ∧ body.All Qi Qo ∧ ∀ o, (k o).All Qi Qo
  | .discard k => k.All Qi Qo
  | .force k => k.All Qi Qo
  | .recordData _ _ k => k.All Qi Qo
  | .setEnabled _ k => k.All Qi Qo
  | .playData _ k => ∀ o, (k o).All Qi Qo

/-- idle: neither recording nor replaying, no sticky force, numbering restarted, suppression flag clear -/
def St.Idle (s : St) : Prop :=
  s.active = none ∧ s.forced = false ∧ s.counter = [] ∧ s.playback = none ∧ s.playbackOutputs = [] ∧ s.inInt = false

/-! ### histories of runs on one recorder -/
inductive Run where
  | op (cfg : OpCfg) (p : Prog)
  | play (cfg : OpCfg) (id : Nat) (p : Prog)
  | enable
  | disable

inductive RunResult where
  | op (e : End)
  | play (r : PlayResult)
  | unit

def execRun (ao : AliasOracle) (s : St) : Run → St × RunResult
  | .op cfg p => let r := runOperation ao cfg s p; (r.1, .op r.2)
  | .play cfg id p => let r := runPlay ao cfg s id p; (r.1, .play r.2)
  | .enable => (doSetEnabled s true, .unit)
  | .disable => (doSetEnabled s false, .unit)

def execAll (ao : AliasOracle) (s : St) : List Run → St
  | [] => s
  | r :: rest => execAll ao (execRun ao s r).1 rest

/-- a fresh recorder carrying only the components that legitimately persist between runs: the enabled switch, the
PRNG and clock positions, the cassette (id counter, stored recordings, call log) and the body journal -/
def St.freshLike (s : St) : St :=
  { enabled := s.enabled, draws := s.draws, drawn := s.drawn, clock := s.clock, nextId := s.nextId, store := s.store,
    log := s.log, journal := s.journal }

end PlaybackModel.Recorder
