/-! Model of `jsonpickle 0.9.3` (`encode(v, unpicklable=True)` / `decode`) over the standard `json` module, at token level.

  * `Val` / `Vals` / `Fields` : Python values of the faithful domain (DESIGN.md 4.3) as a mutual inductive.
    Floats are carried as their `repr` text, bytes as their quoted-printable text (what `quopri.encodestring` gives;
    `qpEncode` below is the executable transcription the driver uses for short byte strings), sets as the list of their
    members in the iteration order of the encoding process, dicts and object states as insertion-ordered fields.
  * `J` / `Js` / `JFs` : the JSON-safe tree `Pickler.flatten` builds (`flatten`), with its tags `py/tuple`, `py/set`,
    `py/bytes`, `py/object` + `py/state`, `py/type`.  `_flatten_dict_obj` sorts the items by key and
    `_flatten_key_value_pair` silently DROPS items whose key is a reserved tag name (`util.is_picklable`).
    An object whose `__dict__` is empty has `__getstate__() = None` on Python 3.11+, is written with `"py/state": null`
    and decodes to `None` (`_restore_state`): transcribed, and excluded from the faithful domain by `Val.WF`.
  * `Tok` : JSON tokens; `pr : J → List Tok` is `json.dumps` (default options), `pa` the parser (fuel based),
    `restore : J → Val` is `Unpickler._restore` on the encoder's image; `render : List Tok → String` produces the exact
    text `json.dumps` produces (separators `", "` and `": "`, `ensure_ascii=True`).
  * `encToks = pr ∘ flatten`, `decToks = restore ∘ pa`.
  Values are trees: `py/id` references to shared lists/objects are outside the model (DESIGN.md 4.3, 8). -/
namespace PlaybackModel.Codec

mutual
  inductive Val where
    | none | bool (b : Bool) | int (n : Int) | float (r : String) | str (s : String) | bytes (qp : String)
    | list (xs : Vals) | tuple (xs : Vals) | set (xs : Vals)
    | dict (fs : Fields) | obj (cls : String) (fs : Fields) | cls (name : String)
  inductive Vals where
    | nil | cons (x : Val) (xs : Vals)
  inductive Fields where
    | nil | cons (k : String) (v : Val) (fs : Fields)
end

mutual
  inductive J where
    | null | bool (b : Bool) | num (n : Int) | flt (r : String) | str (s : String)
    | arr (xs : Js) | obj (fs : JFs)
  inductive Js where
    | nil | cons (x : J) (xs : Js)
  inductive JFs where
    | nil | cons (k : String) (v : J) (fs : JFs)
end

instance : Inhabited Val := ⟨.none⟩
instance : Inhabited J := ⟨.null⟩

/-- `jsonpickle.tags.RESERVED` -/
def isReserved (k : String) : Bool :=
  k == "py/bytes" || k == "py/function" || k == "py/id" || k == "py/initargs" || k == "py/iterator" ||
  k == "py/newargs" || k == "py/newargsex" || k == "py/newobj" || k == "py/object" || k == "py/reduce" ||
  k == "py/ref" || k == "py/repr" || k == "py/seq" || k == "py/set" || k == "py/state" || k == "py/tuple" ||
  k == "py/type"

/-! ### list helpers -/
def Vals.toList : Vals → List Val
  | .nil => []
  | .cons x xs => x :: xs.toList

def Vals.ofList : List Val → Vals
  | [] => .nil
  | x :: xs => .cons x (Vals.ofList xs)

def Fields.toList : Fields → List (String × Val)
  | .nil => []
  | .cons k v fs => (k, v) :: fs.toList

def Fields.ofList : List (String × Val) → Fields
  | [] => .nil
  | (k, v) :: fs => .cons k v (Fields.ofList fs)

def Fields.keys : Fields → List String
  | .nil => []
  | .cons k _ fs => k :: fs.keys

def JFs.keys : JFs → List String
  | .nil => []
  | .cons k _ fs => k :: fs.keys

/-- sorted insertion by key (`sorted(obj.items(), key=…)`, code-point order of the keys) -/
def Fields.insert (k : String) (v : Val) : Fields → Fields
  | .nil => .cons k v .nil
  | .cons k' v' fs => if k < k' then .cons k v (.cons k' v' fs) else .cons k' v' (Fields.insert k v fs)

def Fields.sort : Fields → Fields
  | .nil => .nil
  | .cons k v fs => Fields.insert k v fs.sort

def JFs.insert (k : String) (v : J) : JFs → JFs
  | .nil => .cons k v .nil
  | .cons k' v' fs => if k < k' then .cons k v (.cons k' v' fs) else .cons k' v' (JFs.insert k v fs)

/-! ### Pickler.flatten -/
/-- `py/state` of an object: `None` when the instance dict is empty (object.__getstate__ on Python ≥ 3.11) -/
def stateJ (fs : Fields) (flat : JFs) : J :=
  match fs with
  | .nil => .null
  | .cons _ _ _ => .obj flat

mutual
  def flatten : Val → J
    | .none => .null
    | .bool b => .bool b
    | .int n => .num n
    | .float r => .flt r
    | .str s => .str s
    | .bytes qp => .obj (.cons "py/bytes" (.str qp) .nil)
    | .list xs => .arr (flattenL xs)
    | .tuple xs => .obj (.cons "py/tuple" (.arr (flattenL xs)) .nil)
    | .set xs => .obj (.cons "py/set" (.arr (flattenL xs)) .nil)
    | .dict fs => .obj (flattenF fs)
    | .obj c fs => .obj (.cons "py/object" (.str c) (.cons "py/state" (stateJ fs (flattenF fs)) .nil))
    | .cls n => .obj (.cons "py/type" (.str n) .nil)
  def flattenL : Vals → Js
    | .nil => .nil
    | .cons x xs => .cons (flatten x) (flattenL xs)
  /-- items sorted by key; items with a reserved key are dropped -/
  def flattenF : Fields → JFs
    | .nil => .nil
    | .cons k v fs => if isReserved k then flattenF fs else JFs.insert k (flatten v) (flattenF fs)
end

/-! ### Unpickler.restore (on the encoder's image; any other object is a plain dict) -/
mutual
  def restore : J → Val
    | .null => .none
    | .bool b => .bool b
    | .num n => .int n
    | .flt r => .float r
    | .str s => .str s
    | .arr xs => .list (restoreL xs)
    | .obj (.cons "py/bytes" (.str qp) .nil) => .bytes qp
    | .obj (.cons "py/tuple" (.arr xs) .nil) => .tuple (restoreL xs)
    | .obj (.cons "py/set" (.arr xs) .nil) => .set (restoreL xs)
    | .obj (.cons "py/type" (.str n) .nil) => .cls n
    | .obj (.cons "py/object" (.str _) (.cons "py/state" .null .nil)) => .none
    | .obj (.cons "py/object" (.str c) (.cons "py/state" (.obj fs) .nil)) => .obj c (restoreF fs)
    | .obj fs => .dict (restoreF fs)
  def restoreL : Js → Vals
    | .nil => .nil
    | .cons x xs => .cons (restore x) (restoreL xs)
  def restoreF : JFs → Fields
    | .nil => .nil
    | .cons k v fs => .cons k (restore v) (restoreF fs)
end

/-! ### what survives a round trip: dicts sorted by key, reserved keys dropped, attribute-less objects become None -/
def objCanon (c : String) (fs : Fields) (cfs : Fields) : Val :=
  match fs with
  | .nil => .none
  | .cons _ _ _ => .obj c cfs

mutual
  def canon : Val → Val
    | .none => .none
    | .bool b => .bool b
    | .int n => .int n
    | .float r => .float r
    | .str s => .str s
    | .bytes qp => .bytes qp
    | .list xs => .list (canonL xs)
    | .tuple xs => .tuple (canonL xs)
    | .set xs => .set (canonL xs)
    | .dict fs => .dict (canonF fs)
    | .obj c fs => objCanon c fs (canonF fs)
    | .cls n => .cls n
  def canonL : Vals → Vals
    | .nil => .nil
    | .cons x xs => .cons (canon x) (canonL xs)
  def canonF : Fields → Fields
    | .nil => .nil
    | .cons k v fs => if isReserved k then canonF fs else Fields.insert k (canon v) (canonF fs)
end

/- "equal up to dict order": the same value once every dict / object state is sorted by key -/
mutual
  def sortDicts : Val → Val
    | .none => .none
    | .bool b => .bool b
    | .int n => .int n
    | .float r => .float r
    | .str s => .str s
    | .bytes qp => .bytes qp
    | .list xs => .list (sortDictsL xs)
    | .tuple xs => .tuple (sortDictsL xs)
    | .set xs => .set (sortDictsL xs)
    | .dict fs => .dict (sortDictsF fs)
    | .obj c fs => .obj c (sortDictsF fs)
    | .cls n => .cls n
  def sortDictsL : Vals → Vals
    | .nil => .nil
    | .cons x xs => .cons (sortDicts x) (sortDictsL xs)
  def sortDictsF : Fields → Fields
    | .nil => .nil
    | .cons k v fs => Fields.insert k (sortDicts v) (sortDictsF fs)
end

/-! ### tokens, json.dumps, json.loads -/
inductive Tok where
  | lb | rb | lc | rc | comma | colon | null | tt | ff | num (n : Int) | flt (r : String) | str (s : String)
  deriving DecidableEq, Repr

mutual
  def pr : J → List Tok
    | .null => [.null]
    | .bool true => [.tt]
    | .bool false => [.ff]
    | .num n => [.num n]
    | .flt r => [.flt r]
    | .str s => [.str s]
    | .arr xs => .lb :: prs xs
    | .obj fs => .lc :: prf fs
  /-- elements after `[`, including the closing bracket -/
  def prs : Js → List Tok
    | .nil => [.rb]
    | .cons x .nil => pr x ++ [.rb]
    | .cons x (.cons y ys) => pr x ++ .comma :: prs (.cons y ys)
  def prf : JFs → List Tok
    | .nil => [.rc]
    | .cons k v .nil => .str k :: .colon :: pr v ++ [.rc]
    | .cons k v (.cons k' v' fs) => .str k :: .colon :: pr v ++ .comma :: prf (.cons k' v' fs)
end

mutual
  def pa : Nat → List Tok → Option (J × List Tok)
    | 0, _ => none
    | _+1, .null :: r => some (.null, r)
    | _+1, .tt :: r => some (.bool true, r)
    | _+1, .ff :: r => some (.bool false, r)
    | _+1, .num n :: r => some (.num n, r)
    | _+1, .flt x :: r => some (.flt x, r)
    | _+1, .str s :: r => some (.str s, r)
    | _+1, .lb :: .rb :: r => some (.arr .nil, r)
    | f+1, .lb :: r => (pas f r).map (fun (xs, r') => (.arr xs, r'))
    | _+1, .lc :: .rc :: r => some (.obj .nil, r)
    | f+1, .lc :: r => (paf f r).map (fun (fs, r') => (.obj fs, r'))
    | _+1, _ => none
  /-- one or more elements then `]` -/
  def pas : Nat → List Tok → Option (Js × List Tok)
    | 0, _ => none
    | f+1, ts =>
      match pa f ts with
      | some (x, .rb :: r) => some (.cons x .nil, r)
      | some (x, .comma :: r) => (pas f r).map (fun (xs, r') => (.cons x xs, r'))
      | _ => none
  def paf : Nat → List Tok → Option (JFs × List Tok)
    | 0, _ => none
    | f+1, .str k :: .colon :: ts =>
      match pa f ts with
      | some (v, .rc :: r) => some (.cons k v .nil, r)
      | some (v, .comma :: r) => (paf f r).map (fun (fs, r') => (.cons k v fs, r'))
      | _ => none
    | _+1, _ => none
end

def encToks (v : Val) : List Tok := pr (flatten v)

/-- parse one value off the front of a token stream and restore it -/
def decToks (ts : List Tok) : Option (Val × List Tok) :=
  match pa (2 * ts.length + 2) ts with
  | some (j, r) => some (restore j, r)
  | none => none

/-- `jsonpickle.decode` of a complete text -/
def decodeToks (ts : List Tok) : Option Val :=
  match decToks ts with
  | some (v, []) => some v
  | _ => none

/-! ### exact text of json.dumps (ensure_ascii=True, separators ", " and ": ") -/
def hexDigit (n : Nat) : Char :=
  if n < 10 then Char.ofNat (48 + n) else Char.ofNat (87 + n)

def hex4 (n : Nat) : String :=
  String.ofList [hexDigit (n / 4096 % 16), hexDigit (n / 256 % 16), hexDigit (n / 16 % 16), hexDigit (n % 16)]

/-- `json.encoder.ESCAPE_ASCII` / `ESCAPE_DCT`: everything outside `' '..'~'` is escaped, astral characters as a
surrogate pair -/
def escChar (c : Char) : String :=
  if c = '"' then "\\\"" else if c = '\\' then "\\\\" else if c = '\n' then "\\n" else if c = '\r' then "\\r"
  else if c = '\t' then "\\t" else if c.toNat = 8 then "\\b" else if c.toNat = 12 then "\\f"
  else if c.toNat < 32 ∨ c.toNat > 126 then
    if c.toNat < 65536 then "\\u" ++ hex4 c.toNat
    else
      let n := c.toNat - 65536
      "\\u" ++ hex4 (55296 + n / 1024 % 1024) ++ "\\u" ++ hex4 (56320 + n % 1024)
  else String.singleton c

def escString (s : String) : String :=
  s.toList.foldl (fun acc c => acc ++ escChar c) ""

def tokText : Tok → String
  | .lb => "[" | .rb => "]" | .lc => "{" | .rc => "}" | .comma => ", " | .colon => ": "
  | .null => "null" | .tt => "true" | .ff => "false"
  | .num n => toString n
  | .flt r => r
  | .str s => "\"" ++ escString s ++ "\""

def render (ts : List Tok) : String :=
  ts.foldl (fun acc t => acc ++ tokText t) ""

def encodeText (v : Val) : String := render (encToks v)

/-! ### quoted-printable text of a short byte string without CR / LF (binascii.b2a_qp, quotetabs=False)
Used by the driver to build `Val.bytes`; validated by differential execution only (no theorem mentions it). -/
def hexUp (n : Nat) : Char :=
  if n < 10 then Char.ofNat (48 + n) else Char.ofNat (55 + n)

def qpByte (b : Nat) (last : Bool) : String :=
  if b = 61 ∨ b > 126 ∨ (b < 32 ∧ b ≠ 9) ∨ ((b = 32 ∨ b = 9) ∧ last) then
    String.ofList ['=', hexUp (b / 16), hexUp (b % 16)]
  else String.singleton (Char.ofNat b)

def qpRest : List Nat → String
  | [] => ""
  | [b] => qpByte b true
  | b :: rest => qpByte b false ++ qpRest rest

/-- a leading `.` is written `=2E` when the data ends there or a NUL byte follows (binascii.b2a_qp) -/
def qpEncode : List Nat → String
  | [46] => "=2E"
  | 46 :: 0 :: rest => "=2E" ++ qpRest (0 :: rest)
  | bs => qpRest bs

/-! ### the faithful domain as predicates -/
def Fields.NoReserved : Fields → Prop
  | .nil => True
  | .cons k _ fs => isReserved k = false ∧ fs.NoReserved

/-- keys strictly increasing (a dict as `decode` returns it) -/
def Fields.Sorted : Fields → Prop
  | .nil => True
  | .cons _ _ .nil => True
  | .cons k _ (.cons k' v' fs) => k < k' ∧ (Fields.cons k' v' fs).Sorted

def Fields.DistinctKeys : Fields → Prop
  | .nil => True
  | .cons k _ fs => k ∉ fs.keys ∧ fs.DistinctKeys

def Fields.NonEmpty : Fields → Prop
  | .nil => False
  | .cons _ _ _ => True

mutual
  /-- The faithful domain (DESIGN.md 4.3) as far as the tree shape can express it.  Excluded, because jsonpickle 0.9.3
  does not give them back: (1) dict / object-state keys that are reserved tag names (`py/object`, `py/id`, … all of
  `tags.RESERVED`) - `_flatten_key_value_pair` silently drops such items on encode; (2) plain objects without any
  attribute - written with `"py/state": null` and decoded to `None`.  (NaN / inf, frozenset, non-string keys and lone
  surrogates have no constructor in `Val` at all; shared sub-objects are invisible to a tree.) -/
  def Val.WF : Val → Prop
    | .list xs | .tuple xs | .set xs => Vals.WF xs
    | .dict fs => Fields.WF fs ∧ fs.NoReserved
    | .obj _ fs => Fields.WF fs ∧ fs.NoReserved ∧ fs.NonEmpty
    | _ => True
  def Vals.WF : Vals → Prop
    | .nil => True
    | .cons x xs => x.WF ∧ xs.WF
  def Fields.WF : Fields → Prop
    | .nil => True
    | .cons _ v fs => v.WF ∧ fs.WF
end

mutual
  /-- every dict / object state has strictly increasing keys (the form `decode` returns) -/
  def Val.Canonical : Val → Prop
    | .list xs | .tuple xs | .set xs => Vals.Canonical xs
    | .dict fs => Fields.Canonical fs ∧ fs.Sorted
    | .obj _ fs => Fields.Canonical fs ∧ fs.Sorted
    | _ => True
  def Vals.Canonical : Vals → Prop
    | .nil => True
    | .cons x xs => x.Canonical ∧ xs.Canonical
  def Fields.Canonical : Fields → Prop
    | .nil => True
    | .cons _ v fs => v.Canonical ∧ fs.Canonical
end

mutual
  /-- no set anywhere inside (known finding K1: the encoding of a set follows its iteration order) -/
  def Val.SetFree : Val → Prop
    | .set _ => False
    | .list xs | .tuple xs => Vals.SetFree xs
    | .dict fs | .obj _ fs => Fields.SetFree fs
    | _ => True
  def Vals.SetFree : Vals → Prop
    | .nil => True
    | .cons x xs => x.SetFree ∧ xs.SetFree
  def Fields.SetFree : Fields → Prop
    | .nil => True
    | .cons _ v fs => v.SetFree ∧ fs.SetFree
end

mutual
  /-- every dict / object state has pairwise distinct keys (always true of a Python dict) -/
  def Val.Distinct : Val → Prop
    | .list xs | .tuple xs | .set xs => Vals.Distinct xs
    | .dict fs | .obj _ fs => Fields.Distinct fs ∧ fs.DistinctKeys
    | _ => True
  def Vals.Distinct : Vals → Prop
    | .nil => True
    | .cons x xs => x.Distinct ∧ xs.Distinct
  def Fields.Distinct : Fields → Prop
    | .nil => True
    | .cons _ v fs => v.Distinct ∧ fs.Distinct
end

end PlaybackModel.Codec
