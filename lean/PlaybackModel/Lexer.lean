import PlaybackModel.Codec
/-!
A character-level lexer for the text `render` produces (json.dumps with `ensure_ascii`): decoding of string literal bodies
(`dec` inverts `escChar`), number texts, punctuation and keywords, and `decodeText` = lex + parse + restore.  Executable,
import-free beyond the codec model; the proofs (`PlaybackProofs/Escape.lean`, `PlaybackProofs/Lex.lean`) show that it recovers
the tokens of every rendered stream.
-/
namespace PlaybackModel.Codec

def escL (c : Char) : List Char := (escChar c).toList

def hexVal (c : Char) : Option Nat :=
  if 48 ≤ c.toNat ∧ c.toNat ≤ 57 then some (c.toNat - 48)
  else if 97 ≤ c.toNat ∧ c.toNat ≤ 102 then some (c.toNat - 87) else none

/-- value of four hex digits -/
def hex4Val : List Char → Option (Nat × List Char)
  | a :: b :: c :: d :: rest =>
    match hexVal a, hexVal b, hexVal c, hexVal d with
    | some x, some y, some z, some w => some (((x * 16 + y) * 16 + z) * 16 + w, rest)
    | _, _, _, _ => none
  | _ => none

def simpleUnesc (y : Char) : Option Char :=
  if y = '"' then some '"' else if y = '\\' then some '\\' else if y = 'n' then some '\n' else if y = 'r' then some '\r'
  else if y = 't' then some '\t' else if y = 'b' then some (Char.ofNat 8) else if y = 'f' then some (Char.ofNat 12) else none

/-- decode ONE character of a JSON string literal body -/
def dec : List Char → Option (Char × List Char)
  | [] => none
  | x :: rest =>
    if x = '\\' then
      match rest with
      | [] => none
      | y :: rest' =>
        if y = 'u' then
          match hex4Val rest' with
          | none => none
          | some (n, r2) =>
            if 55296 ≤ n ∧ n < 56320 then
              match r2 with
              | a :: b :: r3 =>
                if a = '\\' ∧ b = 'u' then
                  match hex4Val r3 with
                  | some (m, r4) => some (Char.ofNat (65536 + (n - 55296) * 1024 + (m - 56320)), r4)
                  | none => none
                else none
              | _ => none
            else some (Char.ofNat n, r2)
        else (simpleUnesc y).map (fun c => (c, rest'))
    else some (x, rest)

def isNumChar (c : Char) : Bool := c.isDigit || c == '-' || c == '+' || c == '.' || c == 'e'

def takeNum : List Char → List Char × List Char
  | [] => ([], [])
  | c :: r => if isNumChar c then ((takeNum r).1.cons c, (takeNum r).2) else ([], c :: r)

/-- the body of a string literal up to the closing quote -/
def lexStr : Nat → List Char → List Char → Option (String × List Char)
  | 0, _, _ => none
  | f + 1, l, acc =>
    match l with
    | [] => none
    | c :: r =>
      if c = '"' then some (String.ofList acc.reverse, r)
      else match dec (c :: r) with
        | some (x, r') => lexStr f r' (x :: acc)
        | none => none

def hasFloatMark (l : List Char) : Bool := l.any (fun c => c == '.' || c == 'e')

def numStart (c : Char) : Bool := c.isDigit || c == '-'

def lexNum (l : List Char) : Option (Tok × List Char) :=
  if (takeNum l).1.isEmpty then none
  else if hasFloatMark (takeNum l).1 then some (.flt (String.ofList (takeNum l).1), (takeNum l).2)
  else (String.ofList (takeNum l).1).toInt?.map (fun n => (Tok.num n, (takeNum l).2))

/-- one token off the front of a text -/
def lexOne (f : Nat) (l : List Char) : Option (Tok × List Char) :=
  match l with
  | [] => none
  | c :: r =>
    if c = '[' then some (.lb, r) else if c = ']' then some (.rb, r)
    else if c = '{' then some (.lc, r) else if c = '}' then some (.rc, r)
    else if c = ',' then (match r with | x :: r' => if x = ' ' then some (.comma, r') else none | [] => none)
    else if c = ':' then (match r with | x :: r' => if x = ' ' then some (.colon, r') else none | [] => none)
    else if c = 'n' then (match r with | x :: y :: z :: r' => if x = 'u' ∧ y = 'l' ∧ z = 'l' then some (.null, r') else none | _ => none)
    else if c = 't' then (match r with | x :: y :: z :: r' => if x = 'r' ∧ y = 'u' ∧ z = 'e' then some (.tt, r') else none | _ => none)
    else if c = 'f' then (match r with | x :: y :: z :: w :: r' => if x = 'a' ∧ y = 'l' ∧ z = 's' ∧ w = 'e' then some (.ff, r') else none | _ => none)
    else if c = '"' then (lexStr f r []).map (fun p => (Tok.str p.1, p.2))
    else lexNum (c :: r)

def Tok.isNumeric : Tok → Bool
  | .num _ => true
  | .flt _ => true
  | _ => false

/-- float texts as Python's `repr` writes finite floats: digits, sign, point, exponent; with a point or an exponent -/
def Tok.WF : Tok → Prop
  | .flt r => r.toList ≠ [] ∧ (∀ c ∈ r.toList, isNumChar c = true) ∧ hasFloatMark r.toList = true ∧
              (r.toList.head?.map numStart) = some true
  | _ => True

instance (t : Tok) : Decidable t.WF := by
  cases t <;> unfold Tok.WF <;> infer_instance

def txt (t : Tok) : List Char := (tokText t).toList

/-- all tokens of a text (`n` bounds the number of tokens, `f` the length of a string literal) -/
def lexAll : Nat → Nat → List Char → Option (List Tok)
  | _, _, [] => some []
  | 0, _, _ :: _ => none
  | n + 1, f, c :: r =>
    match lexOne f (c :: r) with
    | some (t, r') => (lexAll n f r').map (t :: ·)
    | none => none

/-- no number directly followed by a number (JSON always has punctuation in between) -/
def Sep : List Tok → Prop
  | [] => True
  | t :: r => (t.isNumeric = true → ∀ t', r.head? = some t' → t'.isNumeric = false) ∧ Sep r

def HeadNonNum (ts : List Tok) : Prop := ∀ t, ts.head? = some t → t.isNumeric = false

/-- `jsonpickle.decode` of a TEXT: lex it, then parse and restore the tokens -/
def decodeText (s : String) : Option Val :=
  (lexAll s.toList.length (s.toList.length + 1) s.toList).bind decodeToks

/-- lex as many tokens as possible off the front of a text -/
def lexMax : Nat → Nat → List Char → List Tok × List Char
  | 0, _, l => ([], l)
  | n + 1, f, l =>
    match lexOne f l with
    | some (t, r) => ((lexMax n f r).1.cons t, (lexMax n f r).2)
    | none => ([], l)

end PlaybackModel.Codec
