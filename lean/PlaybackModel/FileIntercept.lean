import PlaybackModel.Source
/-!
# File interception (C20) — model of `playback/interception/files/*.py`

Transcribes, as small total functions:

* `FileInterception._get_file_path`            → `filePath`      (keyword value if truthy, else `args[index]`)
* `FileInterception._is_file_above_size_limit` → `aboveLimit`    (`size / 2^20 > limit`, on exact rationals)
* `FileInterception._calculate_max_intercepted_size_limit` → `envLimit`, `Handler.mk'`
* `FileInterception._intercept_file`           → `prepare`       (size check BEFORE reading, placeholder above the limit)
* `_serialize_file` / `_deserialize_file`      → `b64` / `deserialize` (concrete standard-alphabet base64)
* `InputInterceptionFileDataHandler.restore_input_from_recording`  → `restoreInput` (writes at the REPLAYED call's path)
* `OutputInterceptionFileDataHandler.restore_output_from_recording` → `restoreOutput` (a holder)

The file system is a tiny model: an association list path ↦ bytes with a log of the paths opened for reading.
Import-free, executable.
-/
namespace PlaybackModel.FileIntercept

/-! ## base64 on naturals (bytes are naturals `< 256`; the `UInt8` wrappers are below) -/

/-- the `n`-th character (`n < 64`) of `ABC…XYZabc…xyz0123456789+/` as a code point -/
def enc6 (n : Nat) : Nat :=
  if n < 26 then 65 + n
  else if n < 52 then 71 + n
  else if n < 62 then n - 4
  else if n = 62 then 43
  else 47

/-- inverse of `enc6` on the alphabet -/
def dec6 (c : Nat) : Nat :=
  if 65 ≤ c ∧ c ≤ 90 then c - 65
  else if 97 ≤ c ∧ c ≤ 122 then c - 71
  else if 48 ≤ c ∧ c ≤ 57 then c + 4
  else if c = 43 then 62
  else 63

/-- `'='` -/
def pad : Nat := 61

/-- `base64.b64encode`: 3-byte groups → 4 characters, `=` padding for a last group of 1 or 2 bytes -/
def b64N : List Nat → List Nat
  | [] => []
  | [a] => [enc6 (a / 4), enc6 ((a % 4) * 16), pad, pad]
  | [a, b] => [enc6 (a / 4), enc6 ((a % 4) * 16 + b / 16), enc6 ((b % 16) * 4), pad]
  | a :: b :: c :: r =>
    enc6 (a / 4) :: enc6 ((a % 4) * 16 + b / 16) :: enc6 ((b % 16) * 4 + c / 64) :: enc6 (c % 64) :: b64N r

/-- `base64.b64decode` on well-formed text (4-character groups, padding only in the last group) -/
def unb64N : List Nat → List Nat
  | w :: x :: y :: z :: r =>
    if y = pad then [dec6 w * 4 + dec6 x / 16]
    else if z = pad then [dec6 w * 4 + dec6 x / 16, (dec6 x % 16) * 16 + dec6 y / 4]
    else (dec6 w * 4 + dec6 x / 16) :: ((dec6 x % 16) * 16 + dec6 y / 4) :: ((dec6 y % 4) * 64 + dec6 z) :: unb64N r
  | _ => []

abbrev Bytes := List UInt8

def toNats (bs : Bytes) : List Nat := bs.map UInt8.toNat
def ofNats (ns : List Nat) : Bytes := ns.map UInt8.ofNat

/-- `base64.b64encode(content)` -/
def b64 (bs : Bytes) : Bytes := ofNats (b64N (toNats bs))
/-- `base64.b64decode(text)` -/
def unb64 (bs : Bytes) : Bytes := ofNats (unb64N (toNats bs))

/-- `FileInterception.ABOVE_LIMIT_CONTENT = b'above interception limit'` -/
def placeholderN : List Nat := PlaybackModel.Source.aboveLimitContentBytes      -- as it stands in the source
def placeholder : Bytes := ofNats placeholderN

/-! ## size rule and limit -/

/-- a limit in MB as an exact rational `num / den` (`den > 0`): the harness passes `float.as_integer_ratio()` for an
explicit limit and `(n, 1)` for the integer read from the environment -/
structure Limit where
  num : Int
  den : Nat
  deriving Repr, DecidableEq

/-- `size / (1024.0 * 1024.0) > limit`; `size / 2^20` is exact in binary64 for every file size below 2^53 and Python
compares a float with an int or a float exactly, so the comparison is one of exact rationals -/
def aboveLimit (size : Nat) (lim : Limit) : Bool :=
  PlaybackModel.Atoms.Cmp.int PlaybackModel.Source.fileAboveCmp ((size : Int) * lim.den) (lim.num * (2 ^ 20 : Nat))
  -- the operator as it stands in the source; the theorems need it to mean `>` (PlaybackProofs: aboveLimit_def)

/-- `int(float(os.getenv('PLAYBACK_INTERCEPTED_FILE_SIZE_LIMIT', "500")))`: the value of `float(text)` arrives as its
exact ratio; `int(·)` truncates toward zero -/
def envLimit (env : Option (Int × Nat)) : Int :=
  match env with
  | none => (PlaybackModel.Source.defaultFileLimit : Nat)      -- as it stands in the source
  | some (n, d) => Int.tdiv n d

/-- `_calculate_max_intercepted_size_limit`: an explicit limit wins (even `0`), else the environment -/
def effectiveLimit (explicit : Option Limit) (env : Option (Int × Nat)) : Limit :=
  match explicit with
  | some l => l
  | none => { num := envLimit env, den := 1 }

/-! ## handler, arguments, path selection -/

/-- values that can sit in an argument position: `None`, a string (possibly empty), or some other (truthy) object such
as `self` or an unrelated argument -/
inductive PVal where
  | none
  | str (s : String)
  | other
  deriving Repr, DecidableEq

inductive Err where
  | indexError      -- args[index] out of range
  | typeError       -- path is None or not a path
  | osError         -- no such file
  deriving Repr, DecidableEq

structure Handler where
  index : Nat
  name : String
  limit : Limit
  deriving Repr

def PVal.truthy : PVal → Bool
  | .none => false
  | .str s => s != ""
  | .other => true

/-- `file_path = kwargs.get(name); if not file_path: file_path = args[index]` -/
def filePath (h : Handler) (args : List PVal) (kwargs : List (String × PVal)) : Except Err PVal :=
  match kwargs.lookup h.name with
  | some v =>
    if v.truthy then .ok v
    else match args[h.index]? with
      | some a => .ok a
      | none => .error .indexError
  | none =>
    match args[h.index]? with
    | some a => .ok a
    | none => .error .indexError

/-! ## a tiny file system -/

structure FS where
  files : List (String × Bytes)
  reads : List String            -- paths opened for reading, most recent first
  deriving Repr

def FS.get (fs : FS) (p : String) : Option Bytes := fs.files.lookup p
def FS.size (fs : FS) (p : String) : Option Nat := (fs.get p).map List.length
/-- `open(p, 'rb').read()`: logged -/
def FS.readFile (fs : FS) (p : String) : FS × Option Bytes := ({ fs with reads := p :: fs.reads }, fs.get p)
/-- `open(p, 'wb').write(bs)`: creates or replaces -/
def FS.write (fs : FS) (p : String) (bs : Bytes) : FS := { fs with files := (p, bs) :: fs.files }

/-! ## the envelope -/

structure Envelope where
  path : PVal
  content : Bytes
  deriving Repr, DecidableEq

/-- `_intercept_file`: resolve the path, check the size (a `stat`, no read), then either the placeholder or the
base64 of the bytes read -/
def prepare (fs : FS) (h : Handler) (args : List PVal) (kwargs : List (String × PVal)) : FS × Except Err Envelope :=
  match filePath h args kwargs with
  | .error e => (fs, .error e)
  | .ok .none => (fs, .error .typeError)
  | .ok .other => (fs, .error .typeError)
  | .ok (.str p) =>
    match fs.size p with
    | none => (fs, .error .osError)
    | some sz =>
      if aboveLimit sz h.limit then (fs, .ok { path := .str p, content := placeholder })
      else
        match fs.readFile p with
        | (fs', some bs) => (fs', .ok { path := .str p, content := b64 bs })
        | (fs', none) => (fs', .error .osError)

/-- the mutated order ("read before the size check") kept for the counterexample about the read log -/
def prepareReadFirst (fs : FS) (h : Handler) (args : List PVal) (kwargs : List (String × PVal)) : FS × Except Err Envelope :=
  match filePath h args kwargs with
  | .error e => (fs, .error e)
  | .ok .none => (fs, .error .typeError)
  | .ok .other => (fs, .error .typeError)
  | .ok (.str p) =>
    match fs.readFile p with
    | (fs', none) => (fs', .error .osError)
    | (fs', some bs) =>
      if aboveLimit bs.length h.limit then (fs', .ok { path := .str p, content := placeholder })
      else (fs', .ok { path := .str p, content := b64 bs })

/-- what a cassette does to the envelope between `save_recording` and `get_recording().get_data(key)`: a dict of a
string and a bytes value is in the faithful domain of the codec (C07), so the trip is the identity; the
correspondence check runs it through all three real cassettes -/
def cassetteRT (e : Envelope) : Envelope := e

/-- `_deserialize_file`: the STORED text is compared with the placeholder, not the decoded one -/
def deserialize (e : Envelope) : PVal × Bytes :=
  if e.content ≠ placeholder then (e.path, unb64 e.content) else (e.path, e.content)

/-- the mutated comparison ("compare the decoded content to the placeholder") kept for a counterexample -/
def deserializeDecodedCompare (e : Envelope) : PVal × Bytes :=
  if unb64 e.content ≠ placeholder then (e.path, unb64 e.content) else (e.path, e.content)

/-- `restore_input_from_recording(recorded, args, kwargs)`: the file is written at the path named by the REPLAYED
call; the recorded path is ignored -/
def restoreInput (fs : FS) (h : Handler) (e : Envelope) (args : List PVal) (kwargs : List (String × PVal)) :
    FS × Except Err String :=
  match filePath h args kwargs with
  | .error err => (fs, .error err)
  | .ok .none => (fs, .error .typeError)
  | .ok .other => (fs, .error .typeError)
  | .ok (.str p) => (fs.write p (deserialize e).2, .ok p)

structure Holder where
  content : Bytes
  path : PVal
  deriving Repr, DecidableEq

/-- `restore_output_from_recording(recorded)` -/
def restoreOutput (e : Envelope) : Holder :=
  { content := (deserialize e).2, path := (deserialize e).1 }

/-- `InterceptedOutputFileHolder.to_file(path)` -/
def Holder.toFile (hd : Holder) (fs : FS) (p : String) : FS := fs.write p hd.content

end PlaybackModel.FileIntercept
