import PlaybackModel.S3
/-
Model of recording lookup on the three cassettes (the code as it is now, with the `fix:` commits F4 5bb1e5d,
F5 1e2f7eb, F6 4c0afec in):

  `InMemoryTapeCassette.iter_recording_ids`   in_memory_tape_cassette.py l.55-76
  `FileBasedTapeCassette.iter_recording_ids`  file_based_tape_cassette.py l.69-110 (+ `_get_recording_file_path`, `get_recording`)
  `S3TapeCassette.iter_recording_ids`         s3_tape_cassette.py l.310-348 (model in `PlaybackModel/S3.lean`)
  `find_matching_recording_ids`               studio/recordings_lookup.py l.27-49

and the specification `matching` they are compared with.  The metadata matcher is `PlaybackModel.MetaFilter`.
-/
namespace PlaybackModel.Lookup
open PlaybackModel.MetaFilter PlaybackModel.S3

/-- a saved recording as lookup sees it -/
structure Rec where
  id : String
  md : Meta
  deriving Repr, Inhabited

inductive LErr where
  | typeError
  | noSuchRecording
  deriving Repr, DecidableEq, Inhabited

def liftErr {α : Type} : Except Err α → Except LErr α
  | .ok a => .ok a
  | .error .typeError => .error .typeError

/-- `extract_recording_category`: `recording_id.split('/')[0]` -/
def category (id : String) : String := String.ofList (id.toList.takeWhile (· != '/'))

/-- `'{}/{}'.format(category, rest)` – the shape of every id any cassette hands out -/
def mkId (cat rest : String) : String := cat ++ "/" ++ rest

/-- Python truthiness of the matcher's answer inside `if not match(...)` -/
def truthy : Except Err Bool → Bool
  | .ok true => true
  | .ok false => false
  | .error _ => false

/-! ### specification -/

/-- the recordings of exactly category `cat` whose metadata – as the cassette reads it back (`view`) – satisfies `f` -/
def matching (glob : String → String → Bool) (view : Meta → Meta) (saved : List Rec) (cat : String) (f : Meta) :
    List Rec :=
  saved.filter (fun r => category r.id == cat && truthy (matchMeta glob f (view r.md)))

/-! ### in-memory cassette -/

/-- the loop body of l.57-66: category test, then `if metadata:` the shared matcher -/
def keepMem (glob : String → String → Bool) (cat : String) (f : Meta) (r : Rec) : Except LErr Bool :=
  if category r.id != cat then .ok false
  else if f.isEmpty then .ok true
  else liftErr (matchMeta glob f r.md)

/-- `saved` is the `OrderedDict` in insertion order; `limit is not None` (F5); `shuffle` after the slice -/
def listMem (glob : String → String → Bool) (shuf : List String → List String) (saved : List Rec) (cat : String)
    (f : Meta) (lim : Option Nat) (random : Bool) : Except LErr (List String) :=
  match filterE (keepMem glob cat f) saved with
  | .error e => .error e
  | .ok rs =>
    let ids := takeOpt (PlaybackModel.Source.memLimitTest.limit lim) (rs.map (·.id))      -- the test as it stands in the source
    .ok (if random then shuf ids else ids)

/-! ### file-based cassette: the directory is a list of (file name, decoded content) in `os.listdir` order -/

/-- `_get_recording_file_path`: `recording_id.replace('/', '_') + '.json'` -/
def fileName (id : String) : String :=
  String.ofList (id.toList.map (fun ch => if ch = '/' then '_' else ch)) ++ ".json"

/-- everything before the last `.` of `cs` (`cs` holds a `.`) -/
def dropExt (cs : List Char) : List Char := ((cs.reverse.dropWhile (· != '.')).drop 1).reverse

/-- `os.path.splitext(file_name)[0]` (after F14; a listed name holds no path separator): the name up to its last `.`,
provided some character other than `.` precedes that dot - leading dots never start an extension - else the whole name -/
def stem (name : String) : String :=
  if PlaybackModel.Source.fileStemSplitext then           -- as it stands in the source
    let lead := name.toList.takeWhile (· == '.')
    let rest := name.toList.dropWhile (· == '.')
    if rest.contains '.' then String.ofList (lead ++ dropExt rest) else name
  else
    -- `file_name.split('.')[0]` (before F14)
    String.ofList (name.toList.takeWhile (· != '.'))

/-- `get_recording(recording_id)`: the file at the path of that id, or `NoSuchRecording` -/
def readFile (dir : List (String × Rec)) (id : String) : Except LErr Rec :=
  match dir.find? (fun e => e.1 == fileName id) with
  | some e => .ok e.2
  | none => .error .noSuchRecording

/-- the loop body of l.89-105 (after F4): file-name prefix pre-filter, load, exact category, shared matcher -/
def keepFile (glob : String → String → Bool) (dir : List (String × Rec)) (cat : String) (f : Meta)
    (entry : String × Rec) : Except LErr (Option String) :=
  if !startsWith entry.1 cat then .ok none
  else
    match readFile dir (stem entry.1) with
    | .error e => .error e
    | .ok r =>
      if category r.id != cat then .ok none
      else if f.isEmpty then .ok (some r.id)
      else
        match liftErr (matchMeta glob f r.md) with
        | .error e => .error e
        | .ok true => .ok (some r.id)
        | .ok false => .ok none

def filterMapE {ε α β : Type} (g : α → Except ε (Option β)) : List α → Except ε (List β)
  | [] => .ok []
  | x :: xs =>
    match g x with
    | .error e => .error e
    | .ok y =>
      match filterMapE g xs with
      | .error e => .error e
      | .ok r => .ok (match y with
        | some v => v :: r
        | none => r)

/-- `random_results` is ignored by this cassette -/
def listFile (glob : String → String → Bool) (dir : List (String × Rec)) (cat : String) (f : Meta)
    (lim : Option Nat) : Except LErr (List String) :=
  match filterMapE (keepFile glob dir cat f) dir with
  | .error e => .error e
  | .ok ids => .ok (takeOpt (PlaybackModel.Source.fileLimitTest.limit lim) ids)         -- the test as it stands in the source

/-- the directory after saving `saved` (distinct file names), before `os.listdir` permutes it -/
def dirOf (saved : List Rec) : List (String × Rec) := saved.map (fun r => (fileName r.id, r))

/-! ### S3 cassette (no time window here; C16 covers windows) -/

def dayStrNone : Nat → String := fun _ => ""

def listS3 (glob : String → String → Bool) (ch : Nat → Nat) (shuf : Bucket → Bucket) (c : Cfg) (b : Bucket)
    (cat : String) (f : Meta) (lim : Option Nat) (random : Bool) : Except LErr (List String) :=
  liftErr (iterRecordingIds glob dayStrNone prefixDays c b cat none none 0 f lim random ch shuf)

/-- the recordings a cassette with configuration `c` can discover in bucket `b`: one per metadata object -/
def s3Saved (c : Cfg) (b : Bucket) : List Rec :=
  (listPrefix b (metaRoot c)).map (fun e => ⟨idOfKey c e.1, e.2.md⟩)

/-! ### the three cassettes behind one interface -/

inductive Store where
  | mem (saved : List Rec)
  | file (dir : List (String × Rec))
  | s3 (c : Cfg) (b : Bucket)

/-- the external nondeterminism of a listing: `fnmatch`, `random.shuffle` (ids / S3 objects), `random.choice` -/
structure Env where
  glob : String → String → Bool
  shufIds : List String → List String
  shufObjs : Bucket → Bucket
  ch : Nat → Nat

def Store.saved : Store → List Rec
  | .mem saved => saved
  | .file dir => dir.map (·.2)
  | .s3 c b => s3Saved c b

/-- how the cassette's filter sees stored metadata: decoded (memory, file) or the raw JSON text (S3, K3) -/
def Store.view : Store → Meta → Meta
  | .mem _ => id
  | .file _ => id
  | .s3 _ _ => jsonViewFields

def list (env : Env) : Store → String → Meta → Option Nat → Bool → Except LErr (List String)
  | .mem saved, cat, f, lim, random => listMem env.glob env.shufIds saved cat f lim random
  | .file dir, cat, f, lim, _ => listFile env.glob dir cat f lim
  | .s3 c b, cat, f, lim, random => listS3 env.glob env.ch env.shufObjs c b cat f lim random

/-- `get_recording(id)` succeeds -/
def Store.fetchable : Store → String → Bool
  | .mem saved, id => saved.any (fun r => r.id == id)
  | .file dir, id => dir.any (fun e => e.1 == fileName id)
  | .s3 c b, id => S3.fetchable c b id

/-! ### `find_matching_recording_ids` -/

def incompleteKey : String := "_tape_recorder_incomplete_recording"

/-- `d[k] = v` on an insertion-ordered dict -/
def setKey (k : String) (v : MVal) : Meta → Meta
  | [] => [(k, v)]
  | (k', v') :: rest => if k' = k then (k, v) :: rest else (k', v') :: setKey k v rest

/-- l.40-44: with `skip_incomplete` the filter gains `{incomplete: [False, None]}` (`None`/`{}` are both `[]` here) -/
def lookupFilter (f : Meta) (skipIncomplete : Bool) : Meta :=
  if skipIncomplete then setKey incompleteKey (.list [.bool false, .none]) f else f

def findMatching (env : Env) (st : Store) (cat : String) (f : Meta) (lim : Option Nat) (random skipIncomplete : Bool) :
    Except LErr (List String) :=
  list env st cat (lookupFilter f skipIncomplete) lim random

/-- the same with the filter given as a scalar (a mutation of the code, for a counterexample) -/
def lookupFilterScalar (f : Meta) (skipIncomplete : Bool) : Meta :=
  if skipIncomplete then setKey incompleteKey (.bool false) f else f

end PlaybackModel.Lookup
