/-
Decision atoms: the comparison operators, operator tables and literal constants that `tools/gen_source_lean.py` reads out
of the repository's source (AST) on every run and writes to `PlaybackModel/Source.lean`.  The models CONSUME those atoms,
so the theorems are re-checked against what the code says now: a `<=` that became `<` in the source changes the model and
breaks the proof obligation that depends on it.  This file is the (hand-written, committed) vocabulary of the atoms.
-/
namespace PlaybackModel.Atoms

/-- a Python comparison operator `a <op> b` -/
inductive Cmp where
  | eq | lt | le | gt | ge
  deriving Repr, DecidableEq, Inhabited

def Cmp.nat : Cmp → Nat → Nat → Bool
  | .eq, a, b => decide (a = b)
  | .lt, a, b => decide (a < b)
  | .le, a, b => decide (a ≤ b)
  | .gt, a, b => decide (b < a)
  | .ge, a, b => decide (b ≤ a)

def Cmp.int : Cmp → Int → Int → Bool
  | .eq, a, b => decide (a = b)
  | .lt, a, b => decide (a < b)
  | .le, a, b => decide (a ≤ b)
  | .gt, a, b => decide (b < a)
  | .ge, a, b => decide (b ≤ a)

/-- how an optional argument is tested: `x is not None` or plain truthiness (`if x:`), under which `0` counts as absent -/
inductive NoneTest where
  | isNotNone | truthy
  deriving Repr, DecidableEq, Inhabited

/-- the limit that is applied, given how `limit` is tested -/
def NoneTest.limit : NoneTest → Option Nat → Option Nat
  | .isNotNone, l => l
  | .truthy, some 0 => none
  | .truthy, l => l

/-- how the number of day folders of a window is counted: difference of the calendar dates (`end.date() - start.date()`),
or whole 24 h periods of the elapsed time (`end - start`) -/
inductive DayCount where
  | calendar | elapsed
  deriving Repr, DecidableEq, Inhabited

/-- a chain of `if key == lit_i: result = …` statements (not `elif`): the LAST entry whose literal equals the key decides -/
def lastMatch {α : Type} (table : List (String × α)) (key : String) : Option α :=
  table.foldl (fun acc e => if e.1 = key then some e.2 else acc) none

end PlaybackModel.Atoms
