/-!
# Model of `AsyncRecordOnlyTapeCassette` (buffer / flusher / stop) as a transition system  — property C12

Transcribes `playback/tape_cassettes/asynchronous/async_record_only_tape_cassette.py`:

* `_add_async_operation` (l.80-87): `with self._lock: buffer.append(func)`            → step `produce i`
* `_recording_loop` (l.97-109): `while not stop.is_set(): flush(); stop.wait(interval)`; then one final `flush()`
                                                                                       → steps `check`, `timer`
* `_flush_recording` (l.111-127): `with self._lock: cur = buffer; buffer = []`         → steps `lock`, `swap`
  then, OUTSIDE the lock, `for op in cur: try: op() except Exception: log`             → step `exec`
* `close` (l.42-56): `stop.set()`; join; close wrapped                                 → step `close`

A schedule is an arbitrary `List Step`; a step that is not enabled is a no-op, so every list is a schedule and the
theorems quantify over all interleavings of any number of producers, the flusher, the timer and `close`.

The wrapped cassette is a parameter: a state type `W` and `app : W → Op → W × Bool` (new state, "did not raise").
`Store`/`applyOp` below is the concrete spy cassette the driver and the harness use.

`Cfg` selects the code as it is (`Cfg.code`) or one of three broken variants used only by counterexample theorems.
-/
namespace PlaybackModel.Async

/-- what a recording operation does to the wrapped recording / cassette -/
inductive Kind where
  | setData (key val : Nat)
  | addMeta (key val : Nat)
  | save
  deriving DecidableEq, Repr

/-- one buffered operation (a lambda in the code).  `prod`/`seq`: requesting producer and position in its program
(identity, ghost); `rec`: the wrapped recording it targets; `poison`: the wrapped call raises before doing anything -/
structure Op where
  prod : Nat
  seq : Nat
  recId : Nat
  kind : Kind
  poison : Bool
  deriving DecidableEq, Repr

/-- where the flusher thread is.  `final = true`: the stop event was seen set, this is the flush after the loop. -/
inductive Fl where
  | atTop                                  -- about to evaluate `while not self._stop_event.is_set()`
  | ready (final : Bool)                   -- inside `_flush_recording`, about to take the lock
  | locked (final : Bool)                  -- holds the lock, about to swap the buffer
  | batch (final : Bool) (rest : List Op)  -- lock released, `rest` (non-empty) still to execute
  | waiting                                -- inside `self._stop_event.wait(interval)`
  | stopped                                -- `_recording_loop` returned
  deriving DecidableEq, Repr

/-- names used in DESIGN.md -/
abbrev Fl.swapped (rest : List Op) : Fl := .batch false rest
abbrev Fl.finalSwapped (rest : List Op) : Fl := .batch true rest

structure Cfg where
  /-- the flush after the loop (l.107-108) exists -/
  finalFlush : Bool := true
  /-- a failing operation is logged and the batch continues (l.123-127); `false` = `break` -/
  continueAfterFailure : Bool := true
  /-- the `with self._lock` block ends before the operations are executed (l.118-120) -/
  releaseBeforeExec : Bool := true
  deriving DecidableEq, Repr

/-- the code as it is -/
def Cfg.code : Cfg := {}

structure St (W : Type) where
  pending : List (List Op)      -- per producer: operations not yet requested, program order
  buf : List Op                 -- `_recording_operation_buffer`
  lock : Bool                   -- `_lock` is held (only ever by the flusher across steps; a producer's critical
                                --  section is the single atomic step `produce`)
  fl : Fl
  stop : Bool                   -- `_stop_event`
  store : W                     -- the wrapped cassette
  applied : List (Op × Bool)    -- calls that reached the wrapped cassette, in order, with "did not raise"
  appended : List Op            -- ghost: lock-acquisition (append) order
  beforeClose : List Op         -- ghost: `appended` at the moment `close()` set the stop event
  deriving Repr

inductive Step where
  | produce (i : Nat)   -- producer i appends its next operation (lock; append; unlock)
  | check               -- flusher evaluates the loop condition
  | lock                -- flusher acquires the lock
  | swap                -- flusher swaps the buffer and releases the lock
  | exec                -- flusher calls the next operation of its batch, catching `Exception`
  | timer               -- `wait` returns (interval elapsed or event set)
  | close               -- `close()` sets the stop event
  deriving DecidableEq, Repr

/-- take the next operation of producer `i` -/
def popAt : List (List Op) → Nat → Option (Op × List (List Op))
  | [], _ => none
  | [] :: _, 0 => none
  | (o :: r) :: ps, 0 => some (o, r :: ps)
  | p :: ps, i + 1 =>
    match popAt ps i with
    | some (o, ps') => some (o, p :: ps')
    | none => none

/-- flusher position after the batch shrank to `rest` -/
def nextFl (final : Bool) : List Op → Fl
  | [] => if final then .stopped else .waiting
  | o :: r => .batch final (o :: r)

/-- operations swapped out of the buffer and not yet executed -/
def batchRest : Fl → List Op
  | .batch _ r => r
  | _ => []

def St.setFl {W} (s : St W) (f : Fl) : St W := { s with fl := f }

def St.append {W} (s : St W) (o : Op) (ps : List (List Op)) : St W :=
  { s with pending := ps, buf := s.buf ++ [o], appended := s.appended ++ [o] }

def St.doClose {W} (s : St W) : St W := { s with stop := true, beforeClose := s.appended }

def St.doLock {W} (s : St W) (f : Bool) : St W := { s with fl := .locked f, lock := true }

def St.doSwap {W} (cfg : Cfg) (s : St W) (f : Bool) : St W :=
  { s with fl := nextFl f s.buf, buf := [],
           lock := match s.buf with
                   | [] => false
                   | _ :: _ => !cfg.releaseBeforeExec }

def St.doExec {W} (cfg : Cfg) (app : W → Op → W × Bool) (s : St W) (f : Bool) (o : Op) (r : List Op) : St W :=
  let res := app s.store o
  let r' := if res.2 || cfg.continueAfterFailure then r else []
  { s with store := res.1, applied := s.applied ++ [(o, res.2)], fl := nextFl f r',
           lock := match r' with
                   | [] => false
                   | _ :: _ => s.lock }

def step {W} (cfg : Cfg) (app : W → Op → W × Bool) (s : St W) : Step → St W
  | .produce i =>
    if s.lock then s else
      match popAt s.pending i with
      | some (o, ps) => s.append o ps
      | none => s
  | .close => if s.stop then s else s.doClose
  | .check =>
    match s.fl with
    | .atTop => if s.stop then (if cfg.finalFlush then s.setFl (.ready true) else s.setFl .stopped)
                else s.setFl (.ready false)
    | _ => s
  | .lock =>
    match s.fl with
    | .ready f => if s.lock then s else s.doLock f
    | _ => s
  | .swap =>
    match s.fl with
    | .locked f => s.doSwap cfg f
    | _ => s
  | .exec =>
    match s.fl with
    | .batch f (o :: r) => s.doExec cfg app f o r
    | _ => s
  | .timer =>
    match s.fl with
    | .waiting => s.setFl .atTop
    | _ => s

def run {W} (cfg : Cfg) (app : W → Op → W × Bool) (s : St W) (sched : List Step) : St W :=
  sched.foldl (step cfg app) s

def init {W} (w0 : W) (ps : List (List Op)) : St W :=
  { pending := ps, buf := [], lock := false, fl := .atTop, stop := false, store := w0, applied := [],
    appended := [], beforeClose := [] }

/-- producer `i` can append right now (it has something to append and would not wait for the lock) -/
def canProduce {W} (s : St W) (i : Nat) : Bool := !s.lock && (popAt s.pending i).isSome

/-- synchronous recording: apply the requests directly to the wrapped cassette, one after the other (a raising call is
reported to the caller and the next request is made) -/
def syncRun {W} (app : W → Op → W × Bool) : W → List Op → W × List (Op × Bool)
  | w, [] => (w, [])
  | w, o :: os =>
    let res := app w o
    let rest := syncRun app res.1 os
    (rest.1, (o, res.2) :: rest.2)

/-- executable entry point for the driver: the order in which operations reach the wrapped cassette under `sched` -/
def appliedOrder {W} (cfg : Cfg) (app : W → Op → W × Bool) (w0 : W) (ps : List (List Op)) (sched : List Step) :
    List (Op × Bool) :=
  (run cfg app (init w0 ps) sched).applied

/-! ## The concrete wrapped cassette (in-memory spy) -/

/-- a wrapped `MemoryRecording` plus what the in-memory cassette has stored for it -/
structure RecSt where
  data : List (Nat × Nat) := []
  md : List (Nat × Nat) := []
  closed : Bool := false
  saved : Option (List (Nat × Nat) × List (Nat × Nat)) := none   -- snapshot taken by `_save_recording`
  deriving DecidableEq, Repr

/-- dict assignment: replace in place, else add at the end (insertion order, like a Python dict) -/
def setKV : List (Nat × Nat) → Nat → Nat → List (Nat × Nat)
  | [], k, v => [(k, v)]
  | (k', v') :: t, k, v => if k' = k then (k, v) :: t else (k', v') :: setKV t k v

/-- `Recording.set_data` / `add_metadata` assert `not self._closed`; `TapeCassette.save_recording` stores, then closes -/
def applyRec (r : RecSt) : Kind → RecSt × Bool
  | .setData k v => if r.closed then (r, false) else ({ r with data := setKV r.data k v }, true)
  | .addMeta k v => if r.closed then (r, false) else ({ r with md := setKV r.md k v }, true)
  | .save => ({ r with saved := some (r.data, r.md), closed := true }, true)

/-- the wrapped cassette: recording number ↦ state (a total function, so extensional reasoning is by `funext`) -/
abbrev Store := Nat → RecSt

def Store.empty : Store := fun _ => {}

def applyOp (w : Store) (o : Op) : Store × Bool :=
  if o.poison then (w, false) else
    let res := applyRec (w o.recId) o.kind
    (fun n => if n = o.recId then res.1 else w n, res.2)

/-- state of recording `n` after applying only the operations that target it -/
def recAfter (r : RecSt) : List Op → RecSt
  | [] => r
  | o :: os => recAfter (if o.poison then r else (applyRec r o.kind).1) os

end PlaybackModel.Async
