/-!
# Heap model of aliasing (C11) — who can reach which Python object

Lean values are immutable, so sharing and in-place mutation get their own model: a heap of cells addressed by index.

* `MemoryRecording.get_data(k)` = `pickle_copy(get_data_direct(k))`   → `getData` = `copyAt` (fresh cells appended)
* `MemoryRecording.get_data_direct(k)` (the stored object itself)      → `Cfg.direct` variant (counterexample only)
* `MemoryRecording.get_metadata()` returns the live dict              → `getMeta` hands out the stored address
* `cassette.get_recording(id)` decodes the stored text anew          → `fetch` = `allocList` of the saved trees
* `cassette.save_recording` encodes the live objects into text        → `save` = `readD` of every root (immutable trees)
* `_execute_func_and_record_interception` (l.823-871): `recording[key] = {'value': pickle_copy(result) | result}`
                                                                       → `recordIn` (copy iff `copyOnIntercept`)
* `_record_output`: `{'args': list(args), 'kwargs': kwargs}` - by reference whatever the flag (known finding K4)
                                                                       → `recordOut`
* `TapeRecorder.play`: fetch, inject copies of recorded inputs into the replayed code, extract copies of the outputs
                                                                       → `replay`

The client (service code, replayed code, test code) is an arbitrary list of `ClientOp`s.  It can only *name* addresses it
has been handed or has allocated itself (`St.known`); `mutate` and the operations that take client addresses are no-ops
otherwise.  Import-free, executable.
-/
namespace PlaybackModel.Heap

scoped notation "Addr" => Nat

/-- a Python object: an immutable atom (rendered), or a container / instance with labelled references
(`kind` = "list" | "dict" | "set" | "tuple" | "obj:<Class>"; `labels` = dict keys / attribute names, empty for sequences) -/
inductive Cell where
  | atom (s : String)
  | node (kind : String) (labels : List String) (kids : List Addr)
  deriving Repr, DecidableEq

/-- what a reader sees from an address: the object graph unfolded (sharing is invisible, as in the encoded text) -/
inductive Tree where
  | atom (s : String)
  | node (kind : String) (labels : List String) (kids : List Tree)
  deriving Repr

mutual
  def Tree.decEq : (a b : Tree) → Decidable (a = b)
    | .atom s, .atom s' =>
      if h : s = s' then isTrue (by rw [h]) else isFalse (by intro h'; cases h'; exact h rfl)
    | .atom _, .node _ _ _ => isFalse (by intro h; cases h)
    | .node _ _ _, .atom _ => isFalse (by intro h; cases h)
    | .node k ls kids, .node k' ls' kids' =>
      if h1 : k = k' then
        if h2 : ls = ls' then
          match Tree.decEqList kids kids' with
          | isTrue h3 => isTrue (by rw [h1, h2, h3])
          | isFalse h3 => isFalse (by intro h; cases h; exact h3 rfl)
        else isFalse (by intro h; cases h; exact h2 rfl)
      else isFalse (by intro h; cases h; exact h1 rfl)
  def Tree.decEqList : (a b : List Tree) → Decidable (a = b)
    | [], [] => isTrue rfl
    | [], _ :: _ => isFalse (by intro h; cases h)
    | _ :: _, [] => isFalse (by intro h; cases h)
    | a :: as, b :: bs =>
      match Tree.decEq a b, Tree.decEqList as bs with
      | isTrue h1, isTrue h2 => isTrue (by rw [h1, h2])
      | isFalse h1, _ => isFalse (by intro h; cases h; exact h1 rfl)
      | _, isFalse h2 => isFalse (by intro h; cases h; exact h2 rfl)
end

instance : DecidableEq Tree := Tree.decEq

abbrev Heap := List Cell

def Cell.ptrs : Cell → List Addr
  | .atom _ => []
  | .node _ _ kids => kids

def optAll {α : Type} : List (Option α) → Option (List α)
  | [] => some []
  | none :: _ => none
  | some x :: r =>
    match optAll r with
    | some xs => some (x :: xs)
    | none => none

/-- read the tree under address `a` with `fuel` levels (a cyclic or dangling graph reads as `none`) -/
def hread (h : Heap) : Nat → Addr → Option Tree
  | 0, _ => none
  | f + 1, a =>
    match h[a]? with
    | none => none
    | some (.atom s) => some (.atom s)
    | some (.node k ls kids) =>
      match optAll (kids.map (hread h f)) with
      | some ts => some (.node k ls ts)
      | none => none

def unreadable : Tree := .atom "<unreadable>"

/-- the value under `a` (enough fuel for every acyclic heap) -/
def readD (h : Heap) (a : Addr) : Tree := (hread h (h.length + 1) a).getD unreadable

mutual
  /-- build a fresh object graph for a tree: children first, then the node; only appends -/
  def alloc : Heap → Tree → Heap × Addr
    | h, .atom s => (h ++ [.atom s], h.length)
    | h, .node k ls kids =>
      let r := allocList h kids
      (r.1 ++ [.node k ls r.2], r.1.length)
  def allocList : Heap → List Tree → Heap × List Addr
    | h, [] => (h, [])
    | h, t :: ts =>
      let r1 := alloc h t
      let r2 := allocList r1.1 ts
      (r2.1, r1.2 :: r2.2)
end

mutual
  def Tree.depth : Tree → Nat
    | .atom _ => 0
    | .node _ _ kids => depthList kids + 1
  def depthList : List Tree → Nat
    | [] => 0
    | t :: ts => max t.depth (depthList ts)
end

/-- `pickle_copy`: decode(encode(v)) - a fresh graph for what is read under `a` -/
def copyAt (h : Heap) (a : Addr) : Heap × Addr := alloc h (readD h a)

/-- in-place mutation of one object -/
def write (h : Heap) (a : Addr) (c : Cell) : Heap := h.set a c

/-- the addresses visited when reading from `a` with `fuel` levels -/
def reach (h : Heap) : Nat → Addr → List Addr
  | 0, _ => []
  | f + 1, a =>
    match h[a]? with
    | some (.node _ _ kids) => a :: (kids.map (reach h f)).flatten
    | _ => [a]

/-! ## recorder / cassette / client state -/

structure Block where
  lo : Nat
  hi : Nat
  deriving Repr, DecidableEq

/-- a live `MemoryRecording` object -/
structure RecObj where
  keys : List (String × Addr)      -- recording_data: key ↦ root of the stored value (first match wins)
  md : Addr                      -- recording_metadata, a live dict
  deriving Repr

/-- a saved recording: immutable encoded text, as the trees it denotes -/
structure Saved where
  data : List (String × Tree)
  md : Tree
  deriving Repr

structure Cfg where
  copyOnIntercept : Bool           -- RecordingParameters.copy_data_on_intercepion
  direct : Bool                    -- the broken variant: get_data returns get_data_direct
  deriving Repr

structure St where
  heap : Heap
  known : List Addr                -- K: what the client has been handed or has allocated
  store : List Saved               -- the cassette; recording id = index
  recs : List RecObj               -- live recording objects, in creation order (index = handle of the object)
  owned : List Block               -- address ranges private to recordings (bookkeeping for the proofs)
  active : List (String × Addr)    -- the recording in progress: key ↦ root
  handed : List Addr               -- the values handed to the client, in order (index = handle of the value)
  deriving Repr

def init (store : List Saved) : St :=
  { heap := [], known := [], store := store, recs := [], owned := [], active := [], handed := [] }

inductive ClientOp where
  | fetch (id : Nat)                                   -- cassette.get_recording(id)
  | getData (r : Nat) (k : String)                     -- recs[r].get_data(k) / recs[r][k] / play_data(k) / injection
  | getMeta (r : Nat)                                  -- recs[r].get_metadata(): the live dict
  | setData (r : Nat) (k : String) (a : Addr)          -- recs[r][k] = <client value>
  | new (t : Tree)                                     -- the client builds a value
  | mutate (a : Addr) (c : Cell)                       -- in-place mutation of an object the client can name
  | replay (id : Nat)                                  -- TapeRecorder.play: fetch + a copy of every key handed out
  | recordIn (k : String) (a : Addr)                   -- intercepted input value / output result captured
  | recordOut (k : String) (args : List Addr) (kwl : List String) (kwa : List Addr)   -- output arguments captured
  | recordRaw (k : String) (a : Addr)                  -- TapeRecorder.record_data(k, v): stored by reference
  | save (md : Tree)                                 -- save_recording of the active recording
  deriving Repr

def range' (lo hi : Nat) : List Nat := List.range' lo (hi - lo)

def assocSet (l : List (String × Addr)) (k : String) (v : Addr) : List (String × Addr) :=
  match l with
  | [] => [(k, v)]
  | (k', v') :: r => if k' = k then (k, v) :: r else (k', v') :: assocSet r k v

def allKnown (st : St) (as : List Addr) : Bool := as.all (fun a => st.known.contains a)

def fetch (st : St) (id : Nat) : St :=
  match st.store[id]? with
  | none => st                                            -- NoSuchRecording
  | some sv =>
    let r1 := allocList st.heap (sv.data.map (·.2))
    let r2 := alloc r1.1 sv.md
    -- the metadata graph is not private: `get_metadata()` returns the live dict, so its cells count as nameable by
    -- the client from the fetch on (an over-approximation of what the client was handed; the theorems get stronger)
    { st with
      heap := r2.1,
      known := st.known ++ range' r1.1.length r2.1.length,
      recs := st.recs ++ [{ keys := (sv.data.map (·.1)).zip r1.2, md := r2.2 }],
      owned := st.owned ++ [⟨st.heap.length, r1.1.length⟩] }

def rootOf (st : St) (r : Nat) (k : String) : Option Addr :=
  match st.recs[r]? with
  | none => none
  | some ro => ro.keys.lookup k

def getData (cfg : Cfg) (st : St) (r : Nat) (k : String) : St :=
  match rootOf st r k with
  | none => st                                            -- RecordingKeyError
  | some root =>
    if cfg.direct then
      { st with known := st.known ++ [root], handed := st.handed ++ [root] }
    else
      let c := copyAt st.heap root
      { st with heap := c.1, known := st.known ++ range' st.heap.length c.1.length, handed := st.handed ++ [c.2] }

def getMeta (st : St) (r : Nat) : St :=
  match st.recs[r]? with
  | none => st
  | some ro => { st with handed := st.handed ++ [ro.md] }

def setData (st : St) (r : Nat) (k : String) (a : Addr) : St :=
  match st.recs[r]? with
  | none => st
  | some ro =>
    if st.known.contains a then { st with recs := st.recs.set r { ro with keys := (k, a) :: ro.keys } } else st

def newVal (st : St) (t : Tree) : St :=
  let c := alloc st.heap t
  { st with heap := c.1, known := st.known ++ range' st.heap.length c.1.length, handed := st.handed ++ [c.2] }

def mutate (st : St) (a : Addr) (c : Cell) : St :=
  if st.known.contains a && allKnown st c.ptrs then { st with heap := write st.heap a c } else st

def replay (cfg : Cfg) (st : St) (id : Nat) : St :=
  match st.store[id]? with
  | none => st
  | some sv => (sv.data.map (·.1)).foldl (fun s k => getData cfg s st.recs.length k) (fetch st id)

def recordIn (cfg : Cfg) (st : St) (k : String) (a : Addr) : St :=
  if st.known.contains a then
    if cfg.copyOnIntercept then
      let c := alloc st.heap (.node "dict" ["value"] [readD st.heap a])
      { st with heap := c.1, active := assocSet st.active k c.2, owned := st.owned ++ [⟨st.heap.length, c.1.length⟩] }
    else
      { st with heap := st.heap ++ [.node "dict" ["value"] [a]], active := assocSet st.active k st.heap.length }
  else st

def recordOut (st : St) (k : String) (args : List Addr) (kwl : List String) (kwa : List Addr) : St :=
  if allKnown st args && allKnown st kwa then
    let n := st.heap.length
    { st with
      heap := st.heap ++ [.node "list" [] args, .node "dict" kwl kwa, .node "dict" ["args", "kwargs"] [n, n + 1]],
      active := assocSet st.active k (n + 2) }
  else st

def recordRaw (st : St) (k : String) (a : Addr) : St :=
  if st.known.contains a then { st with active := assocSet st.active k a } else st

def save (st : St) (md : Tree) : St :=
  { st with store := st.store ++ [{ data := st.active.map (fun kr => (kr.1, readD st.heap kr.2)), md := md }],
            active := [] }

def runOp (cfg : Cfg) (st : St) : ClientOp → St
  | .fetch id => fetch st id
  | .getData r k => getData cfg st r k
  | .getMeta r => getMeta st r
  | .setData r k a => setData st r k a
  | .new t => newVal st t
  | .mutate a c => mutate st a c
  | .replay id => replay cfg st id
  | .recordIn k a => recordIn cfg st k a
  | .recordOut k args kwl kwa => recordOut st k args kwl kwa
  | .recordRaw k a => recordRaw st k a
  | .save m => save st m

def runClient (cfg : Cfg) (st : St) (ops : List ClientOp) : St := ops.foldl (runOp cfg) st

/-! ## what the client observes -/

/-- the value a `get_data(k)` on live recording `r` would return now -/
def viewData (st : St) (r : Nat) (k : String) : Option Tree := (rootOf st r k).map (readD st.heap)

/-- the values a fresh `get_recording(id)` hands out, key by key -/
def fetchView (st : St) (id : Nat) : List (String × Option Tree) :=
  let st' := fetch st id
  match st.store[id]? with
  | none => []
  | some sv => (sv.data.map (·.1)).map (fun k => (k, viewData st' st.recs.length k))

/-- the values a `play(id)` hands out (injected inputs, recorded outputs), in order -/
def replayView (cfg : Cfg) (st : St) (id : Nat) : List Tree :=
  let st' := replay cfg st id
  (st'.handed.drop st.handed.length).map (readD st'.heap)

/-- what `save` would write for key `k` of the active recording now -/
def activeView (st : St) (k : String) : Option Tree := (st.active.lookup k).map (readD st.heap)

end PlaybackModel.Heap
