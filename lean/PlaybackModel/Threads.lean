/-
Micro-step model of an intercepted input running on a WORKER thread while the operation's main thread discards or
finalises the recording (`playback/tape_recorder.py`: `_intercept_input.decorated_function` l.707-756,
`_execute_func_and_record_interception` l.823-880, `discard_recording` l.106-114, `_reset_active_recording` l.165-173, the
`finally` block of `start_recording` l.80-104).  Every read or write of the shared recorder object is its own step, so a
schedule (`List Nat`, the thread chosen at each step) can interleave them arbitrarily.  Python failures are explicit:
an attribute access on `None` or a failing `assert` is `.error`.  `stepUnfixed` transcribes the code before the `fix:`
commit (it re-reads the shared fields instead of using the snapshot).
-/
namespace PlaybackModel.Threads

inductive Err where
  | attributeError      -- 'NoneType' object has no attribute …
  | assertionError      -- "No recoding is currently being made"
  deriving DecidableEq, Repr

inductive Out where
  | ret (v : Nat)
  | exc (t : Nat)
  deriving DecidableEq, Repr

/-- a recording object on the heap: writes through a reference land here whether or not it is still the active one -/
structure RecObj where
  data : List (Nat × Out)        -- key ↦ envelope
  closed : Bool
  deriving DecidableEq, Repr

structure Shared where
  enabled : Bool
  active : Option Nat            -- `_active_recording` (index into `recs`)
  copyFlag : Option Bool         -- `_active_recording_parameters` (only its copy flag matters here)
  forced : Bool
  counterReset : Nat             -- how often `_invoke_counter` was replaced (ghost)
  recs : List RecObj
  aborts : List Nat              -- recordings handed to `abort_recording`
  saves : List Nat
  deriving DecidableEq, Repr

/-- one intercepted call made by a worker: its key (`none`: key creation fails), what the wrapped body does, whether the
data handler raises -/
structure Call where
  key : Option Nat
  body : Out
  prepareFails : Bool
  deriving DecidableEq, Repr

inductive Pc where
  | start                -- about to evaluate `_should_intercept`
  | readRec              -- `recording = self._active_recording`
  | readPar              -- `recording_parameters = self._active_recording_parameters`
  | body                 -- flag set, run the wrapped function, flag cleared
  | write                -- `recording[key] = …` (value or exception)
  | discard1             -- handler failed: `discard_recording()` reads `_active_recording`
  | discard2             -- … `abort_recording` then `_reset_active_recording`, field by field
  | reset (n : Nat)
  | plain                -- not intercepting: just run the body
  deriving DecidableEq, Repr

structure Worker where
  todo : List Call
  pc : Pc
  recSnap : Option Nat
  parSnap : Option Bool
  keyEff : Option Nat
  toAbort : Option Nat
  results : List Out           -- what each finished call handed back to the worker's code (latest first)
  deriving DecidableEq, Repr

def writeRec (recs : List RecObj) (i k : Nat) (v : Out) : List RecObj :=
  recs.mapIdx (fun j r => if j = i then { r with data := (k, v) :: r.data } else r)

def closeRec (recs : List RecObj) (i : Nat) : List RecObj :=
  recs.mapIdx (fun j r => if j = i then { r with closed := true } else r)

def finishCall (w : Worker) (o : Out) : Worker :=
  { w with todo := w.todo.tail, pc := .start, recSnap := none, parSnap := none, keyEff := none, toAbort := none,
           results := o :: w.results }

/-- one micro-step of a worker (repaired code) -/
def stepWorker (s : Shared) (w : Worker) : Except Err (Shared × Worker) :=
  match w.todo with
  | [] => .ok (s, w)
  | c :: _ =>
    match w.pc with
    | .start =>
      if s.enabled && s.active.isSome then
        match c.key with
        | some _ => .ok (s, { w with pc := .readRec })
        | none => .ok (s, { w with pc := .discard1 })        -- key failure: discard, run the original unrecorded
      else .ok (s, { w with pc := .plain })
    | .plain => .ok (s, finishCall w c.body)
    | .readRec => .ok (s, { w with pc := .readPar, recSnap := s.active })
    | .readPar =>
      let par := s.copyFlag
      .ok (s, { w with pc := .body, parSnap := par,
                       keyEff := if w.recSnap.isNone || par.isNone then none else c.key })
    | .body =>
      match c.body with
      | .exc _ => .ok (s, { w with pc := .write })
      | .ret _ =>
        if w.keyEff.isSome && c.prepareFails then .ok (s, { w with pc := .discard1 })
        else .ok (s, { w with pc := .write })                 -- the copy flag is read from the snapshot: no shared access
    | .write =>
      match w.keyEff, w.recSnap with
      | some k, some i => .ok ({ s with recs := writeRec s.recs i k c.body }, finishCall w c.body)
      | _, _ => .ok (s, finishCall w c.body)
    | .discard1 =>
      match s.active with
      | some i => .ok (s, { w with pc := .discard2, toAbort := some i })
      | none =>
        -- nothing to discard: key failure continues to the (unrecorded) body, handler failure returns the result
        .ok (s, finishCall w c.body)
    | .discard2 =>
      match w.toAbort with
      | some i => .ok ({ s with recs := closeRec s.recs i, aborts := i :: s.aborts }, { w with pc := .reset 0 })
      | none => .ok (s, { w with pc := .reset 0 })
    | .reset 0 => .ok ({ s with active := none }, { w with pc := .reset 1 })
    | .reset 1 => .ok ({ s with copyFlag := none }, { w with pc := .reset 2 })
    | .reset 2 => .ok ({ s with forced := false }, { w with pc := .reset 3 })
    | .reset _ => .ok ({ s with counterReset := s.counterReset + 1 }, finishCall w c.body)

/-- the same worker on the code BEFORE the fix: after the body it re-reads the shared fields -/
def stepWorkerUnfixed (s : Shared) (w : Worker) : Except Err (Shared × Worker) :=
  match w.todo with
  | [] => .ok (s, w)
  | c :: _ =>
    match w.pc with
    | .readRec => .ok (s, { w with pc := .body, keyEff := c.key })
    | .body =>
      match c.body with
      | .exc _ => .ok (s, { w with pc := .write })
      | .ret _ =>
        if c.prepareFails then .ok (s, { w with pc := .discard1 })
        else
          match s.copyFlag with                               -- `self._active_recording_parameters.copy_data_on_intercepion`
          | none => .error .attributeError
          | some _ => .ok (s, { w with pc := .write })
    | .write =>
      match s.active, w.keyEff with                           -- `_record_data` asserts and writes to the CURRENT recording
      | none, _ => .error .assertionError
      | some i, some k => .ok ({ s with recs := writeRec s.recs i k c.body }, finishCall w c.body)
      | some _, none => .ok (s, finishCall w c.body)
    | _ => stepWorker s w

/-- the operation's main thread: discards, or reaches the `finally` block and finalises, field by field -/
inductive MainPc where
  | idle
  | discardRead | discardAbort (i : Nat)
  | finalRead | finalReset (i : Nat) (n : Nat) | finalStore (i : Nat) (keep : Bool)
  | reset (n : Nat)
  | done
  deriving DecidableEq, Repr

structure Main where
  pc : MainPc
  keep : Bool          -- outcome of the sampling decision (a parameter)
  deriving DecidableEq, Repr

def stepMain (s : Shared) (m : Main) : Shared × Main :=
  match m.pc with
  | .idle => (s, m)
  | .done => (s, m)
  | .discardRead =>
    match s.active with
    | some i => (s, { m with pc := .discardAbort i })
    | none => (s, { m with pc := .done })
  | .discardAbort i => ({ s with recs := closeRec s.recs i, aborts := i :: s.aborts }, { m with pc := .reset 0 })
  | .reset 0 => ({ s with active := none }, { m with pc := .reset 1 })
  | .reset 1 => ({ s with copyFlag := none }, { m with pc := .reset 2 })
  | .reset 2 => ({ s with forced := false }, { m with pc := .reset 3 })
  | .reset _ => ({ s with counterReset := s.counterReset + 1 }, { m with pc := .done })
  | .finalRead =>
    match s.active with
    | some i => (s, { m with pc := .finalReset i 0 })
    | none => (s, { m with pc := .done })
  | .finalReset i 0 => ({ s with active := none }, { m with pc := .finalReset i 1 })
  | .finalReset i 1 => ({ s with copyFlag := none }, { m with pc := .finalReset i 2 })
  | .finalReset i 2 => ({ s with forced := false }, { m with pc := .finalReset i 3 })
  | .finalReset i _ => ({ s with counterReset := s.counterReset + 1 }, { m with pc := .finalStore i m.keep })
  | .finalStore i true => ({ s with recs := closeRec s.recs i, saves := i :: s.saves }, { m with pc := .done })
  | .finalStore i false => ({ s with recs := closeRec s.recs i, aborts := i :: s.aborts }, { m with pc := .done })

structure Sys where
  shared : Shared
  main : Main
  workers : List Worker
  deriving DecidableEq, Repr

def setWorker (ws : List Worker) (i : Nat) (w : Worker) : List Worker :=
  ws.mapIdx (fun j x => if j = i then w else x)

/-- thread 0 is the main thread, thread `i + 1` is worker `i`; a thread id out of range is a no-op -/
def stepSys (stepW : Shared → Worker → Except Err (Shared × Worker)) (sys : Sys) (tid : Nat) : Except Err Sys :=
  match tid with
  | 0 => let (s', m') := stepMain sys.shared sys.main; .ok { sys with shared := s', main := m' }
  | i + 1 =>
    match sys.workers[i]? with
    | none => .ok sys
    | some w =>
      match stepW sys.shared w with
      | .error e => .error e
      | .ok (s', w') => .ok { sys with shared := s', workers := setWorker sys.workers i w' }

def runSched (stepW : Shared → Worker → Except Err (Shared × Worker)) (sys : Sys) : List Nat → Except Err Sys
  | [] => .ok sys
  | t :: rest =>
    match stepSys stepW sys t with
    | .error e => .error e
    | .ok sys' => runSched stepW sys' rest

/-- what a worker's code has been handed so far, oldest first -/
def Worker.handed (w : Worker) : List Out := w.results.reverse

end PlaybackModel.Threads
