import PlaybackModel.Source
/-
Model of `playback/studio/equalizer.py` (the code as it is after the `fix:` commit b2914ed):
  `Equalizer.run_comparison`                                   (l.158-222)
  `Equalizer._play_and_compare_recording_within_worker`        (l.224-261)  put, bounded poll loop, death detection
  `Equalizer._handle_compare_execution_timeout`                (l.263-275)  kill, forget
  `Equalizer._create_or_recycle_player_process_if_needed`      (l.284-304)  recycle test, age
  `Equalizer._create_new_player_process`                       (l.306-317)  fresh queues per worker (the F9 repair)
  `Equalizer._playback_process_target`                         (l.319-336)  worker loop
  `Equalizer._play_and_compare_recording`                      (l.338-376)  play, extract, compare with catch-all
Import-free and executable.

The player / extractor / comparator are scripted: what they do for one task is a `Beh`.  A worker process is
identified by its *epoch* (0, 1, 2 … in creation order).  Queues are association lists from a queue index to the
pending items; the repaired code gives every worker its own pair (`qix true e = e`), the code before the repair used
one pair for all workers (`qix false e = 0`, kept as the `Unfixed` variant for the counterexample theorem).

Time is abstracted to the parent's 1 s polls (`Queue.get(True, 1)`): a worker that answers at all in time has
answered when the first poll returns; `hang` never answers; `late` answers after the parent's last poll and before
the SIGKILL lands.
-/
namespace PlaybackModel.Equalizer

/-- recording ids, renamed `0, 1, 2 …` by the harness -/
abbrev Id := Nat

inductive Status where
  | equal | fixed | different | failed | equalizerFailure
  deriving DecidableEq, Repr, Inhabited

/-- What the scripted player / extractor / comparator do for one recording. -/
inductive Beh where
  /-- comparator returns `ComparatorResult(s, msg)` -/
  | verdict (s : Status) (msg : String)
  /-- comparator returns a bare `EqualityStatus` -/
  | bareStatus (s : Status)
  /-- `player(id)` raises `Exception(m)` -/
  | playerRaises (m : String)
  /-- `result_extractor(outputs)` raises `Exception(m)` (whenever it is applied to this playback) -/
  | extractorRaises (m : String)
  /-- `comparator(...)` raises `Exception(m)` -/
  | comparatorRaises (m : String)
  /-- replay and comparison succeed with `ComparatorResult(s, msg)`, but the result carries a replayed value that pickles in
      the worker and cannot be unpickled by the parent: reading it from the result queue raises `err` in the parent -/
  | unreadable (s : Status) (msg : String) (err : String)
  /-- the process executing the player exits (`os._exit`) -/
  | workerExits
  /-- the player never returns -/
  | hang
  /-- the player returns, and the comparator answers `ComparatorResult(s, msg)`, only after the parent gave up
      waiting and before the kill lands -/
  | late (s : Status) (msg : String)
  deriving DecidableEq, Repr, Inhabited

abbrev Task := Id × Beh

/-- the `Playback` object handed back by the player: whose recording it replays, and what the extractor does on
its outputs (`none` = extracts fine, `some m` = raises `Exception(m)`) -/
structure Playback where
  orig : Id
  extractorFails : Option String
  deriving DecidableEq, Repr, Inhabited

/-- `PlayAndCompareResult` (l.120-122) -/
structure PCR where
  status : Status
  message : Option String
  playback : Option Playback
  /-- `(recorded_result_is_exception, playback_result_is_exception)`; `none` = both still `None` -/
  flags : Option (Bool × Bool)
  deriving DecidableEq, Repr, Inhabited

/-- value the extractor yields from the recorded / the played outputs of the playback of a recording -/
inductive Extracted where
  | recorded (id : Id)
  | played (id : Id)
  deriving DecidableEq, Repr, Inhabited

/-- observable part of a `Comparison` (l.65-90) -/
structure Comparison where
  recordingId : Id
  status : Status
  message : Option String
  /-- `playback.original_recording.id`, `none` when `playback is None` -/
  playback : Option Id
  expected : Option Extracted
  actual : Option Extracted
  flags : Option (Bool × Bool)
  deriving DecidableEq, Repr, Inhabited

structure Cfg where
  /-- `keep_results_in_comparison` -/
  keep : Bool
  /-- `compare_process_recycle_rate` -/
  rate : Nat
  /-- `compare_process_timeout` in milliseconds -/
  timeoutMs : Nat
  deriving DecidableEq, Repr, Inhabited

/-- Number of 1 s polls the wait loop `while time() - start <= timeout: get(True, 1)` makes when nothing arrives:
iterations start at 0 s, 1 s, 2 s, … while the elapsed time is `≤ timeout`. -/
def Cfg.polls (c : Cfg) : Nat := c.timeoutMs / 1000 + 1

def diedMsg : String := "playback process have died"
def timeoutMsg : String := "timeout while running recording playback and comparison"

/-- `_play_and_compare_recording` (l.338-376): `none` when the call never returns to its caller (the executing
process exits or hangs).  For `late` this is the answer that is eventually produced. -/
def inner (id : Id) : Beh → Option PCR
  | .verdict s m => some ⟨s, some m, some ⟨id, none⟩, some (false, false)⟩
  | .bareStatus s => some ⟨s, none, some ⟨id, none⟩, some (false, false)⟩
  | .playerRaises m => some ⟨.equalizerFailure, some m, none, none⟩
  | .extractorRaises m => some ⟨.equalizerFailure, some m, some ⟨id, some m⟩, none⟩
  | .comparatorRaises m => some ⟨.equalizerFailure, some m, some ⟨id, none⟩, some (false, false)⟩
  | .late s m => some ⟨s, some m, some ⟨id, none⟩, some (false, false)⟩
  | .unreadable s m _ => some ⟨s, some m, some ⟨id, none⟩, some (false, false)⟩
  | .workerExits => none
  | .hang => none

/-- the `except Exception` arm of `run_comparison` (l.203-212) -/
def outerFailure (id : Id) (m : String) : Comparison :=
  ⟨id, .equalizerFailure, some m, none, none, none, some (false, false)⟩

/-- `run_comparison` l.171-202: build the `Comparison` from a `PlayAndCompareResult`; with kept results the parent
re-extracts from the playback it was handed, and an extractor that raises there lands in the outer handler. -/
def post (cfg : Cfg) (id : Id) (r : PCR) : Comparison :=
  match r.playback with
  | none => ⟨id, r.status, r.message, none, none, none, r.flags⟩
  | some p =>
    if cfg.keep then
      match p.extractorFails with
      | some m => outerFailure id m
      | none => ⟨id, r.status, r.message, some p.orig, some (.recorded p.orig), some (.played p.orig), r.flags⟩
    else ⟨id, r.status, r.message, some p.orig, none, none, r.flags⟩

/-- behaviours that mean the same in the parent's own process (no process to lose, no timeout to miss) -/
def Beh.inProcessMeaningful : Beh → Bool
  | .workerExits | .hang | .late _ _ | .unreadable _ _ _ => false
  | _ => true

/-- In-process run (`compare_in_dedicated_process = False`): nothing is yielded any more once the player takes
the process down or never returns. -/
def runInProc (cfg : Cfg) : List Task → List Comparison
  | [] => []
  | (id, b) :: ts =>
    match inner id b with
    | some r => post cfg id r :: runInProc cfg ts
    | none => []

/-- The verdict a recording gets when it is compared alone in a dedicated process. -/
def verdictAlone (cfg : Cfg) (t : Task) : Comparison :=
  match t.2 with
  | .workerExits => outerFailure t.1 diedMsg
  | .hang => outerFailure t.1 timeoutMsg
  | .late _ _ => outerFailure t.1 timeoutMsg
  | .unreadable _ _ err => outerFailure t.1 err
  | b =>
    match inner t.1 b with
    | some r => post cfg t.1 r
    | none => outerFailure t.1 diedMsg

/-! ## Dedicated-process protocol -/

/-- association lists; `set` shadows -/
def get {α : Type} (m : List (Nat × α)) (k : Nat) (d : α) : α :=
  match m with
  | [] => d
  | (k', v) :: rest => if k' = k then v else get rest k d

def set {α : Type} (m : List (Nat × α)) (k : Nat) (v : α) : List (Nat × α) := (k, v) :: m

/-- what travels on the result queue: `(succeeded, result)` -/
inductive QMsg where
  | ok (r : PCR)
  | fail (m : String)
  deriving DecidableEq, Repr, Inhabited

structure PState where
  /-- `_compare_process` (epoch of the current worker) -/
  worker : Option Nat
  /-- `_compare_process_age` -/
  age : Nat
  nextEpoch : Nat
  /-- task queues by queue index -/
  taskQ : List (Nat × List Task)
  /-- result queues by queue index -/
  resQ : List (Nat × List QMsg)
  /-- epochs whose process is alive -/
  live : List Nat
  /-- epochs whose process is inside a player call that has not returned -/
  busy : List Nat
  /-- tasks taken per epoch -/
  served : List (Nat × Nat)
  /-- log: epoch that was given the task, per position -/
  servedBy : List Nat
  /-- log: polls the parent spent, per position -/
  pollsLog : List Nat
  /-- log: `(epoch, idle at that moment)` for every `join()` of the recycle step -/
  joins : List (Nat × Bool)
  deriving DecidableEq, Repr, Inhabited

def initState : PState :=
  { worker := none, age := 0, nextEpoch := 0, taskQ := [], resQ := [], live := [], busy := [],
    served := [], servedBy := [], pollsLog := [], joins := [] }

/-- queue pair used by worker `e` -/
def qix (fresh : Bool) (e : Nat) : Nat := if fresh then e else 0

/-- a worker that is alive and not inside a player call sees the terminate event at its next 0.05 s poll -/
def idle (st : PState) (e : Nat) : Bool := st.live.contains e && !st.busy.contains e

/-- l.291-298: recycle when the process exists and `age >= rate`: set terminate, join, forget, clear -/
def recycle (cfg : Cfg) (st : PState) : PState :=
  match st.worker with
  | none => st
  | some e =>
    if st.age ≥ cfg.rate then
      { st with worker := none, live := st.live.erase e, joins := st.joins ++ [(e, idle st e)] }
    else st

/-- l.306-317: new process, age 0; with the repair, fresh empty queues for it -/
def create (fresh : Bool) (st : PState) : PState :=
  let e := st.nextEpoch
  { st with worker := some e, age := 0, nextEpoch := e + 1, live := e :: st.live,
            taskQ := if fresh then set st.taskQ e [] else st.taskQ,
            resQ := if fresh then set st.resQ e [] else st.resQ }

def ensureWorker (fresh : Bool) (st : PState) : PState × Nat :=
  match st.worker with
  | some e => (st, e)
  | none => (create fresh st, st.nextEpoch)

def bumpAge (st : PState) : PState := { st with age := st.age + 1 }

/-- `_create_or_recycle_player_process_if_needed` (l.284-304); returns the epoch of the worker now current -/
def prepare (fresh : Bool) (cfg : Cfg) (st : PState) : PState × Nat :=
  let p := ensureWorker fresh (recycle cfg st)
  (bumpAge p.1, p.2)

/-- l.241 `self._compare_tasks.put(recording_id)` -/
def putTask (st : PState) (q : Nat) (t : Task) : PState :=
  { st with taskQ := set st.taskQ q (get st.taskQ q [] ++ [t]) }

def pushRes (st : PState) (q : Nat) (m : QMsg) : PState :=
  { st with resQ := set st.resQ q (get st.resQ q [] ++ [m]) }

/-- what worker `e` does with the task it dequeued, up to the moment the parent's first poll returns -/
def workerRun (st : PState) (e q : Nat) (t : Task) : PState :=
  match t.2 with
  | .workerExits => { st with live := st.live.erase e }
  | .hang => { st with busy := e :: st.busy }
  | .late _ _ => { st with busy := e :: st.busy }
  -- the worker answers in time; what the parent gets out of the queue is the unpickling error (the same path through
  -- `run_comparison`'s handler as a `(False, text)` answer)
  | .unreadable _ _ err => pushRes st q (.fail err)
  | b =>
    match inner t.1 b with
    | some r => pushRes st q (.ok r)
    | none => st

/-- worker loop (l.319-336): an idle live worker takes the head of its task queue -/
def workerTake (st : PState) (e q : Nat) : PState :=
  if idle st e then
    match get st.taskQ q [] with
    | [] => st
    | t :: rest =>
      let st1 : PState := { st with taskQ := set st.taskQ q rest, served := set st.served e (get st.served e 0 + 1) }
      workerRun st1 e q t
  else st

inductive WaitRes where
  | got (m : QMsg) (rest : List QMsg)
  | died
  | timedOut
  deriving DecidableEq, Repr, Inhabited

/-- the wait loop l.244-256 over `n` polls: a message at the head of the result queue is taken; on `Empty` a dead
worker ends the wait.  Returns the result and the number of polls spent. -/
def wait (alive : Bool) (q : List QMsg) : Nat → WaitRes × Nat
  | 0 => (.timedOut, 0)
  | n + 1 =>
    match q with
    | m :: rest => (.got m rest, 1)
    | [] =>
      if alive then
        let r := wait alive q n
        (r.1, r.2 + 1)
      else (.died, 1)

def forget (st : PState) : PState := { st with worker := none }

/-- a `late` worker finishes its task (answer on its result queue) after the parent's last poll -/
def lateLands (st : PState) (e q : Nat) (t : Task) : PState :=
  match t.2 with
  | .late _ _ =>
    if st.busy.contains e then
      match inner t.1 t.2 with
      | some r => { pushRes st q (.ok r) with busy := st.busy.erase e }
      | none => st
    else st
  | _ => st

/-- `_handle_compare_execution_timeout` (l.263-275): SIGKILL if alive (it kills), forget the worker -/
def killAndForget (st : PState) (e : Nat) : PState :=
  { st with worker := none, live := st.live.erase e, busy := st.busy.erase e }

def logStep (st : PState) (e polls : Nat) : PState :=
  { st with servedBy := st.servedBy ++ [e], pollsLog := st.pollsLog ++ [polls] }

/-- one iteration of the `for` loop of `run_comparison` in dedicated-process mode -/
def stepDed (fresh : Bool) (cfg : Cfg) (st : PState) (t : Task) : PState × Comparison :=
  let p := prepare fresh cfg st
  let e := p.2
  let q := qix fresh e
  let st2 := workerTake (putTask p.1 q t) e q
  let w := wait (st2.live.contains e) (get st2.resQ q []) cfg.polls
  let st3 := logStep st2 e w.2
  match w.1 with
  | .got (.ok r) rest => ({ st3 with resQ := set st3.resQ q rest }, post cfg t.1 r)
  | .got (.fail m) rest => ({ st3 with resQ := set st3.resQ q rest }, outerFailure t.1 m)
  | .died => (forget st3, outerFailure t.1 diedMsg)
  | .timedOut => (killAndForget (lateLands st3 e q t) e, outerFailure t.1 timeoutMsg)

def runFrom (fresh : Bool) (cfg : Cfg) : PState → List Task → PState × List Comparison
  | st, [] => (st, [])
  | st, t :: ts =>
    let s := stepDed fresh cfg st t
    let r := runFrom fresh cfg s.1 ts
    (r.1, s.2 :: r.2)

/-- does every worker get queues of its own?  Read from `_create_new_player_process` on every run (fix F9) -/
def ownQueues : Bool := PlaybackModel.Source.workerOwnsQueues

/-- dedicated-process run of the code as it stands -/
def runDedT (cfg : Cfg) (tasks : List Task) : List Comparison := (runFrom ownQueues cfg initState tasks).2

/-- the code before the repair: one task queue and one result queue shared by all workers -/
def runDedUnfixedT (cfg : Cfg) (tasks : List Task) : List Comparison := (runFrom false cfg initState tasks).2

def tasksOf (ids : List Id) (beh : Id → Beh) : List Task := ids.map (fun i => (i, beh i))

def runDed (cfg : Cfg) (ids : List Id) (beh : Id → Beh) : List Comparison := runDedT cfg (tasksOf ids beh)
def runDedUnfixed (cfg : Cfg) (ids : List Id) (beh : Id → Beh) : List Comparison := runDedUnfixedT cfg (tasksOf ids beh)
def runIn (cfg : Cfg) (ids : List Id) (beh : Id → Beh) : List Comparison := runInProc cfg (tasksOf ids beh)

/-- parent state when the consumer has received `k` comparisons (the generator is suspended at its `k`-th yield, or
has run to the end when `k ≥ length`) -/
def stateAfter (cfg : Cfg) (tasks : List Task) (k : Nat) : PState := (runFrom true cfg initState (tasks.take k)).1

/-- the `finally` of `run_comparison` (l.216-219): the terminate event is set; every worker that is not stuck in a
player call leaves its loop at its next 0.05 s poll -/
def finish (st : PState) : PState := { st with live := st.live.filter (fun e => st.busy.contains e) }

end PlaybackModel.Equalizer
