import PlaybackModel.Keys
/-! Model of the three storing cassettes (`playback/tape_cassettes/{in_memory,file_based,s3}`) and `MemoryRecording`.

  A store maps names (dict key / file name / S3 object key) to blobs; a blob is the token stream of the JSON text
  (`Codec.render` gives the exact text).  `set` is cons (shadowing), `get` finds the first binding.
  * in-memory : `_recordings[id] = encode(recording)` - the whole `MemoryRecording` object;
  * file      : the same text in `<dir>/<id.replace('/','_')>.json`;
  * S3        : two objects, `…{prefix}full/{id}` = compress(encode(data + {'_metadata': metadata})) and
                `…{prefix}metadata/{id}` = encode(metadata).  `compress`/`decompress` (zlib) are parameters.
  Fetching builds a fresh `MemoryRecording(id, recording_data, recording_metadata)`; an unknown name raises
  `NoSuchRecording`. -/
namespace PlaybackModel.Cassette
open PlaybackModel.Codec

abbrev Blob := List Tok
abbrev Store := List (String × Blob)

def Store.get (s : Store) (name : String) : Option Blob :=
  match s with
  | [] => none
  | (n, b) :: rest => if name = n then some b else Store.get rest name

def Store.set (s : Store) (name : String) (b : Blob) : Store := (name, b) :: s

structure Recording where
  id : String
  data : Fields
  metadata : Fields

inductive Kind where
  | memory
  | file
  | s3 (keyPrefix : String)

inductive CErr where
  | noSuchRecording (id : String)
  | decodeError
  deriving DecidableEq, Repr

/-- zlib as a parameter -/
structure Zip where
  compress : Blob → Blob
  decompress : Blob → Blob

def Zip.Lawful (z : Zip) : Prop := ∀ b, z.decompress (z.compress b) = b

def Zip.id : Zip := ⟨fun b => b, fun b => b⟩

/-! ### names -/
def replaceSlash (cs : List Char) : List Char := cs.map (fun c => if c = '/' then '_' else c)

/-- `recording_id.replace('/', '_') + '.json'` (inside the cassette's directory) -/
def fileName (id : String) : String := String.ofList (replaceSlash id.toList) ++ ".json"

/-- `self.key_prefix = (key_prefix + '/') if key_prefix else ''` -/
def normPrefix (kp : String) : String := if kp = "" then "" else kp ++ "/"

def fullKey (kp id : String) : String := "tape_recorder_recordings/" ++ normPrefix kp ++ "full/" ++ id
def metaKey (kp id : String) : String := "tape_recorder_recordings/" ++ normPrefix kp ++ "metadata/" ++ id

/-! ### what is written -/
def recordingClass : String := "playback.recordings.memory.memory_recording.MemoryRecording"

/-- the `MemoryRecording` instance as jsonpickle sees it (`__dict__` in assignment order; `_closed` is still False
when `_save_recording` runs) -/
def recordingVal (r : Recording) : Val :=
  .obj recordingClass
    (.cons "id" (.str r.id) (.cons "_closed" (.bool false)
      (.cons "recording_data" (.dict r.data) (.cons "recording_metadata" (.dict r.metadata) .nil))))

/-- `full_data = copy(recording_data); full_data['_metadata'] = recording_metadata` -/
def s3FullVal (r : Recording) : Val := .dict (r.data.set "_metadata" (.dict r.metadata))

def save (z : Zip) (c : Kind) (s : Store) (r : Recording) : Store :=
  match c with
  | .memory => s.set r.id (encToks (recordingVal r))
  | .file => s.set (fileName r.id) (encToks (recordingVal r))
  | .s3 kp => (s.set (fullKey kp r.id) (z.compress (encToks (s3FullVal r)))).set (metaKey kp r.id) (encToks (.dict r.metadata))

def saveAll (z : Zip) (c : Kind) (s : Store) : List Recording → Store
  | [] => s
  | r :: rs => saveAll z c (save z c s r) rs

/-! ### what is read -/
/-- `decode(text)` then `MemoryRecording(_id=d.id, recording_data=d.recording_data, recording_metadata=d.recording_metadata)` -/
def recordingOfVal : Val → Except CErr Recording
  | .obj _ fs =>
    match fs.lookup "id", fs.lookup "recording_data", fs.lookup "recording_metadata" with
    | some (.str i), some (.dict d), some (.dict m) => .ok ⟨i, d, m⟩
    | _, _, _ => .error .decodeError
  | _ => .error .decodeError

def decodeObject (b : Blob) : Except CErr Recording :=
  match decodeToks b with
  | some v => recordingOfVal v
  | none => .error .decodeError

/-- `full_data = decode(…); metadata = full_data.pop('_metadata', {})` -/
def s3RecordingOfVal (id : String) : Val → Except CErr Recording
  | .dict fs =>
    match fs.pop "_metadata" with
    | (some (.dict m), rest) => .ok ⟨id, rest, m⟩
    | (none, rest) => .ok ⟨id, rest, .nil⟩
    | (some _, _) => .error .decodeError
  | _ => .error .decodeError

def get (z : Zip) (c : Kind) (s : Store) (id : String) : Except CErr Recording :=
  match c with
  | .memory =>
    match s.get id with
    | none => .error (.noSuchRecording id)
    | some b => decodeObject b
  | .file =>
    match s.get (fileName id) with
    | none => .error (.noSuchRecording id)
    | some b => decodeObject b
  | .s3 kp =>
    match s.get (fullKey kp id) with
    | none => .error (.noSuchRecording id)
    | some b =>
      match decodeToks (z.decompress b) with
      | some v => s3RecordingOfVal id v
      | none => .error .decodeError

/-- `get_recording_metadata`: the base class goes through `get_recording`, S3 reads the metadata object -/
def getMetadata (z : Zip) (c : Kind) (s : Store) (id : String) : Except CErr Fields :=
  match c with
  | .memory => (get z c s id).map (·.metadata)
  | .file => (get z c s id).map (·.metadata)
  | .s3 kp =>
    match s.get (metaKey kp id) with
    | none => .error (.noSuchRecording id)
    | some b =>
      match decodeToks b with
      | some (.dict m) => .ok m
      | _ => .error .decodeError

/-! ### the unrepaired in-memory lookup (defect F3): an unknown id yielded `None` instead of an error -/
def getMemoryUnfixed (s : Store) (id : String) : Except CErr (Option Recording) :=
  match s.get id with
  | none => .ok none
  | some b => (decodeObject b).map some

/-! ### well-formedness -/
/-- ids as `create_new_recording` makes them for the in-memory and file cassettes: `category/uuid32hex` -/
def IdWF (id : String) : Prop :=
  ∃ cat u : List Char, id.toList = cat ++ '/' :: u ∧ '/' ∉ cat ∧ '/' ∉ u ∧ u.length = 32

/-- what may be stored faithfully: values in the faithful domain, keys not reserved by jsonpickle, and on S3 no data
key literally named `_metadata` (known finding K2) -/
def Recording.WF (r : Recording) (c : Kind) : Prop :=
  r.data.WF ∧ r.data.NoReserved ∧ r.data.DistinctKeys ∧ r.metadata.WF ∧ r.metadata.NoReserved ∧
  match c with
  | .s3 _ => "_metadata" ∉ r.data.keys
  | _ => True

/-- the recording as it comes back: every dict sorted by key -/
def Recording.canon (r : Recording) : Recording := ⟨r.id, canonF r.data, canonF r.metadata⟩

end PlaybackModel.Cassette
