import PlaybackModel.Source
/-
Model of `playback/tape_cassette.py`:
  `TapeCassette.match_against_recorded_metadata`  (l.121-136)
  `TapeCassette._match_metadata_value`            (l.138-158)
  `TapeCassette._operator_filter`                 (l.160-181)
Imports only the decision atoms read from the source (`PlaybackModel.Source`); executable.  Python exceptions are explicit (`Except Err`), so "never raises" is a theorem
and not an artefact of totality.  `matchValueUnfixed` transcribes the code before the `fix:` commit (F8) and is
kept only for the counterexample theorem.
-/
namespace PlaybackModel.MetaFilter

/-- Python values that occur in metadata and in filters.  `num n e` is the exact rational `n / 2^e`
(every finite float is dyadic; ints have `e = 0`).  An absent metadata key is `none` (`dict.get`). -/
inductive MVal where
  | none
  | bool (b : Bool)
  | num (n : Int) (e : Nat)
  | str (s : String)
  | list (xs : List MVal)
  | tuple (xs : List MVal)
  | dict (fs : List (String × MVal))
  | cls (name : String)
  deriving Repr, Inhabited

inductive Err where
  | typeError
  deriving Repr, DecidableEq, Inhabited

/-- numeric view: bools are ints in Python -/
def asNum : MVal → Option (Int × Nat)
  | .bool b => some (if b then 1 else 0, 0)
  | .num n e => some (n, e)
  | _ => Option.none

def numEq (a b : Int × Nat) : Bool := a.1 * (2 ^ b.2 : Nat) == b.1 * (2 ^ a.2 : Nat)
def numLt (a b : Int × Nat) : Bool := decide (a.1 * (2 ^ b.2 : Nat) < b.1 * (2 ^ a.2 : Nat))
def numLe (a b : Int × Nat) : Bool := decide (a.1 * (2 ^ b.2 : Nat) ≤ b.1 * (2 ^ a.2 : Nat))

def lookup (k : String) : List (String × MVal) → Option MVal
  | [] => Option.none
  | (k', v) :: rest => if k' = k then some v else lookup k rest

mutual
/-- Python `a == b` on these builtin values; never raises. -/
def pyEq : MVal → MVal → Bool
  | .none, .none => true
  | .str a, .str b => a == b
  | .cls a, .cls b => a == b
  | .list a, .list b => pyEqList a b
  | .tuple a, .tuple b => pyEqList a b
  | .dict a, .dict b => a.length == b.length && pyEqFields a b
  | .bool a, .bool b => a == b
  | .bool a, .num n e => numEq (if a then 1 else 0, 0) (n, e)
  | .num n e, .bool b => numEq (n, e) (if b then 1 else 0, 0)
  | .num n e, .num m f => numEq (n, e) (m, f)
  | _, _ => false
def pyEqList : List MVal → List MVal → Bool
  | [], [] => true
  | x :: xs, y :: ys => pyEq x y && pyEqList xs ys
  | _, _ => false
/-- every entry of `a` is present in `b` with an equal value (keys of a dict are distinct) -/
def pyEqFields : List (String × MVal) → List (String × MVal) → Bool
  | [], _ => true
  | (k, v) :: rest, b =>
    (match lookup k b with
     | some v' => pyEq v v'
     | Option.none => false) && pyEqFields rest b
end

mutual
/-- Python `a < b` (`strict = true`) or `a <= b` (`strict = false`); `TypeError` for unorderable operands. -/
def pyCmp (strict : Bool) : MVal → MVal → Except Err Bool
  | .str a, .str b => .ok (if strict then decide (a < b) else decide (a ≤ b))
  | .list a, .list b => pyCmpList strict a b
  | .tuple a, .tuple b => pyCmpList strict a b
  | .bool a, .bool b => .ok ((if strict then numLt else numLe) (if a then 1 else 0, 0) (if b then 1 else 0, 0))
  | .bool a, .num n e => .ok ((if strict then numLt else numLe) (if a then 1 else 0, 0) (n, e))
  | .num n e, .bool b => .ok ((if strict then numLt else numLe) (n, e) (if b then 1 else 0, 0))
  | .num n e, .num m f => .ok ((if strict then numLt else numLe) (n, e) (m, f))
  | _, _ => .error .typeError
/-- CPython sequence comparison: first index whose items are not `==` decides; otherwise the lengths. -/
def pyCmpList (strict : Bool) : List MVal → List MVal → Except Err Bool
  | [], [] => .ok (!strict)
  | [], _ :: _ => .ok true
  | _ :: _, [] => .ok false
  | x :: xs, y :: ys => if pyEq x y then pyCmpList strict xs ys else pyCmp strict x y
end

abbrev Op := PlaybackModel.Atoms.Cmp

/-- the operator table as it stands in the source (`PlaybackModel.Source.operatorTable`, regenerated from
`_operator_filter` on every run): a chain of `if operator == lit: result = recorded <op> value`, so the last matching
entry decides; anything else (another string, a non-string) leaves `result = False` -/
def parseOp : MVal → Option Op
  | .str s => PlaybackModel.Atoms.lastMatch PlaybackModel.Source.operatorTable s
  | _ => Option.none

def opCmp : Option Op → MVal → MVal → Except Err Bool
  | some .eq, recorded, value => .ok (pyEq recorded value)
  | some .lt, recorded, value => pyCmp true recorded value
  | some .le, recorded, value => pyCmp false recorded value
  | some .gt, recorded, value => pyCmp true value recorded
  | some .ge, recorded, value => pyCmp false value recorded
  | Option.none, _, _ => .ok false

def operatorCmp (op : MVal) (recorded value : MVal) : Except Err Bool :=
  opCmp (parseOp op) recorded value

/-- `_operator_filter` before F8 -/
def operatorFilterUnfixed (op : MVal) (recorded value : MVal) : Except Err Bool :=
  operatorCmp op recorded value

/-- `_operator_filter` as it stands in the source: with the comparisons inside `try … except TypeError: return False`
(after F8; the atom is read from the source on every run) a comparison that cannot be made is "no match" -/
def operatorFilter (op : MVal) (recorded value : MVal) : Except Err Bool :=
  if PlaybackModel.Source.operatorCatchesTypeError then
    match operatorCmp op recorded value with
    | .ok b => .ok b
    | .error .typeError => .ok false
  else operatorFilterUnfixed op recorded value

def isNone : MVal → Bool
  | .none => true
  | _ => false

/-- `any(match(v, recorded) for v in alternatives)` with Python's short-circuit and exception propagation -/
def anyM (f : MVal → Except Err Bool) : List MVal → Except Err Bool
  | [] => .ok false
  | x :: xs => match f x with
    | .error e => .error e
    | .ok true => .ok true
    | .ok false => anyM f xs

/-- last line of `_match_metadata_value`: `recorded_value == match_value`, after the `None` guard -/
def atomMatch (f r : MVal) : Except Err Bool :=
  if isNone r then .ok false else .ok (pyEq r f)

/-- the string branch after F8: `isinstance(recorded_value, str) and fnmatch(recorded_value, match_value)` -/
def patternMatchGuarded (glob : String → String → Bool) (p : String) : MVal → Except Err Bool
  | .str s => .ok (glob p s)
  | _ => .ok false

/-- the string branch before F8: `None` is caught by the guard above it, any other non-string makes `fnmatch` raise -/
def patternMatchUnfixed (glob : String → String → Bool) (p : String) : MVal → Except Err Bool
  | .str s => .ok (glob p s)
  | .none => .ok false
  | _ => .error .typeError

/-- the string branch as it stands in the source -/
def patternMatch (glob : String → String → Bool) (p : String) (r : MVal) : Except Err Bool :=
  if PlaybackModel.Source.patternGuardsNonString then patternMatchGuarded glob p r else patternMatchUnfixed glob p r

/-- `isinstance(v, dict) and 'operator' in v and 'value' in v` -/
def operatorParts (fs : List (String × MVal)) : Option (MVal × MVal) :=
  match lookup "operator" fs, lookup "value" fs with
  | some op, some v => some (op, v)
  | _, _ => Option.none

mutual
/-- `_match_metadata_value(match_value, recorded_value)` (repaired code).  `glob pat s` is `fnmatch(s, pat)`. -/
def matchValue (glob : String → String → Bool) : MVal → MVal → Except Err Bool
  | .list alts, r => matchAny glob alts r
  | .dict fs, r =>
    match operatorParts fs with
    | some (op, v) => operatorFilter op r v
    | Option.none => atomMatch (.dict fs) r
  | .none, r => .ok (pyEq r .none)
  | .str p, r => patternMatch glob p r
  | .bool b, r => atomMatch (.bool b) r
  | .num n e, r => atomMatch (.num n e) r
  | .tuple xs, r => atomMatch (.tuple xs) r
  | .cls c, r => atomMatch (.cls c) r
def matchAny (glob : String → String → Bool) : List MVal → MVal → Except Err Bool
  | [], _ => .ok false
  | a :: rest, r => match matchValue glob a r with
    | .error e => .error e
    | .ok true => .ok true
    | .ok false => matchAny glob rest r
end

mutual
/-- the matcher before F8: `fnmatch` on a non-string raises, operators on unorderable operands raise -/
def matchValueUnfixed (glob : String → String → Bool) : MVal → MVal → Except Err Bool
  | .list alts, r => matchAnyUnfixed glob alts r
  | .dict fs, r =>
    match operatorParts fs with
    | some (op, v) => operatorFilterUnfixed op r v
    | Option.none => atomMatch (.dict fs) r
  | .none, r => .ok (pyEq r .none)
  | .str p, r => patternMatchUnfixed glob p r
  | .bool b, r => atomMatch (.bool b) r
  | .num n e, r => atomMatch (.num n e) r
  | .tuple xs, r => atomMatch (.tuple xs) r
  | .cls c, r => atomMatch (.cls c) r
def matchAnyUnfixed (glob : String → String → Bool) : List MVal → MVal → Except Err Bool
  | [], _ => .ok false
  | a :: rest, r => match matchValueUnfixed glob a r with
    | .error e => .error e
    | .ok true => .ok true
    | .ok false => matchAnyUnfixed glob rest r
end

/-- `recording_metadata.get(k)` -/
def mdGet (md : List (String × MVal)) (k : String) : MVal := (lookup k md).getD .none

/-- `match_against_recorded_metadata(filter, metadata)`: conjunction over the filter's items, first failure wins -/
def matchMeta (glob : String → String → Bool) : List (String × MVal) → List (String × MVal) → Except Err Bool
  | [], _ => .ok true
  | (k, v) :: rest, md => match matchValue glob v (mdGet md k) with
    | .error e => .error e
    | .ok false => .ok false
    | .ok true => matchMeta glob rest md

def matchMetaUnfixed (glob : String → String → Bool) : List (String × MVal) → List (String × MVal) → Except Err Bool
  | [], _ => .ok true
  | (k, v) :: rest, md => match matchValueUnfixed glob v (mdGet md k) with
    | .error e => .error e
    | .ok false => .ok false
    | .ok true => matchMetaUnfixed glob rest md

/-! ### A concrete `fnmatch` for the driver (`*`, `?`, `[seq]`, `[!seq]` with `a-z` ranges, unclosed `[` literal).
The theorems are parametric in `glob`; this instance is validated by the correspondence check only. -/

/-- position of the `]` closing a class whose body starts at `cs` (after `[`): an optional `!` and an
immediately following `]` belong to the body (fnmatch.translate l.24-31) -/
def classEnd (cs : List Char) : Option (List Char × List Char) :=
  let (neg, cs1) := match cs with
    | '!' :: r => (['!'], r)
    | _ => ([], cs)
  let (first, cs2) := match cs1 with
    | ']' :: r => ([']'], r)
    | _ => ([], cs1)
  let rec go (acc : List Char) : List Char → Option (List Char × List Char)
    | [] => Option.none
    | ']' :: r => some (acc.reverse, r)
    | c :: r => go (c :: acc) r
  match go [] cs2 with
  | some (body, rest) => some (neg ++ first ++ body, rest)
  | Option.none => Option.none

/-- membership of `c` in a class body without the leading `!` -/
def classMem (c : Char) : List Char → Bool
  | lo :: '-' :: hi :: rest => (lo.val ≤ c.val && c.val ≤ hi.val) || classMem c rest
  | x :: rest => x == c || classMem c rest
  | [] => false

def classMatch (body : List Char) (c : Char) : Bool :=
  match body with
  | '!' :: r => !(classMem c r)
  | _ => classMem c body

def globAux : Nat → List Char → List Char → Bool
  | 0, _, _ => false
  | _ + 1, [], s => s.isEmpty
  | fuel + 1, '*' :: p, s =>
    globAux fuel p s || (match s with
      | [] => false
      | _ :: s' => globAux fuel ('*' :: p) s')
  | fuel + 1, '?' :: p, s => (match s with
      | [] => false
      | _ :: s' => globAux fuel p s')
  | fuel + 1, '[' :: p, s =>
    (match classEnd p with
     | some (body, rest) => (match s with
        | [] => false
        | c :: s' => classMatch body c && globAux fuel rest s')
     | Option.none => (match s with
        | '[' :: s' => globAux fuel p s'
        | _ => false))
  | fuel + 1, c :: p, s => (match s with
      | c' :: s' => c == c' && globAux fuel p s'
      | [] => false)

def fnmatch (pat s : String) : Bool :=
  globAux (pat.length + s.length + 1) pat.toList s.toList

end PlaybackModel.MetaFilter
